"""DIM — unit inference by abstract interpretation of expression ASTs.

A unit is ``length^l * amplitude^a * count^n`` where the length exponent ``l`` is a
linear form over symbols ("1" plus symbolic counts such as the space dimension ``d``
or the number of free axes).  Values can additionally be *extensive* (an array with one
entry per cell / Fourier mode): summing such an array multiplies the unit by count^1.

Abstract values:
  * ``Unit``      – known unit
  * ``POLY``      – numeric literal: neutral in additions/comparisons, dimensionless in
                    products
  * ``BOTTOM``    – value being defined (cycle through a loop accumulator), neutral
  * ``None``      – unknown (⊤): never fires
  * ``Fn``        – callable mapping x-unit -> y-unit (SmoothData1D instance, lambda)
  * ``Obj``       – object with attribute units (optimizer result, tuples)

Nothing is executed: the evaluator walks the AST and resolves names through the
reaching definitions of :class:`dropstat.astutil.FuncView`.
"""

from __future__ import annotations

import ast
from fractions import Fraction

from .astutil import U, FuncView, view
from .cfg import walk_no_nested
from .model import dotted


class _Tok:
    def __init__(self, name):
        self.name = name

    def __repr__(self):
        return self.name


POLY = _Tok("POLY")
BOTTOM = _Tok("BOTTOM")


def _lf(x) -> tuple:
    """normalise a linear form given as dict/Fraction/int"""
    if isinstance(x, (int, Fraction)):
        x = {"1": Fraction(x)}
    return tuple(sorted((k, Fraction(v)) for k, v in x.items() if v != 0))


class Unit:
    __slots__ = ("L", "A", "N", "ext", "pt")

    def __init__(self, L=0, A=0, N=0, ext=False, pt=False):
        self.L = _lf(L) if not isinstance(L, tuple) else L
        self.A = Fraction(A)
        self.N = Fraction(N)
        self.ext = bool(ext)
        self.pt = bool(pt)  # a coordinate (affine point), not a length (vector)

    def key(self):
        return (self.L, self.A, self.N)

    def same(self, o) -> bool:
        return isinstance(o, Unit) and self.key() == o.key()

    def is_one(self) -> bool:
        return not self.L and self.A == 0 and self.N == 0

    def mul(self, o: "Unit") -> "Unit":
        d = dict(self.L)
        for k, v in o.L:
            d[k] = d.get(k, Fraction(0)) + v
        return Unit(d, self.A + o.A, self.N + o.N, self.ext or o.ext)

    def pow(self, e) -> "Unit | None":
        """e: Fraction, ("sym", name) = raise to a symbolic count, ("inv", name)"""
        if isinstance(e, (int, Fraction)):
            e = Fraction(e)
            return Unit({k: v * e for k, v in self.L}, self.A * e, self.N * e, self.ext)
        kind, sym = e
        if kind == "sym":
            if self.A != 0 or self.N != 0:
                return None
            d = {}
            for k, v in self.L:
                if k != "1":
                    return None
                d[sym] = v
            return Unit(d, 0, 0, False)
        if kind == "inv":
            if self.A != 0 or self.N != 0:
                return None if not self.is_one() else self
            d = {}
            for k, v in self.L:
                if k != sym:
                    return None
                d["1"] = v
            return Unit(d, 0, 0, self.ext)
        return None

    def with_ext(self, ext) -> "Unit":
        return Unit(self.L, self.A, self.N, ext, self.pt)

    def as_vector(self) -> "Unit":
        return Unit(self.L, self.A, self.N, self.ext, False)

    def as_point(self) -> "Unit":
        return Unit(self.L, self.A, self.N, self.ext, True)

    def show(self) -> str:
        parts = []
        if self.L:
            ex = []
            for k, v in self.L:
                ex.append(str(v) if k == "1" else (k if v == 1 else f"{v}*{k}"))
            e = "+".join(ex)
            parts.append("length" if e == "1" else f"length^({e})")
        if self.A:
            parts.append("amplitude" if self.A == 1 else f"amplitude^{self.A}")
        if self.N:
            parts.append("count" if self.N == 1 else f"count^{self.N}")
        return (" ".join(parts) or "1") + (" [coordinate]" if self.pt else "")

    __repr__ = show


ONE = Unit()
LEN = Unit(1)
AMP = Unit(0, 1)


def L(e) -> Unit:
    return Unit(e)


class Fn:
    def __init__(self, x, y):
        self.x, self.y = x, y


class Obj:
    def __init__(self, attrs=None, items=None):
        self.attrs = attrs or {}
        self.items = items  # list of abstract values for tuple-like objects


def show(u) -> str:
    if isinstance(u, Unit):
        return u.show()
    if u is None:
        return "unknown"
    if isinstance(u, Fn):
        return f"fn({show(u.x)} -> {show(u.y)})"
    if isinstance(u, Obj):
        return "object"
    return repr(u)


def join(a, b):
    """least upper bound used for several reaching definitions"""
    if a is BOTTOM:
        return b
    if b is BOTTOM:
        return a
    if a is POLY:
        return b
    if b is POLY:
        return a
    if a is None or b is None:
        return None
    if isinstance(a, Unit) and isinstance(b, Unit):
        return Unit(a.L, a.A, a.N, a.ext or b.ext, a.pt or b.pt) if a.same(b) else None
    if isinstance(a, Fn) and isinstance(b, Fn):
        return a
    return None


PRESERVE_FUNCS = {
    "float", "abs", "numpy.abs", "numpy.absolute", "numpy.real", "numpy.imag", "numpy.asarray", "numpy.asanyarray",
    "numpy.array", "numpy.atleast_1d", "numpy.atleast_2d", "numpy.ravel", "numpy.sort", "numpy.cumsum", "numpy.copy",
    "numpy.squeeze", "numpy.transpose", "numpy.broadcast_to", "numpy.full_like", "numpy.flatnonzero", "numpy.negative",
    "numpy.float64", "numpy.double", "numpy.diff", "numpy.unique", "list", "tuple", "sorted", "numpy.nan_to_num",
}
REDUCE_FUNCS = {"numpy.max", "numpy.min", "numpy.amax", "numpy.amin", "numpy.mean", "numpy.median", "numpy.ptp", "max", "min",
                "numpy.nanmax", "numpy.nanmin", "numpy.nanmean", "numpy.std"}
SUM_FUNCS = {"numpy.sum", "sum", "numpy.nansum"}
DIMLESS_ARG_FUNCS = {"numpy.sin", "numpy.cos", "numpy.tan", "numpy.tanh", "numpy.exp", "numpy.log", "numpy.arccos", "numpy.arcsin",
                     "numpy.arctan", "math.sin", "math.cos", "math.exp", "math.log", "math.tanh", "numpy.sinh", "numpy.cosh"}
DIMLESS_RESULT = {"len", "int", "bool", "range", "enumerate", "numpy.arange", "numpy.argmax", "numpy.argmin", "numpy.sign",
                  "numpy.isfinite", "numpy.isnan", "numpy.isinf", "numpy.isclose", "numpy.allclose", "numpy.ones", "numpy.zeros",
                  "numpy.ones_like", "numpy.zeros_like", "numpy.count_nonzero", "numpy.floor", "numpy.ceil", "isinstance", "set",
                  "numpy.arctan2", "numpy.issubdtype", "numpy.all", "numpy.any", "all", "any"}
PRESERVE_METHODS = {"copy", "astype", "ravel", "flatten", "reshape", "squeeze", "tolist", "item", "view", "conj", "transpose"}
REDUCE_METHODS = {"max", "min", "mean", "ptp", "std"}
PRESERVE_ATTRS = {"flat", "T", "real", "imag"}
DIMLESS_ATTRS = {"shape", "size", "ndim", "dim", "num_axes", "dtype", "periodic", "coordinate_constraints", "modes", "amplitudes"}


class DimEval:
    """Evaluate units inside one function."""

    def __init__(self, model, fi, *, attr_units=None, expr_units=None, param_units=None, call_units=None, sink=None, dim_symbol="d",
                 method_units=None):
        self.model = model
        self.fi = fi
        self.fv: FuncView = view(model, fi)
        self.attr_units = attr_units or {}
        self.expr_units = expr_units or {}
        self.param_units = param_units or {}
        self.call_units = call_units or {}
        self.method_units = method_units or {}
        self.sink = sink  # callable(kind, node, message, key)
        self.dim_symbol = dim_symbol
        self._memo: dict = {}
        self._busy: set = set()
        self.mismatches: list = []
        self.nested: dict = {}
        self.obl: list = []

    # ------------------------------------------------------------------ util
    def report(self, kind, node, msg, key=None):
        self.mismatches.append((kind, node, msg, key or f"{kind}:{U(node)[:70]}"))
        if self.sink:
            self.sink(kind, node, msg, key or f"{kind}:{U(node)[:70]}")

    def resolved(self, call) -> str:
        r = self.model.callee(self.fv.mod, call) or ""
        if isinstance(call.func, ast.Name) and (not r or r == call.func.id):
            # a local alias of a function (`Yl = spherical.spherical_harmonic_symmetric`)
            try:
                d = self.fv.single_def_value(call.func.id, call)
            except Exception:
                d = None
            if d is not None and isinstance(d[0], (ast.Attribute, ast.Name)):
                import copy as _copy

                alias = _copy.copy(call)
                alias.func = d[0]
                r2 = self.model.callee(self.fv.mod, alias) or ""
                if r2:
                    return r2
        return r

    def const_fraction(self, node, at):
        """Exact rational value of a constant expression, or a symbolic exponent."""
        from .algebra import Converter, NotAlgebraic

        try:
            ex = self.fv.expand(node, at) if at is not None else node
        except Exception:
            ex = node
        # 1 / len(X)  ->  ("inv", sym(X))
        if isinstance(ex, ast.BinOp) and isinstance(ex.op, ast.Div):
            num = self.const_fraction(ex.left, None)
            den = self.count_symbol(ex.right, at)
            if isinstance(num, Fraction) and num == 1 and den is not None:
                return ("inv", den)
        try:
            e = Converter(opaque_calls=False).conv(ex)
        except NotAlgebraic:
            return None
        m = e.single()
        if m is None:
            return None
        c, rest = m.split()
        if rest:
            return None
        return c

    def count_symbol(self, node, at):
        """symbol naming the number of elements of an iterable / of len(iterable)"""
        if isinstance(node, ast.Call) and dotted(node.func) == "len" and node.args:
            return self.count_symbol(node.args[0], at)
        d = dotted(node)
        if d and d.split(".")[-1] in ("dim", "num_axes"):
            return self.dim_symbol
        if isinstance(node, ast.Call) and dotted(node.func) == "range" and len(node.args) == 1:
            return self.count_symbol(node.args[0], at)
        try:
            ex = self.fv.expand(node, at) if at is not None else node
        except Exception:
            ex = node
        if ex is not node:
            d = dotted(ex)
            if d and d.split(".")[-1] in ("dim", "num_axes"):
                return self.dim_symbol
            if isinstance(ex, ast.Call) and dotted(ex.func) == "range" and len(ex.args) == 1:
                return self.count_symbol(ex.args[0], None)
        if isinstance(ex, (ast.Name, ast.Attribute, ast.Call, ast.BinOp, ast.Subscript)):
            return "n[" + U(ex) + "]"
        return None

    # ------------------------------------------------------------------ names
    def name_unit(self, name: str, at):
        node = at if not isinstance(at, ast.AST) else self.fv.node_of(at)
        if node is None:
            return None
        key = ("name", name, node.idx)
        if key in self._memo:
            return self._memo[key]
        if key in self._busy:
            return BOTTOM
        self._busy.add(key)
        try:
            defs = self.fv.defs_reaching(name, node)
            if not defs:
                res = self.free_name(name)
            else:
                res = BOTTOM
                for d in sorted(defs, key=lambda n: n.idx):
                    res = join(res, self.def_unit(d, name))
                    if res is None:
                        break
                if res is BOTTOM:
                    res = None
        finally:
            self._busy.discard(key)
        self._memo[key] = res
        return res

    def name_units_per_def(self, name: str, at):
        """[(def node, unit)] for every definition of ``name`` reaching ``at``"""
        node = at if not isinstance(at, ast.AST) else self.fv.node_of(at)
        out = []
        if node is None:
            return out
        for d in sorted(self.fv.defs_reaching(name, node), key=lambda n: n.idx):
            out.append((d, self.as_unit(self.def_unit(d, name))))
        return out

    def free_name(self, name):
        if name in self.param_units:
            return self.param_units[name]
        if name in ("π", "pi"):
            return ONE
        full = self.model.resolve(self.fv.mod, name)
        if full in ("numpy.pi", "math.pi", "droplets.tools.spherical.π"):
            return ONE
        # closure variable of an enclosing function
        p = self.fi.parent
        if p is not None and self.outer is not None:
            return self.outer.name_unit_at_def(name, self.fi)
        return None

    outer = None  # DimEval of the enclosing function (for closures)

    def name_unit_at_def(self, name, inner_fi):
        n = self.fv.cfg.node_for(inner_fi.node)
        if n is None:
            # nested def inside an expression (lambda): use function exit state
            n = self.fv.cfg.exit
        return self.name_unit(name, n)

    def def_unit(self, d, name):
        if d is self.fv.cfg.entry:
            return self.param_units.get(name)
        s = d.stmt
        if d.kind == "loop":
            return self.loop_target_unit(s, name, d)
        if isinstance(s, ast.AugAssign) and isinstance(s.target, ast.Name) and s.target.id == name:
            v = self.unit(s.value, d)
            if isinstance(s.op, (ast.Add, ast.Sub)):
                prev = self.name_unit(name, d)
                self.additive(prev, v, s, "accumulation")
                return join(prev, v) if not (isinstance(prev, Unit) and isinstance(v, Unit) and not prev.same(v)) else prev
            if isinstance(s.op, (ast.Mult, ast.Div)):
                loop = self.enclosing_loop(s)
                if loop is not None and isinstance(v, Unit):
                    sym = self.count_symbol(loop.iter, d)
                    if sym is not None:
                        if isinstance(s.op, ast.Div):
                            v = v.pow(-1)
                        r = v.pow(("sym", sym)) if not v.is_one() else v
                        return r
                prev = self.name_unit(name, d)
                if prev is BOTTOM or prev is POLY:
                    prev = ONE
                if isinstance(prev, Unit) and isinstance(v, Unit):
                    return prev.mul(v if isinstance(s.op, ast.Mult) else v.pow(-1))
                if isinstance(prev, Unit) and v is POLY:
                    return prev
                return None
            return None
        val = self.fv.value_of_def(d, name)
        if val is None:
            if isinstance(s, (ast.FunctionDef, ast.AsyncFunctionDef)):
                return self.nested_fn(s)
            return None
        if isinstance(val, ast.List) and not val.elts:
            # a list filled by name.append(v): unit of the appended values
            r = BOTTOM
            for c in self.fv.calls():
                if isinstance(c.func, ast.Attribute) and c.func.attr == "append" and U(c.func.value) == name and len(c.args) == 1:
                    r = join(r, self.as_unit(self.unit(c.args[0], c)))
                    if r is None:
                        return None
            if isinstance(r, Unit):
                return r.with_ext(True)
            return None if r is BOTTOM else r
        return self.unit(val, d)

    def enclosing_loop(self, stmt):
        from .astutil import stmt_index

        si = stmt_index(self.fv)
        r = si.enclosing(stmt, (ast.For,))
        return r[0] if r else None

    def loop_target_unit(self, loop, name, d):
        it = loop.iter
        # enumerate(X, k): first target dimensionless, second = element of X
        tgt = loop.target
        if isinstance(it, ast.Call) and dotted(it.func) == "enumerate" and isinstance(tgt, ast.Tuple) and len(tgt.elts) == 2:
            if name in {n.id for n in ast.walk(tgt.elts[0]) if isinstance(n, ast.Name)}:
                return ONE
            u = self.unit(it.args[0], d) if it.args else None
            return u.with_ext(False) if isinstance(u, Unit) else u
        if isinstance(it, ast.Call) and dotted(it.func) in ("range",):
            return ONE
        if isinstance(it, ast.Call) and dotted(it.func) == "zip" and isinstance(tgt, ast.Tuple) and len(tgt.elts) == len(it.args):
            for e, a in zip(tgt.elts, it.args):
                if name in {n.id for n in ast.walk(e) if isinstance(n, ast.Name)}:
                    u = self.unit(a, d)
                    return u.with_ext(False) if isinstance(u, Unit) else u
        u = self.unit(it, d)
        if isinstance(u, Unit):
            return u.with_ext(False)
        if isinstance(u, Obj) and u.items:
            r = BOTTOM
            for x in u.items:
                r = join(r, x)
            return None if r is BOTTOM else r
        return u if u is POLY else None

    def nested_fn(self, fdef):
        fi = self.model.func_of_node.get(id(fdef))
        if fi is None:
            return None
        sub = DimEval(self.model, fi, attr_units=self.attr_units, expr_units=self.expr_units, call_units=self.call_units,
                      sink=self.sink, dim_symbol=self.dim_symbol, method_units=self.method_units)
        sub.outer = self
        self.nested[fi.qualname] = sub
        return Fn(None, sub.return_unit())

    def return_unit(self):
        res = BOTTOM
        for n in self.fv.return_nodes():
            if n.stmt.value is None:
                continue
            res = join(res, self.unit(n.stmt.value, n))
            if res is None:
                return None
        return None if res is BOTTOM else res

    def return_units(self):
        """[(return stmt, unit)]"""
        return [(n.stmt, self.unit(n.stmt.value, n)) for n in self.fv.return_nodes() if n.stmt.value is not None]

    def visit_tests(self):
        """evaluate every branch condition of the function so that unit mismatches inside guards are reported too"""
        for n in self.fv.cfg.nodes:
            t = None
            if n.kind == "test":
                t = n.stmt.test if isinstance(n.stmt, (ast.If, ast.While)) else n.stmt
            elif isinstance(n.stmt, ast.Assert):
                t = n.stmt.test
            if t is not None:
                try:
                    self._unit(t, n)
                except RecursionError:  # pragma: no cover
                    pass

    # ------------------------------------------------------------------ checks
    def additive(self, a, b, node, what="addition"):
        if isinstance(a, Unit) and isinstance(b, Unit) and not a.same(b):
            self.report("DIM", node, f"{what} of quantities with different units: {a.show()} vs {b.show()} in `{U(node)[:90]}`")
            return False
        return True

    def no_point(self, u, node, what):
        if isinstance(u, Unit) and u.pt:
            self.report("AFFINE", node, f"a coordinate (position of a grid boundary) is used as a length in {what}: `{U(node)[:80]}` — the result depends on where the origin of the grid lies; use upper − lower bound")

    def need_dimensionless(self, u, node, what):
        if isinstance(u, Unit) and not u.is_one():
            self.report("DIM", node, f"{what} needs a dimensionless argument but gets {u.show()} in `{U(node)[:90]}`")

    # ------------------------------------------------------------------ expressions
    def unit(self, n, at):
        """abstract unit of expression ``n`` evaluated at CFG node / AST position ``at``"""
        if at is not None and isinstance(at, ast.AST):
            at = self.fv.node_of(at)
        try:
            return self._unit(n, at)
        except RecursionError:  # pragma: no cover
            return None

    def _unit(self, n, at):
        txt = None
        if isinstance(n, (ast.Attribute, ast.Subscript, ast.Call, ast.Name)):
            try:
                txt = U(n)
            except Exception:
                txt = None
            if txt in self.expr_units:
                return self.expr_units[txt]
        if isinstance(n, ast.Constant):
            if isinstance(n.value, bool) or n.value is None or isinstance(n.value, str):
                return None if not isinstance(n.value, bool) else ONE
            return POLY
        if isinstance(n, ast.Name):
            if at is None:
                return self.free_name(n.id)
            return self.name_unit(n.id, at)
        if isinstance(n, ast.UnaryOp):
            if isinstance(n.op, ast.Not):
                return ONE
            return self._unit(n.operand, at)
        if isinstance(n, ast.BinOp):
            return self.binop(n, at)
        if isinstance(n, ast.Compare):
            prev = self._unit(n.left, at)
            for c in n.comparators:
                cur = self._unit(c, at)
                if not isinstance(n.ops[0], (ast.In, ast.NotIn, ast.Is, ast.IsNot)):
                    self.additive(prev, cur, n, "comparison")
                prev = cur
            return ONE
        if isinstance(n, ast.BoolOp):
            for v in n.values:
                self._unit(v, at)
            return ONE
        if isinstance(n, ast.IfExp):
            self._unit(n.test, at)
            return join(self._unit(n.body, at), self._unit(n.orelse, at))
        if isinstance(n, ast.Attribute):
            return self.attribute(n, at)
        if isinstance(n, ast.Subscript):
            return self.subscript(n, at)
        if isinstance(n, ast.Call):
            return self.call(n, at)
        if isinstance(n, (ast.Tuple, ast.List)):
            items = [self._unit(e.value if isinstance(e, ast.Starred) else e, at) for e in n.elts]
            return Obj(items=items)
        if isinstance(n, (ast.ListComp, ast.GeneratorExp)):
            return self.comprehension(n, at)
        if isinstance(n, ast.Lambda):
            sub = _LambdaEval(self, n, at)
            return Fn(None, sub.body_unit())
        if isinstance(n, ast.NamedExpr):
            return self._unit(n.value, at)
        if isinstance(n, ast.Starred):
            return self._unit(n.value, at)
        return None

    def as_unit(self, v):
        """collapse tuple-like objects with homogeneous items to their unit"""
        if isinstance(v, Obj) and v.items is not None:
            r = BOTTOM
            for x in v.items:
                x = self.as_unit(x)
                r = join(r, x)
                if r is None:
                    return None
            return POLY if r is BOTTOM else r
        return v

    def binop(self, n, at):
        a = self.as_unit(self._unit(n.left, at))
        if isinstance(n.op, ast.Pow):
            e = self.const_fraction(n.right, at)
            if a is POLY:
                return POLY
            if isinstance(a, Unit):
                self.no_point(a, n, "a power")
                a = a.as_vector()
                if e is None:
                    return a if a.is_one() else None
                r = a.pow(e)
                if r is None and isinstance(e, tuple):
                    self.report("DIM", n, f"root/power over count {e[1]} applied to {a.show()}, which was not accumulated over the same count, in `{U(n)[:90]}`")
                return r
            return None
        b = self.as_unit(self._unit(n.right, at))
        if isinstance(n.op, (ast.Add, ast.Sub)):
            self.additive(a, b, n)
            if isinstance(a, Unit) and isinstance(b, Unit):
                if isinstance(n.op, ast.Sub):
                    pt = a.pt and not b.pt  # point - point = vector, point - vector = point
                else:
                    pt = a.pt or b.pt
                return Unit(a.L, a.A, a.N, a.ext or b.ext, pt)
            return join(a, b) if not (a is None or b is None) else (a if isinstance(a, Unit) else (b if isinstance(b, Unit) else None))
        if isinstance(n.op, (ast.Mult, ast.Div, ast.FloorDiv, ast.MatMult)):
            if a is POLY and b is POLY:
                return POLY
            if a is POLY or a is BOTTOM:
                a = ONE
            if b is POLY or b is BOTTOM:
                b = ONE
            if isinstance(a, Unit) and isinstance(b, Unit):
                self.no_point(a, n, "a product/quotient")
                self.no_point(b, n, "a product/quotient")
                a, b = a.as_vector(), b.as_vector()
                if isinstance(n.op, ast.Mult):
                    return a.mul(b)
                if isinstance(n.op, ast.MatMult):
                    r = a.mul(b)
                    return Unit(r.L, r.A, r.N + (1 if (a.ext and b.ext) else 0), False)
                return a.mul(b.pow(-1)).with_ext(a.ext or b.ext)
            return None
        if isinstance(n.op, ast.Mod):
            return a
        return None

    def attribute(self, n, at):
        d = dotted(n)
        if d:
            full = self.model.resolve(self.fv.mod, d)
            if full in ("numpy.pi", "math.pi", "numpy.inf", "math.inf", "math.nan", "numpy.nan", "droplets.tools.spherical.π"):
                return ONE if full.endswith("pi") or full.endswith("π") else POLY
        if n.attr in self.attr_units:
            return self.attr_units[n.attr]
        base = self._unit(n.value, at)
        if isinstance(base, Obj) and n.attr in base.attrs:
            return base.attrs[n.attr]
        if n.attr in PRESERVE_ATTRS:
            return base
        if n.attr in DIMLESS_ATTRS:
            return ONE
        return None

    def subscript(self, n, at):
        # np.r_[a, b, ...]
        d = dotted(n.value)
        if d:
            full = self.model.resolve(self.fv.mod, d)
            if full in ("numpy.r_", "numpy.c_"):
                elts = n.slice.elts if isinstance(n.slice, ast.Tuple) else [n.slice]
                r = BOTTOM
                for e in elts:
                    u = self.as_unit(self._unit(e, at))
                    if isinstance(r, Unit) and isinstance(u, Unit) and not r.same(u):
                        self.report("DIM", n, f"concatenation of quantities with different units: {r.show()} vs {u.show()} in `{U(n)[:90]}`")
                        return None
                    r = join(r, u)
                    if r is None:
                        return None
                if isinstance(r, Unit):
                    return r.with_ext(True)
                return r if r is not BOTTOM else None
        base = self._unit(n.value, at)
        if isinstance(base, Obj) and base.items is not None:
            idx = n.slice
            if isinstance(idx, ast.Constant) and isinstance(idx.value, int) and -len(base.items) <= idx.value < len(base.items):
                return base.items[idx.value]
            return self.as_unit(base)
        return base

    def comprehension(self, n, at):
        # bind generator targets as dimensionless indices / element units through a tiny env
        env = {}
        for g in n.generators:
            it = g.iter
            if isinstance(it, ast.Call) and dotted(it.func) == "zip" and isinstance(g.target, ast.Tuple) and len(g.target.elts) == len(it.args) and not it.keywords:
                # element i of zip(A, B) has the element unit of A / of B
                for tgt, seq in zip(g.target.elts, it.args):
                    u = self.as_unit(self._unit(seq, at))
                    for nm in ast.walk(tgt):
                        if isinstance(nm, ast.Name):
                            env[nm.id] = u.with_ext(False) if isinstance(u, Unit) else u
            elif isinstance(it, ast.Call) and dotted(it.func) == "enumerate" and isinstance(g.target, ast.Tuple) and len(g.target.elts) == 2 and it.args:
                for nm in ast.walk(g.target.elts[0]):
                    if isinstance(nm, ast.Name):
                        env[nm.id] = ONE
                u = self.as_unit(self._unit(it.args[0], at))
                for nm in ast.walk(g.target.elts[1]):
                    if isinstance(nm, ast.Name):
                        env[nm.id] = u.with_ext(False) if isinstance(u, Unit) else u
            elif isinstance(it, ast.Call) and dotted(it.func) in ("range", "enumerate"):
                for nm in ast.walk(g.target):
                    if isinstance(nm, ast.Name):
                        env[nm.id] = ONE
            else:
                u = self.as_unit(self._unit(it, at))
                for nm in ast.walk(g.target):
                    if isinstance(nm, ast.Name):
                        env[nm.id] = u.with_ext(False) if isinstance(u, Unit) else u
        sub = _EnvEval(self, env, at)
        u = sub.unit(n.elt)
        return u.with_ext(True) if isinstance(u, Unit) else u

    # ------------------------------------------------------------------ calls
    def call(self, n, at):
        name = self.resolved(n)
        short = dotted(n.func) or ""
        args = n.args
        if name in self.call_units or short in self.call_units:
            h = self.call_units.get(name) or self.call_units.get(short)
            return h(self, n, at) if callable(h) else h
        # method on self with a declared unit
        if isinstance(n.func, ast.Attribute) and n.func.attr in self.method_units:
            for a in args:
                self._unit(a, at)
            return self.method_units[n.func.attr]
        if name in ("numpy.isclose", "numpy.allclose", "math.isclose") and len(args) >= 2:
            a, b = (self.as_unit(self._unit(x, at)) for x in args[:2])
            self.additive(a, b, n, "tolerance comparison")
            tol_kw = "abs_tol" if name.startswith("math.") else "atol"
            atol = [k.value for k in n.keywords if k.arg == tol_kw] or ([args[3]] if len(args) > 3 and not name.startswith("math.") else [])
            explicit_zero = bool(atol) and isinstance(atol[0], ast.Constant) and atol[0].value == 0
            implicit_abs = not name.startswith("math.") or bool(atol)
            for u in (a, b):
                if isinstance(u, Unit) and not u.is_one() and implicit_abs and not explicit_zero:
                    if atol:
                        tu = self.as_unit(self._unit(atol[0], at))
                        if isinstance(tu, Unit) and tu.same(u):
                            break
                    self.report("DIM", n, f"`{U(n)[:80]}` compares a quantity of unit {u.show()} within an *absolute* tolerance (a pure number, {'1e-8 by default' if not atol else U(atol[0])}): "
                                "the outcome changes when the field is multiplied by a constant or the grid is rescaled")
                    break
            return ONE
        if name in ("numpy.sqrt", "math.sqrt"):
            u = self.as_unit(self._unit(args[0], at)) if args else None
            return u.pow(Fraction(1, 2)) if isinstance(u, Unit) else u
        if name in PRESERVE_FUNCS or short in ("float", "abs", "list", "tuple", "sorted", "iter", "reversed") or name.endswith(".iterate_in_pairs"):
            return self.as_unit(self._unit(args[0], at)) if args else None
        if name in REDUCE_FUNCS:
            if len(args) >= 2 and name in ("max", "min"):
                r = BOTTOM
                for a in args:
                    r = join(r, self.as_unit(self._unit(a, at)))
                return r if r is not BOTTOM else None
            u = self.as_unit(self._unit(args[0], at)) if args else None
            return u.with_ext(False) if isinstance(u, Unit) else u
        if name in SUM_FUNCS:
            u = self.as_unit(self._unit(args[0], at)) if args else None
            if isinstance(u, Unit):
                return Unit(u.L, u.A, u.N + (1 if u.ext else 0), False)
            return u
        if name in ("numpy.dot", "numpy.vdot", "numpy.inner"):
            if len(args) == 2:
                a, b = (self.as_unit(self._unit(x, at)) for x in args)
                if isinstance(a, Unit) and isinstance(b, Unit):
                    r = a.mul(b)
                    return Unit(r.L, r.A, r.N + (1 if (a.ext or b.ext) else 0), False)
            return None
        if name in ("numpy.prod",):
            u = self.as_unit(self._unit(args[0], at)) if args else None
            if isinstance(u, Unit):
                self.no_point(u, n, "a product")
                u = u.as_vector()
                sym = self.dim_symbol
                a0 = args[0]
                if isinstance(a0, (ast.ListComp, ast.GeneratorExp)) and len(a0.generators) == 1:
                    sym = self.count_symbol(a0.generators[0].iter, at) or sym
                return u.pow(("sym", sym)).with_ext(False) if not u.is_one() else u.with_ext(False)
            return u
        if name in DIMLESS_ARG_FUNCS:
            for a in args:
                self.need_dimensionless(self.as_unit(self._unit(a, at)), n, f"{name.split('.')[-1]}()")
            return ONE
        if name in ("numpy.arctan2", "numpy.hypot"):
            if len(args) == 2:
                a, b = (self.as_unit(self._unit(x, at)) for x in args)
                self.additive(a, b, n, f"{name.split('.')[-1]}() arguments")
                if name.endswith("hypot"):
                    return a if isinstance(a, Unit) else b
            return ONE
        if name in ("numpy.linalg.norm",):
            return self.as_unit(self._unit(args[0], at)) if args else None
        if name in ("numpy.linspace",):
            if len(args) >= 2:
                a, b = (self.as_unit(self._unit(x, at)) for x in args[:2])
                self.additive(a, b, n, "linspace() end points")
                r = a if isinstance(a, Unit) else b
                return r.with_ext(True) if isinstance(r, Unit) else r
            return None
        if name in ("numpy.full", "numpy.full_like") and len(args) >= 2:
            return self.as_unit(self._unit(args[1], at))
        if name in ("numpy.outer", "numpy.multiply.outer"):
            if len(args) == 2:
                a, b = (self.as_unit(self._unit(x, at)) for x in args)
                if isinstance(a, Unit) and isinstance(b, Unit):
                    return a.mul(b).with_ext(True)
            return None
        if name in ("numpy.fft.fftfreq", "numpy.fft.rfftfreq"):
            d = None
            for kw in n.keywords:
                if kw.arg == "d":
                    d = kw.value
            if d is None and len(args) >= 2:
                d = args[1]
            if d is None:
                return ONE.with_ext(True)
            u = self.as_unit(self._unit(d, at))
            if u is POLY:
                return ONE.with_ext(True)
            return u.pow(-1).with_ext(True) if isinstance(u, Unit) else None
        if name.endswith("fftn") or name.endswith(".fft") or name.endswith("fft2") or name.endswith("ifftn"):
            u = self.as_unit(self._unit(args[0], at)) if args else None
            norm = None
            for kw in n.keywords:
                if kw.arg == "norm":
                    norm = kw.value
            if isinstance(u, Unit):
                inverse = "ifft" in name.split(".")[-1]
                if norm is None or (isinstance(norm, ast.Constant) and norm.value in (None, "backward")):
                    e = Fraction(0) if inverse else Fraction(1)
                elif isinstance(norm, ast.Constant) and norm.value == "ortho":
                    e = Fraction(1, 2)
                elif isinstance(norm, ast.Constant) and norm.value == "forward":
                    e = Fraction(1) if inverse else Fraction(0)
                else:
                    return None
                return Unit(u.L, u.A, u.N + e, True)
            return None
        if name in ("functools.reduce", "reduce") and len(args) >= 2:
            f = dotted(args[0]) or ""
            ff = self.model.resolve(self.fv.mod, f) or f
            u = self.as_unit(self._unit(args[1], at))
            if ff in ("numpy.add.outer", "numpy.add", "operator.add", "numpy.maximum"):
                return u.with_ext(True) if isinstance(u, Unit) else u
            return None
        if name in DIMLESS_RESULT or short in ("len", "int", "range", "enumerate", "set", "isinstance", "bool"):
            for a in args:
                self._unit(a, at)
            return ONE
        if name.endswith("SmoothData1D"):
            x = self.as_unit(self._unit(args[0], at)) if len(args) > 0 else None
            y = self.as_unit(self._unit(args[1], at)) if len(args) > 1 else None
            s = None
            for kw in n.keywords:
                if kw.arg == "sigma":
                    s = kw.value
            if s is None and len(args) > 2:
                s = args[2]
            if s is not None:
                self.sigma_obligation(n, s, x, at)
            return Fn(x, y.with_ext(False) if isinstance(y, Unit) else y)
        if name.endswith("minimize_scalar"):
            br = None
            for kw in n.keywords:
                if kw.arg in ("bracket", "bounds"):
                    br = kw.value
            bu = self.as_unit(self._unit(br, at)) if br is not None else None
            f = self._unit(args[0], at) if args else None
            if isinstance(f, Fn) and isinstance(f.x, Unit) and isinstance(bu, Unit) and not f.x.same(bu):
                self.report("DIM", n, f"objective expects {f.x.show()} but bracket has {bu.show()}")
            return Obj(attrs={"x": bu.with_ext(False) if isinstance(bu, Unit) else bu, "fun": f.y if isinstance(f, Fn) else None, "success": ONE, "message": None})
        if name.endswith("integrate.dblquad") or name.endswith("integrate.quad"):
            f = self._unit(args[0], at) if args else None
            y = f.y if isinstance(f, Fn) else None
            return Obj(items=[y, y])
        # calling an abstract function value
        if isinstance(n.func, ast.Name):
            f = self.name_unit(n.func.id, at) if at is not None else None
            if isinstance(f, Fn):
                if args and isinstance(f.x, Unit):
                    a = self.as_unit(self._unit(args[0], at))
                    if isinstance(a, Unit) and not a.same(f.x):
                        self.report("DIM", n, f"`{n.func.id}` is a function of {f.x.show()} but is evaluated at {a.show()} in `{U(n)[:90]}`")
                return f.y
        # methods
        if isinstance(n.func, ast.Attribute):
            m = n.func.attr
            if m in PRESERVE_METHODS:
                return self._unit(n.func.value, at)
            if m in REDUCE_METHODS:
                u = self.as_unit(self._unit(n.func.value, at))
                return u.with_ext(False) if isinstance(u, Unit) else u
            if m == "sum":
                u = self.as_unit(self._unit(n.func.value, at))
                if isinstance(u, Unit):
                    return Unit(u.L, u.A, u.N + (1 if u.ext else 0), False)
                return u
            if m in ("pop", "get") and len(args) >= 2:
                return None
        for a in args:
            self._unit(a, at)
        return None

    def flat_defs(self, name, node, depth=4):
        """definitions of ``name`` reaching ``node``; pass-through definitions
        (``x = float(x)``, ``x = y``) are replaced by the definitions they forward"""
        out = []
        for d in sorted(self.fv.defs_reaching(name, node), key=lambda n: n.idx):
            v = self.fv.value_of_def(d, name) if d is not self.fv.cfg.entry and d.stmt is not None and not isinstance(d.stmt, ast.AugAssign) else None
            inner = v
            while isinstance(inner, ast.Call) and (self.resolved(inner) in PRESERVE_FUNCS or (dotted(inner.func) or "") in ("float",)) and len(inner.args) == 1:
                inner = inner.args[0]
            if isinstance(inner, ast.Name) and depth > 0 and d is not self.fv.cfg.entry:
                out.extend(self.flat_defs(inner.id, d, depth - 1))
            else:
                out.append(d)
        seen, res = set(), []
        for d in out:
            if id(d) not in seen:
                seen.add(id(d))
                res.append(d)
        return res

    def sigma_obligation(self, call, s, x, at):
        """SmoothData1D(x, y, sigma=s): s must have the unit of x — evaluated per
        reaching definition so that user-supplied (unknown) values do not mask a default."""
        checked = 0
        while isinstance(s, ast.Call) and (self.resolved(s) in PRESERVE_FUNCS or (dotted(s.func) or "") in ("float",)) and len(s.args) == 1 and not s.keywords:
            s = s.args[0]
        if isinstance(s, ast.IfExp):
            # one obligation per alternative (a user-supplied width in one arm does not mask the default in the other)
            return self.sigma_obligation(call, s.body, x, at) + self.sigma_obligation(call, s.orelse, x, at)
        if isinstance(s, ast.Name) and at is not None and not self.fv.defs_reaching(s.id, at) - {self.fv.cfg.entry}:
            return 0  # a parameter: supplied by the caller
        if isinstance(s, ast.Name) and at is not None:
            for d in self.flat_defs(s.id, at):
                if d is self.fv.cfg.entry or d.stmt is None:
                    continue
                names = CFG_defs(d)
                nm = s.id if s.id in names else (names[0] if names else s.id)
                val_ = self.fv.value_of_def(d, nm) if not isinstance(d.stmt, ast.AugAssign) else None
                while isinstance(val_, ast.Call) and (self.resolved(val_) in PRESERVE_FUNCS or (dotted(val_.func) or "") in ("float",)) and len(val_.args) == 1 and not val_.keywords:
                    val_ = val_.args[0]
                if isinstance(val_, ast.IfExp):
                    checked += self.sigma_obligation(call, val_, x, d)
                    continue
                u = self.as_unit(self.def_unit(d, nm))
                if isinstance(u, Unit) and isinstance(x, Unit):
                    checked += 1
                    self.obligation("SmoothData1D.sigma", call, d.stmt, u.same(x) and not u.pt,
                                    f"kernel width `{U(d.stmt)[:60]}` has unit {u.show()}, the abscissa has {x.show()}", u, x, d)
        else:
            u = self.as_unit(self._unit(s, at))
            if isinstance(u, Unit) and isinstance(x, Unit):
                checked += 1
                self.obligation("SmoothData1D.sigma", call, call, u.same(x), f"kernel width has unit {u.show()}, the abscissa has {x.show()}", u, x, None)
        return checked

    def obligation(self, what, call, where, ok, detail, got, want, d):
        self.obl.append((what, call, where, ok, detail, d))


def CFG_defs(d):
    from .cfg import CFG

    return CFG.defs_of(d)


class _EnvEval:
    """Evaluate an expression with extra local bindings (comprehension variables)."""

    def __init__(self, parent: DimEval, env, at):
        self.p, self.env, self.at = parent, env, at

    def unit(self, n):
        p = self.p
        saved = p.name_unit
        env, at = self.env, self.at

        def name_unit(name, at2):
            if name in env:
                return env[name]
            return saved(name, at2)

        p.name_unit = name_unit
        try:
            return p._unit(n, at)
        finally:
            p.name_unit = saved


class _LambdaEval:
    def __init__(self, parent: DimEval, lam: ast.Lambda, at):
        self.p, self.lam, self.at = parent, lam, at

    def body_unit(self):
        env = {a.arg: None for a in self.lam.args.args}
        return _EnvEval(self.p, env, self.at).unit(self.lam.body)
