"""Self-test of the checkers (run by MANIFEST.setup_cmd).

1. every registered property module imports and its built-in fixtures fire;
2. seeded breaking variants kept under /verif/seeded/<id>/patch.diff are applied to a
   scratch copy of the analysed tree (a temp dir outside /repo and /verif, removed
   afterwards) and the owning check must report a violation there; variants whose
   patch no longer applies to the current tree are reported as skipped;
3. benign variants under /verif/benign/<name>/patch.diff must leave every check silent.

Nothing from the analysed repository is imported or executed.
"""

from __future__ import annotations

import glob
import importlib
import json
import os
import shutil
import subprocess
import sys
import tempfile
from concurrent.futures import ThreadPoolExecutor

from .core import Ctx, VERIF
from .model import AnalysisError, Model
from .props import CLAIMED


def _apply(root, patch):
    tmp = tempfile.mkdtemp(prefix="dropstat_selftest_")
    shutil.copytree(os.path.join(root, "droplets"), os.path.join(tmp, "droplets"),
                    ignore=shutil.ignore_patterns("__pycache__", "resources", "*.pyc"))
    r = subprocess.run(["patch", "-p1", "-s", "-f", "-i", patch], cwd=tmp, capture_output=True, text=True)
    if r.returncode != 0:
        shutil.rmtree(tmp, ignore_errors=True)
        return None
    return tmp


def run_variant(job):
    root, d, expect_violation = job
    from .__main__ import run_property
    from .core import known_match, load_known_findings
    from . import astutil

    patch = os.path.join(d, "patch.diff")
    meta_p = os.path.join(d, "meta.json")
    if not os.path.exists(patch) or not os.path.exists(meta_p):
        return (d, "skipped", "no patch/meta")
    meta = json.load(open(meta_p))
    props = [meta["property"]] if expect_violation else meta.get("properties", CLAIMED)
    tmp = _apply(root, patch)
    if tmp is None:
        return (d, "skipped", "patch does not apply to the current tree")
    try:
        known = load_known_findings()
        model = Model.from_dir(tmp)
        for prop in props:
            if not os.path.exists(os.path.join(VERIF, "dropstat", "props", prop.lower() + ".py")):
                continue
            astutil._VIEWS.clear()
            try:
                ctx = run_property(prop, model, "quick")
                v = [f for f in ctx.violations() if known_match(prop, f, known) is None]
            except AnalysisError as exc:
                return (d, "analysis-error" if expect_violation else "FALSE-ALARM", f"{prop}: analysis error: {exc}")
            if expect_violation and not v:
                return (d, "MISSED", f"{prop}: no violation reported")
            if not expect_violation and v:
                return (d, "FALSE-ALARM", f"{prop}: {v[0].rule} @ {v[0].site}: {v[0].detail[:120]}")
        return (d, "ok", "")
    finally:
        shutil.rmtree(tmp, ignore_errors=True)


def main(args) -> int:
    root = args.root
    problems = []
    n_mod = 0
    for prop in CLAIMED:
        path = os.path.join(VERIF, "dropstat", "props", prop.lower() + ".py")
        if not os.path.exists(path):
            continue
        try:
            importlib.import_module(f"dropstat.props.{prop.lower()}")
            n_mod += 1
        except Exception as exc:  # pragma: no cover
            problems.append(f"import {prop}: {exc!r}")
    seeded = sorted(glob.glob(os.path.join(VERIF, "seeded", "*")))
    benign = sorted(glob.glob(os.path.join(VERIF, "benign", "*")))
    results = []
    if os.path.isdir(os.path.join(root, "droplets")):
        from concurrent.futures import ProcessPoolExecutor

        jobs = [(root, d, True) for d in seeded] + [(root, d, False) for d in benign]
        with ProcessPoolExecutor(max(1, min(args.jobs, os.cpu_count() or 1))) as ex:
            results += list(ex.map(run_variant, jobs))
    counts = {}
    for d, status, why in results:
        counts[status] = counts.get(status, 0) + 1
        if status in ("MISSED", "FALSE-ALARM", "analysis-error"):
            problems.append(f"{os.path.basename(d)}: {status} {why}")
        if not args.quiet or status not in ("ok",):
            print(f"selftest {os.path.relpath(d, VERIF)}: {status} {why}")
    print(f"selftest: {n_mod} property modules, variants: {counts}")
    os.makedirs(os.path.join(VERIF, "out"), exist_ok=True)
    with open(os.path.join(VERIF, "out", "selftest.json"), "w") as fh:
        json.dump({"modules": n_mod, "variants": counts, "problems": problems}, fh, indent=1)
    if problems:
        for p in problems:
            print("SELFTEST-PROBLEM", p)
        return 1
    return 0
