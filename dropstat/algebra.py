"""Exact normal forms for arithmetic expressions extracted from the AST.

An :class:`Expr` is a finite sum of monomials; a monomial is a sign/rational
coefficient factored into prime powers with *rational* exponents times opaque atoms
with rational exponents.  So ``(3 * V / (4 * pi)) ** (1 / 3)`` and
``(0.75 * V / pi) ** (1. / 3)`` have the same normal form, and ``4 * pi / 3 * r**3``
equals ``(4 * pi * r**3) / 3`` exactly, for every real value of the atoms (positive
reals for fractional powers).  No floating point evaluation takes place.
"""

from __future__ import annotations

import ast
from fractions import Fraction

PI = "π"


def _factor(n: int) -> dict:
    out = {}
    p = 2
    while p * p <= n:
        while n % p == 0:
            out[p] = out.get(p, 0) + 1
            n //= p
        p += 1
    if n > 1:
        out[n] = out.get(n, 0) + 1
    return out


class Mono:
    """sign * prod(atom ** exp); primes are atoms named '#p'. Immutable."""

    __slots__ = ("sign", "pw", "_key")

    def __init__(self, sign: int, pw: dict):
        self.sign = sign
        self.pw = {k: v for k, v in pw.items() if v != 0}
        self._key = tuple(sorted(self.pw.items()))

    @staticmethod
    def const(fr: Fraction) -> "Mono":
        if fr == 0:
            return Mono(0, {})
        sign = 1 if fr > 0 else -1
        pw = {}
        for p, e in _factor(abs(fr.numerator)).items():
            pw[f"#{p}"] = Fraction(e)
        for p, e in _factor(fr.denominator).items():
            pw[f"#{p}"] = pw.get(f"#{p}", Fraction(0)) - e
        return Mono(sign, pw)

    @staticmethod
    def atom(name: str) -> "Mono":
        return Mono(1, {name: Fraction(1)})

    def mul(self, o: "Mono") -> "Mono":
        pw = dict(self.pw)
        for k, v in o.pw.items():
            pw[k] = pw.get(k, Fraction(0)) + v
        return Mono(self.sign * o.sign, pw)

    def power(self, e: Fraction) -> "Mono | None":
        if self.sign == 0:
            return self if e > 0 else None
        if self.sign < 0:
            if e.denominator != 1:
                return None
            sign = -1 if e.numerator % 2 else 1
        else:
            sign = 1
        return Mono(sign, {k: v * e for k, v in self.pw.items()})

    def split(self):
        """(rational coefficient if all prime exponents are integral else None,
        key of the non-numeric part incl. fractional prime powers)."""
        coef = Fraction(self.sign)
        rest = {}
        for k, v in self.pw.items():
            if k.startswith("#") and v.denominator == 1:
                coef *= Fraction(int(k[1:])) ** int(v)
            else:
                rest[k] = v
        return coef, tuple(sorted(rest.items()))


class Expr:
    """Sum of monomials: dict rest_key -> Fraction coefficient."""

    __slots__ = ("terms",)

    def __init__(self, terms=None):
        self.terms = {k: v for k, v in (terms or {}).items() if v != 0}

    # constructors
    @staticmethod
    def const(v) -> "Expr":
        return Expr.from_mono(Mono.const(Fraction(v)))

    @staticmethod
    def atom(name: str) -> "Expr":
        return Expr.from_mono(Mono.atom(name))

    @staticmethod
    def from_mono(m: Mono) -> "Expr":
        if m.sign == 0:
            return Expr()
        c, k = m.split()
        return Expr({k: c})

    def monos(self):
        out = []
        for k, c in self.terms.items():
            m = Mono.const(c).mul(Mono(1, dict(k)))
            out.append(m)
        return out

    def is_zero(self):
        return not self.terms

    def single(self) -> Mono | None:
        if len(self.terms) == 1:
            return self.monos()[0]
        if not self.terms:
            return Mono(0, {})
        return None

    def __add__(self, o):
        t = dict(self.terms)
        for k, c in o.terms.items():
            t[k] = t.get(k, Fraction(0)) + c
        return Expr(t)

    def __neg__(self):
        return Expr({k: -c for k, c in self.terms.items()})

    def __sub__(self, o):
        return self + (-o)

    def __mul__(self, o):
        t = {}
        for ma in self.monos():
            for mb in o.monos():
                m = ma.mul(mb)
                c, k = m.split()
                t[k] = t.get(k, Fraction(0)) + c
        return Expr(t)

    def key(self):
        return tuple(sorted((k, (c.numerator, c.denominator)) for k, c in self.terms.items()))

    def as_atom(self) -> str:
        return "(" + self.show() + ")"

    def inverse(self) -> "Expr":
        m = self.single()
        if m is not None and m.sign != 0:
            return Expr.from_mono(m.power(Fraction(-1)))
        # normalise overall sign/content so that a/(x-y) and -a/(y-x) agree
        lead = sorted(self.terms.items())[0][1]
        normed = Expr({k: c / lead for k, c in self.terms.items()})
        return Expr.const(1 / lead) * Expr.from_mono(Mono(1, {normed.as_atom(): Fraction(-1)}))

    def power(self, e: Fraction) -> "Expr":
        m = self.single()
        if m is not None:
            r = m.power(e)
            if r is not None:
                return Expr.from_mono(r)
        if e.denominator == 1 and 0 <= e.numerator <= 6:
            out = Expr.const(1)
            for _ in range(e.numerator):
                out = out * self
            return out
        if e.denominator == 1 and e.numerator < 0:
            return self.power(-e).inverse()
        return Expr.from_mono(Mono(1, {self.as_atom(): e}))

    def __eq__(self, o):
        return isinstance(o, Expr) and self.key() == o.key()

    def __hash__(self):
        return hash(self.key())

    def atoms(self) -> set:
        out = set()
        for k in self.terms:
            for a, _ in k:
                if not a.startswith("#"):
                    out.add(a)
        return out

    def show(self) -> str:
        if not self.terms:
            return "0"
        parts = []
        for k, c in sorted(self.terms.items(), key=lambda kv: repr(kv[0])):
            fs = []
            for a, e in k:
                a2 = a[1:] if a.startswith("#") else a
                fs.append(a2 if e == 1 else f"{a2}^{e}")
            body = "*".join(fs)
            if body:
                cs = "" if c == 1 else ("-" if c == -1 else f"{c}*")
                parts.append(cs + body)
            else:
                parts.append(str(c))
        return " + ".join(parts)

    def subst(self, atom: str, repl: "Expr") -> "Expr":
        out = Expr()
        for m in self.monos():
            e = m.pw.get(atom)
            if e is None:
                out = out + Expr.from_mono(m)
                continue
            rest = Mono(m.sign, {k: v for k, v in m.pw.items() if k != atom})
            out = out + Expr.from_mono(rest) * repl.power(e)
        return out

    def derivative(self, atom: str) -> "Expr":
        out = Expr()
        for m in self.monos():
            e = m.pw.get(atom)
            if e is None:
                continue
            pw = dict(m.pw)
            pw[atom] = e - 1
            out = out + Expr.const(e) * Expr.from_mono(Mono(m.sign, pw))
        return out

    def degree_in(self, atom: str):
        """Set of exponents with which ``atom`` occurs (0 if a term lacks it)."""
        return {dict(k).get(atom, Fraction(0)) for k in self.terms}


class NotAlgebraic(Exception):
    pass


SQRT_NAMES = {"numpy.sqrt", "math.sqrt", "np.sqrt", "sqrt"}
PI_NAMES = {"numpy.pi", "math.pi", "np.pi", "π", "pi", "droplets.tools.spherical.π"}
PASS_THROUGH = {"float", "numpy.asarray", "numpy.asanyarray", "numpy.array", "numpy.real", "int_"}


class Converter:
    """AST expression -> Expr.  ``resolve_name(node)`` may return an Expr for a Name or
    dotted attribute (inlining), or None to make it an atom.  Calls to unknown
    functions become atoms ``f(arg-normal-forms)``."""

    def __init__(self, resolve_dotted=None, env=None, opaque_calls=True, call_hook=None):
        self.resolve_dotted = resolve_dotted or (lambda s: s)
        self.env = env or {}
        self.opaque_calls = opaque_calls
        self.call_hook = call_hook

    def conv(self, n) -> Expr:
        if isinstance(n, ast.Constant):
            if isinstance(n.value, bool):
                raise NotAlgebraic("bool")
            if isinstance(n.value, int):
                return Expr.const(n.value)
            if isinstance(n.value, float):
                return Expr.const(Fraction(repr(n.value)))
            raise NotAlgebraic(f"constant {n.value!r}")
        if isinstance(n, ast.Name):
            if n.id in self.env:
                v = self.env[n.id]
                return v if isinstance(v, Expr) else self.conv(v)
            full = self.resolve_dotted(n.id)
            if n.id in PI_NAMES or full in PI_NAMES:
                return Expr.atom(PI)
            return Expr.atom(n.id)
        if isinstance(n, ast.Attribute):
            from .model import dotted

            d = dotted(n)
            if d is not None:
                if d in self.env:
                    v = self.env[d]
                    return v if isinstance(v, Expr) else self.conv(v)
                full = self.resolve_dotted(d)
                if full in PI_NAMES or d in PI_NAMES:
                    return Expr.atom(PI)
                return Expr.atom(d)
            return Expr.atom(self.atomize(n))
        if isinstance(n, ast.UnaryOp):
            if isinstance(n.op, ast.USub):
                return -self.conv(n.operand)
            if isinstance(n.op, ast.UAdd):
                return self.conv(n.operand)
            raise NotAlgebraic("unary")
        if isinstance(n, ast.BinOp):
            if isinstance(n.op, ast.Add):
                return self.conv(n.left) + self.conv(n.right)
            if isinstance(n.op, ast.Sub):
                return self.conv(n.left) - self.conv(n.right)
            if isinstance(n.op, ast.Mult):
                return self.conv(n.left) * self.conv(n.right)
            if isinstance(n.op, ast.Div):
                r = self.conv(n.right)
                if r.is_zero():
                    raise NotAlgebraic("division by zero")
                return self.conv(n.left) * r.inverse()
            if isinstance(n.op, ast.Pow):
                e = self.conv(n.right)
                m = e.single()
                if m is not None and all(k.startswith("#") for k in m.pw):
                    c, rest = m.split()
                    if not rest:
                        return self.conv(n.left).power(c)
                raise NotAlgebraic("non-constant exponent")
            raise NotAlgebraic(f"operator {type(n.op).__name__}")
        if isinstance(n, ast.Call):
            from .model import dotted

            name = dotted(n.func)
            full = self.resolve_dotted(name) if name else None
            if full in SQRT_NAMES or name in SQRT_NAMES:
                if len(n.args) == 1 and not n.keywords:
                    return self.conv(n.args[0]).power(Fraction(1, 2))
            if (full in PASS_THROUGH or name in PASS_THROUGH) and len(n.args) >= 1:
                return self.conv(n.args[0])
            if self.call_hook is not None:
                r = self.call_hook(self, n, full or name)
                if r is not None:
                    return r
            if self.opaque_calls:
                return Expr.atom(self.atomize(n))
            raise NotAlgebraic(f"call {name}")
        if isinstance(n, ast.Subscript):
            return Expr.atom(self.atomize(n))
        if isinstance(n, ast.IfExp):
            raise NotAlgebraic("conditional expression")
        raise NotAlgebraic(type(n).__name__)

    def atomize(self, n) -> str:
        """Canonical text for an opaque sub-term; arithmetic arguments are normalised."""
        from .model import dotted

        if isinstance(n, ast.Call):
            name = dotted(n.func)
            fn = (self.resolve_dotted(name) if name else None) or (name or self.atomize(n.func))
            args = []
            for a in n.args:
                args.append(self._arg(a))
            for kw in sorted(n.keywords, key=lambda k: k.arg or ""):
                args.append(f"{kw.arg}={self._arg(kw.value)}")
            return f"{fn}({', '.join(args)})"
        if isinstance(n, ast.Subscript):
            base = self._arg(n.value)
            return f"{base}[{ast.unparse(n.slice)}]"
        if isinstance(n, ast.Attribute):
            return f"{self._arg(n.value)}.{n.attr}"
        return ast.unparse(n)

    def _arg(self, a) -> str:
        try:
            return self.conv(a).show()
        except NotAlgebraic:
            if isinstance(a, (ast.Call, ast.Subscript, ast.Attribute)):
                return self.atomize(a)
            if isinstance(a, ast.Starred):
                return "*" + self._arg(a.value)
            return ast.unparse(a)


def to_expr(node, **kw) -> Expr:
    return Converter(**kw).conv(node)
