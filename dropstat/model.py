"""Program model: parsed modules, classes (with MRO), functions with qualified names,
import maps.  Pure ``ast``; nothing from the analysed repository is imported or run.
"""

from __future__ import annotations

import ast
import hashlib
import os
from dataclasses import dataclass, field


class AnalysisError(Exception):
    """The analysis itself cannot proceed (vanished anchor, unparsable file, rule
    instance count below the frozen minimum).  Reported as ANALYSIS-ERROR, exit 2."""

    def __init__(self, msg: str, rule: str = "-"):
        super().__init__(msg)
        self.rule = rule


class AnchorMissing(AnalysisError):
    pass


@dataclass
class ModuleInfo:
    name: str  # dotted, e.g. droplets.image_analysis
    path: str  # path relative to repo root
    source: str
    tree: ast.Module
    imports: dict = field(default_factory=dict)  # local name -> dotted target


@dataclass
class ClassInfo:
    name: str
    qualname: str
    module: ModuleInfo
    node: ast.ClassDef
    base_names: list  # resolved dotted names
    methods: dict = field(default_factory=dict)  # name -> list[FuncInfo]
    attrs: dict = field(default_factory=dict)  # class-level NAME = expr


@dataclass
class FuncInfo:
    name: str
    qualname: str
    module: ModuleInfo
    node: ast.AST  # FunctionDef | Lambda
    cls: ClassInfo | None
    parent: "FuncInfo | None"
    decorators: list  # resolved dotted names (strings; calls reduced to callee)
    kind: str  # "function" | "method" | "classmethod" | "staticmethod" | "property" | "setter"
    index: int = 0  # k-th definition with the same qualname (branch-specialised defs)

    @property
    def file(self) -> str:
        return self.module.path

    @property
    def line(self) -> int:
        return getattr(self.node, "lineno", 0)

    @property
    def params(self) -> list:
        a = self.node.args
        return [x.arg for x in a.posonlyargs + a.args]

    @property
    def kwonly(self) -> list:
        return [x.arg for x in self.node.args.kwonlyargs]

    @property
    def all_params(self) -> list:
        a = self.node.args
        out = [x.arg for x in a.posonlyargs + a.args + a.kwonlyargs]
        return out

    @property
    def vararg(self):
        return self.node.args.vararg.arg if self.node.args.vararg else None

    @property
    def kwarg(self):
        return self.node.args.kwarg.arg if self.node.args.kwarg else None

    def default_of(self, name: str):
        a = self.node.args
        pos = a.posonlyargs + a.args
        nd = len(a.defaults)
        for i, p in enumerate(pos):
            if p.arg == name:
                j = i - (len(pos) - nd)
                return a.defaults[j] if j >= 0 else None
        for p, d in zip(a.kwonlyargs, a.kw_defaults):
            if p.arg == name:
                return d
        return None

    def annotation_of(self, name: str):
        a = self.node.args
        for p in a.posonlyargs + a.args + a.kwonlyargs:
            if p.arg == name:
                return p.annotation
        return None


def dotted(node) -> str | None:
    """``a.b.c`` for Name/Attribute chains, else None."""
    parts = []
    while isinstance(node, ast.Attribute):
        parts.append(node.attr)
        node = node.value
    if isinstance(node, ast.Name):
        parts.append(node.id)
        return ".".join(reversed(parts))
    return None


class Model:
    """All modules of the analysed package."""

    PACKAGE = "droplets"

    def __init__(self, sources: dict, root: str = "/repo"):
        """``sources``: {relative path: source text}"""
        self.root = root
        self.modules: dict[str, ModuleInfo] = {}
        self.classes: dict[str, ClassInfo] = {}  # by qualname and by bare name
        self.functions: dict[str, list[FuncInfo]] = {}
        self.func_of_node: dict[int, FuncInfo] = {}
        for path, src in sorted(sources.items()):
            try:
                tree = ast.parse(src, filename=path)
            except SyntaxError as exc:  # pragma: no cover
                raise AnalysisError(f"cannot parse {path}: {exc}") from exc
            if os.environ.get("DROPSTAT_RAW_AST") != "1":
                from .localroles import canon_locals, inline_new_attr_aliases
                from .normalize import inline_module, normalize_tree

                from .prenorm import prenormalize

                tree = inline_module(normalize_tree(inline_new_attr_aliases(canon_locals(prenormalize(tree), path), path)))
            name = path[:-3].replace("/", ".")
            if name.endswith(".__init__"):
                name = name[: -len(".__init__")]
            mod = ModuleInfo(name=name, path=path, source=src, tree=tree)
            self.modules[name] = mod
        for mod in self.modules.values():
            self._collect_imports(mod)
        for mod in self.modules.values():
            self._index(mod)

    # ------------------------------------------------------------------ loading
    @classmethod
    def from_dir(cls, root: str = "/repo", subdirs=("droplets",)) -> "Model":
        sources = {}
        for sub in subdirs:
            base = os.path.join(root, sub)
            if not os.path.isdir(base):
                raise AnchorMissing(f"directory {base} does not exist")
            for dirpath, dirnames, filenames in os.walk(base):
                dirnames[:] = [d for d in dirnames if d not in ("__pycache__", "resources")]
                for fn in filenames:
                    if fn.endswith(".py"):
                        full = os.path.join(dirpath, fn)
                        rel = os.path.relpath(full, root)
                        with open(full, encoding="utf-8") as fh:
                            sources[rel] = fh.read()
        return cls(sources, root=root)

    def with_source(self, path: str, new_source: str) -> "Model":
        sources = {m.path: m.source for m in self.modules.values()}
        sources[path] = new_source
        return Model(sources, root=self.root)

    def digest(self) -> str:
        h = hashlib.sha256()
        for m in sorted(self.modules.values(), key=lambda m: m.path):
            h.update(m.path.encode())
            h.update(m.source.encode())
        return h.hexdigest()[:16]

    # ------------------------------------------------------------------ imports
    def _collect_imports(self, mod: ModuleInfo) -> None:
        pkg_parts = mod.name.split(".")
        is_pkg = mod.path.endswith("__init__.py")
        for node in ast.walk(mod.tree):
            if isinstance(node, ast.Import):
                for a in node.names:
                    if a.asname:
                        mod.imports[a.asname] = a.name
                    else:
                        mod.imports[a.name.split(".")[0]] = a.name.split(".")[0]
            elif isinstance(node, ast.ImportFrom):
                if node.level:
                    base = pkg_parts if is_pkg else pkg_parts[:-1]
                    base = base[: len(base) - (node.level - 1)]
                    target = ".".join(base + ([node.module] if node.module else []))
                else:
                    target = node.module or ""
                for a in node.names:
                    mod.imports.setdefault(a.asname or a.name, f"{target}.{a.name}")

    def resolve(self, mod: ModuleInfo, name: str | None) -> str | None:
        """Resolve a dotted local name to a dotted global name through imports."""
        if not name:
            return None
        head, _, rest = name.partition(".")
        if head in mod.imports:
            full = mod.imports[head]
            return f"{full}.{rest}" if rest else full
        # module-level definitions
        cand = f"{mod.name}.{name}"
        if cand in self.functions or cand in self.classes:
            return cand
        return name

    def callee(self, mod: ModuleInfo, call: ast.Call) -> str | None:
        return self.resolve(mod, dotted(call.func))

    # ------------------------------------------------------------------ indexing
    def _index(self, mod: ModuleInfo) -> None:
        def deco_names(node):
            out = []
            for d in getattr(node, "decorator_list", []):
                if isinstance(d, ast.Call):
                    d = d.func
                out.append(self.resolve(mod, dotted(d)) or "?")
            return out

        def visit(body, prefix, cls, parent):
            for stmt in body:
                for node in self._defs_in(stmt):
                    if isinstance(node, ast.ClassDef):
                        q = f"{prefix}.{node.name}"
                        ci = ClassInfo(
                            name=node.name,
                            qualname=q,
                            module=mod,
                            node=node,
                            base_names=[self.resolve(mod, dotted(b)) or "?" for b in node.bases],
                        )
                        self.classes[q] = ci
                        self.classes.setdefault(node.name, ci)
                        for s in node.body:
                            if isinstance(s, ast.Assign) and len(s.targets) == 1 and isinstance(s.targets[0], ast.Name):
                                ci.attrs[s.targets[0].id] = s.value
                            elif isinstance(s, ast.AnnAssign) and isinstance(s.target, ast.Name) and s.value is not None:
                                ci.attrs[s.target.id] = s.value
                        visit(node.body, q, ci, None)
                    else:  # FunctionDef
                        decos = deco_names(node)
                        kind = "function"
                        if cls is not None and parent is None:
                            kind = "method"
                            for d in decos:
                                if d == "classmethod":
                                    kind = "classmethod"
                                elif d == "staticmethod":
                                    kind = "staticmethod"
                                elif d == "property":
                                    kind = "property"
                                elif d.endswith(".setter"):
                                    kind = "setter"
                        q = f"{prefix}.{node.name}"
                        if kind == "setter":
                            q += "@setter"
                        lst = self.functions.setdefault(q, [])
                        fi = FuncInfo(
                            name=node.name,
                            qualname=q,
                            module=mod,
                            node=node,
                            cls=cls,
                            parent=parent,
                            decorators=decos,
                            kind=kind,
                            index=len(lst),
                        )
                        lst.append(fi)
                        self.func_of_node[id(node)] = fi
                        if cls is not None and parent is None:
                            cls.methods.setdefault(node.name, []).append(fi)
                        visit(node.body, q, cls, fi)

        visit(mod.tree.body, mod.name, None, None)

    @staticmethod
    def _defs_in(stmt):
        """Function/class definitions directly in ``stmt`` or in its compound
        sub-blocks (if/else/try/with/for/while), not descending into other defs."""
        if isinstance(stmt, (ast.FunctionDef, ast.AsyncFunctionDef, ast.ClassDef)):
            yield stmt
            return
        for fld in ("body", "orelse", "finalbody", "handlers"):
            for sub in getattr(stmt, fld, []) or []:
                if isinstance(sub, ast.ExceptHandler):
                    for s in sub.body:
                        yield from Model._defs_in(s)
                else:
                    yield from Model._defs_in(sub)

    # ------------------------------------------------------------------ lookup
    def func(self, qualname: str, index: int | None = None) -> FuncInfo:
        lst = self.functions.get(qualname)
        if not lst:
            raise AnchorMissing(f"function {qualname} not found in the analysed tree")
        if index is None:
            return lst[0]
        if index >= len(lst):
            raise AnchorMissing(f"function {qualname}#{index} not found")
        return lst[index]

    def funcs(self, qualname: str) -> list:
        lst = self.functions.get(qualname)
        if not lst:
            raise AnchorMissing(f"function {qualname} not found in the analysed tree")
        return lst

    def has_func(self, qualname: str) -> bool:
        return bool(self.functions.get(qualname))

    def cls(self, name: str) -> ClassInfo:
        ci = self.classes.get(name)
        if ci is None:
            raise AnchorMissing(f"class {name} not found in the analysed tree")
        return ci

    def mro(self, ci: ClassInfo) -> list:
        out, seen = [], set()
        work = [ci]
        while work:
            c = work.pop(0)
            if c.qualname in seen:
                continue
            seen.add(c.qualname)
            out.append(c)
            for b in c.base_names:
                bc = self.classes.get(b) or self.classes.get(b.split(".")[-1])
                if bc is not None:
                    work.append(bc)
        return out

    def subclasses(self, ci: ClassInfo, strict=True) -> list:
        out = []
        for c in {id(c): c for c in self.classes.values()}.values():
            if c is ci and strict:
                continue
            if ci in self.mro(c):
                out.append(c)
        return sorted(out, key=lambda c: c.node.lineno)

    def method(self, ci: ClassInfo, name: str, kind: str | None = None, start_after: ClassInfo | None = None):
        """Resolve a method through the MRO. ``kind`` selects getter/"setter"."""
        mro = self.mro(ci)
        if start_after is not None:
            mro = mro[mro.index(start_after) + 1 :]
        for c in mro:
            for fi in c.methods.get(name, []):
                if kind is None and fi.kind != "setter":
                    return fi
                if kind is not None and fi.kind == kind:
                    return fi
        return None

    def all_functions(self):
        for lst in self.functions.values():
            yield from lst
