"""C13 — a perturbed droplet's volume, surface, curvature and outline match its shape.

ACCUM      every loop over the amplitudes updates its accumulators cumulatively;
ORIGIN     mode indices start at 1 in every amplitude loop (zero-th mode skipped);
COEFF      first-order (dual number) expansion in the amplitudes, exact over the reals:
           distance = R(1 + Σ ε·B), curvature = 1/R + Σ ε·h·B/R with h = n²−1 (2D) and
           h = (l²+l−2)/2 (3D, l the degree of the mode passed to the basis function);
DIM        unit inference on every shape quantity (valid for any radius);
COMPLETE   every concrete perturbed class overrides the whole shape interface;
UNITVEC    interface positions = centre + distance · unit vector of the documented
           angle convention, distance taken at the same angles;
DERIV      in the 2D surface area the derivative series is term-by-term d/dφ of the
           distance series and (dx, dy) = d/dφ (r cos φ, r sin φ);
FORMULA    2D volume = πR²(1 + Σε²/2) and its setter is the exact inverse;
INTEGRAL   the 3D volume integrates r³ sinθ/3 over θ∈[0,π], φ∈[0,2π];
PAIRS      iterate_in_pairs yields every element (odd tail padded with 0).
"""

from __future__ import annotations

import ast
import copy
import re
from fractions import Fraction

from ..algebra import Converter, Expr, NotAlgebraic, PI
from ..astutil import U, view, names_in, stmt_index
from ..cfg import walk_no_nested
from ..core import Ctx
from ..dim import DimEval, Unit, ONE, LEN, L, show as ushow
from ..linear import Dual, NotLinearizable, linearize
from ..model import dotted

DROP = "droplets.droplets"
SPH = "droplets.tools.spherical"
CLASSES = ["PerturbedDroplet2D", "PerturbedDroplet3D", "PerturbedDroplet3DAxisSym"]
SHAPE_IFACE = ["interface_distance", "interface_curvature", "interface_position"]

DROPLET_ATTRS = {"radius": LEN, "position": LEN, "interface_width": LEN, "amplitudes": ONE}


# --------------------------------------------------------------------------- loops
class AmpLoop:
    def __init__(self, node, idx, amps, start, pairs):
        self.node, self.idx, self.amps, self.start, self.pairs = node, idx, amps, start, pairs


def _single_assignments(fnode):
    seen = {}
    for n in ast.walk(fnode):
        if isinstance(n, ast.Assign) and len(n.targets) == 1 and isinstance(n.targets[0], ast.Name):
            seen.setdefault(n.targets[0].id, []).append(n.value)
    return {k: v[0] for k, v in seen.items() if len(v) == 1}


def amp_loops(fi):
    out = []
    single = _single_assignments(fi.node)

    def resolve(e, depth=3):
        if isinstance(e, ast.Name) and e.id in single and depth > 0:
            return resolve(single[e.id], depth - 1)
        if isinstance(e, ast.Call):
            e2 = copy.copy(e)
            e2.args = [resolve(a, depth) for a in e.args]
            return e2
        if isinstance(e, ast.Subscript):
            e2 = copy.copy(e)
            e2.value = resolve(e.value, depth)
            return e2
        return e

    for n in ast.walk(fi.node):
        if not isinstance(n, ast.For):
            continue
        it = resolve(n.iter)
        while isinstance(it, ast.Call) and dotted(it.func) in ("list", "tuple", "iter") and len(it.args) == 1 and not it.keywords:
            it = it.args[0]  # a materialised copy of the same sequence of items
        if not any(isinstance(x, ast.Attribute) and U(x) == "self.amplitudes" for x in ast.walk(it)):
            continue
        tgt = n.target
        idx, start, inner_t = None, None, tgt
        if isinstance(it, ast.Call) and dotted(it.func) == "enumerate":
            start = ast.Constant(0)
            if len(it.args) > 1:
                start = it.args[1]
            for kw in it.keywords:
                if kw.arg == "start":
                    start = kw.value
            if isinstance(tgt, ast.Tuple) and len(tgt.elts) == 2 and isinstance(tgt.elts[0], ast.Name):
                idx, inner_t = tgt.elts[0].id, tgt.elts[1]
            it = it.args[0] if it.args else it
        elif n.body and isinstance(n.body[0], ast.AugAssign) and isinstance(n.body[0].op, ast.Add) and isinstance(n.body[0].target, ast.Name) \
                and isinstance(n.body[0].value, ast.Constant) and n.body[0].value.value == 1 and n.body[0].target.id in single \
                and isinstance(single[n.body[0].target.id], ast.Constant) and isinstance(single[n.body[0].target.id].value, int):
            # manual counter incremented at the top of the body: index of the current mode = initial value + 1
            idx = n.body[0].target.id
            start = ast.Constant(single[idx].value + 1)
        pairs = isinstance(it, ast.Call) and (dotted(it.func) or "").endswith("iterate_in_pairs")
        amps = [x.id for x in ast.walk(inner_t) if isinstance(x, ast.Name)]
        lp_ = AmpLoop(n, idx, amps, start, pairs)
        # the sequence whose positions number the modes
        seq = it.args[0] if pairs and it.args else it
        lp_.seq = seq
        out.append(lp_)
    return out


def in_loop(loop, node) -> bool:
    return any(x is node for s in loop.body for x in ast.walk(s))


def cumulative(stmt, name) -> bool:
    if isinstance(stmt, ast.AugAssign):
        return isinstance(stmt.op, (ast.Add, ast.Sub))
    if isinstance(stmt, ast.Assign):
        v = stmt.value
        if isinstance(v, ast.BinOp) and isinstance(v.op, (ast.Add, ast.Sub)):
            if isinstance(v.left, ast.Name) and v.left.id == name:
                return True
            if isinstance(v.op, ast.Add) and isinstance(v.right, ast.Name) and v.right.id == name:
                return True
    return False


def check_cover(ctx: Ctx, fi, rule="PAIRS"):
    """every loop over the modes ranges over *all* amplitudes: the iterable is self.amplitudes itself (possibly through
    enumerate / iterate_in_pairs), not a slice, reshape or other selection of it (an odd last amplitude must not be dropped)"""
    single = _single_assignments(fi.node)

    def resolve(e, depth=3):
        if isinstance(e, ast.Name) and e.id in single and depth > 0:
            return resolve(single[e.id], depth - 1)
        return e

    for k, lp in enumerate(amp_loops(fi)):
        it = resolve(lp.node.iter)
        while isinstance(it, ast.Call) and (dotted(it.func) or "").split(".")[-1] in ("enumerate", "iterate_in_pairs", "list", "tuple", "iter") and it.args:
            it = resolve(it.args[0])
        site = f"{fi.qualname}:loop{k}:cover" if k else f"{fi.qualname}:loop:cover"
        ok = U(it) == "self.amplitudes"
        ctx.decide(ok, rule, site, (fi, lp.node), "the loop ranges over all amplitudes",
                   f"the loop over the modes iterates `{U(it)[:70]}`, a selection/reshaping of the amplitudes: some amplitudes never contribute (e.g. the last one of an odd-length vector)")


def check_accum(ctx: Ctx, fi):
    fv = view(ctx.model, fi)
    for k, lp in enumerate(amp_loops(fi)):
        site = f"{fi.qualname}:loop{k}" if k else f"{fi.qualname}:loop"
        loop_nodes = {id(x) for s in lp.node.body for x in ast.walk(s)}
        # definitions inside the loop that reach a use after the loop
        bad, acc = [], set()
        for n in fv.cfg.nodes:
            if n.stmt is None:
                continue
            for root in fv._roots(n):
                if id(root) in loop_nodes or n.stmt is lp.node:
                    continue
                for nm in walk_no_nested(root):
                    if isinstance(nm, ast.Name) and isinstance(nm.ctx, ast.Load):
                        for d in fv.defs_reaching(nm.id, n):
                            if d.stmt is not None and id(d.stmt) in loop_nodes and not (n.stmt is not None and id(n.stmt) in loop_nodes):
                                # is the use really after the loop (not before it)?
                                if getattr(n.stmt, "lineno", 0) <= getattr(lp.node, "end_lineno", 0) and id(n.stmt) not in loop_nodes:
                                    continue
                                if nm.id == lp.idx:
                                    continue
                                acc.add(nm.id)
                                # initialised before the loop?
                                outside = [e for e in fv.defs_reaching(nm.id, fv.node_of(lp.node)) if e.stmt is None or id(e.stmt) not in loop_nodes]
                                if outside and not cumulative(d.stmt, nm.id):
                                    bad.append((nm.id, d.stmt))
        if bad:
            name, st = bad[0]
            ctx.violate("ACCUM", site, (fi, st),
                        f"`{name}` is overwritten inside the loop over the amplitudes ({U(st)[:70]}): only the last mode contributes to the value used after the loop")
        elif acc:
            ctx.hold("ACCUM", site, (fi, lp.node), f"accumulators {sorted(acc)} are only updated cumulatively")
        else:
            ctx.info("ACCUM", site, (fi, lp.node), "loop has no accumulator used after it")
        # ORIGIN
        if lp.idx is not None:
            seq = getattr(lp, "seq", None)
            if seq is not None and isinstance(seq, (ast.Subscript, ast.Call, ast.ListComp, ast.GeneratorExp)) and not (isinstance(seq, ast.Subscript) and isinstance(seq.slice, ast.Slice)
                                                                                                                      and seq.slice.lower is None and seq.slice.upper is None and seq.slice.step is None):
                ctx.violate("ORIGIN", site, (fi, lp.node), f"the modes are numbered by their position in `{U(seq)[:60]}`, a filtered / re-ordered copy of the amplitude vector: an amplitude that follows a "
                            "skipped entry is paired with the basis function of an earlier mode (amplitudes [0, 0.3] deform the droplet like mode 1 instead of mode 2)")
                continue
            ok = isinstance(lp.start, ast.Constant) and lp.start.value == 1
            ctx.decide(ok, "ORIGIN", site, (fi, lp.node), "mode index starts at 1 (zero-th mode skipped)",
                       f"mode index starts at {U(lp.start)}: the basis function of mode k is paired with the amplitude of another mode")


# --------------------------------------------------------------------------- COEFF
def make_conv(ctx, fv, rename):
    m = ctx.model

    def hook(cv, call, name):
        short = (name or "").split(".")[-1]
        if short in ("ones", "ones_like"):
            return Expr.const(1)
        if short in ("zeros", "zeros_like"):
            return Expr.const(0)
        return None

    env = {k: Expr.atom(v) for k, v in rename.items()}
    return Converter(resolve_dotted=lambda s: m.resolve(fv.mod, s) or s, env=env, call_hook=hook)


def series_dual(ctx, fi, lp: AmpLoop):
    """Dual of the (single) return expression, accumulators replaced by init + one
    generic-mode update. Returns (dual, conv) or raises NotLinearizable."""
    fv = view(ctx.model, fi)
    params = [p for p in fi.params if p != "self"]
    rename = {p: f"ANG{i}" for i, p in enumerate(params)}
    if lp.idx:
        rename[lp.idx] = "IDX"
    conv = make_conv(ctx, fv, rename)
    small = set(lp.amps)
    rets = [n.stmt for n in fv.return_nodes() if n.stmt.value is not None]
    if len(rets) != 1:
        raise NotLinearizable(f"{len(rets)} return statements")
    loop_nodes = {id(x) for s in lp.node.body for x in ast.walk(s)}
    # accumulators
    updates: dict = {}
    for s in ast.walk(lp.node):
        if isinstance(s, ast.AugAssign) and isinstance(s.target, ast.Name) and isinstance(s.op, (ast.Add, ast.Sub)) and s.target.id != lp.idx:
            updates.setdefault(s.target.id, []).append((1 if isinstance(s.op, ast.Add) else -1, s.value, s))
        elif isinstance(s, ast.Assign) and len(s.targets) == 1 and isinstance(s.targets[0], ast.Name) and id(s) in loop_nodes:
            nm = s.targets[0].id
            if cumulative(s, nm):
                v = s.value
                other = v.right if (isinstance(v.left, ast.Name) and v.left.id == nm) else v.left
                updates.setdefault(nm, []).append((1 if isinstance(v.op, ast.Add) else -1, other, s))
    env = {}
    stop = tuple(small | {lp.idx or ""} | set(params))
    for nm, ups in updates.items():
        outside = [e for e in fv.defs_reaching(nm, fv.node_of(lp.node)) if e.stmt is None or id(e.stmt) not in loop_nodes]
        if len(outside) != 1 or outside[0] is fv.cfg.entry:
            continue
        init = fv.value_of_def(outside[0], nm)
        if init is None:
            continue
        d = linearize(fv.expand(init, outside[0], stop=stop), small, {}, conv)
        for sign, val, st in ups:
            t = linearize(fv.expand(val, st, stop=stop + tuple(updates)), small, {}, conv)
            d = d + (t if sign > 0 else -t)
        env[nm] = d
    ret = rets[0]
    ex = fv.expand(ret.value, ret, stop=stop + tuple(env))
    return linearize(ex, small, env, conv), conv


EXPECT_BASIS = {
    "PerturbedDroplet2D": [("numpy.sin", ["ANG0*IDX"]), ("numpy.cos", ["ANG0*IDX"])],
    "PerturbedDroplet3D": [(f"{SPH}.spherical_harmonic_real_k", ["IDX", "ANG0", "ANG1"])],
    "PerturbedDroplet3DAxisSym": [(f"{SPH}.spherical_harmonic_symmetric", ["IDX", "ANG0"])],
}


def basis_atom_ok(atom: str, fn: str, args: list) -> bool:
    m = re.fullmatch(r"([\w\.π]+)\((.*)\)", atom)
    if not m or m.group(1) != fn:
        return False
    got = [a.strip() for a in m.group(2).split(",")] if m.group(2) else []
    got = [g.split("=", 1)[1] if re.match(r"^\w+=", g) else g for g in got]
    return got == args


def check_coeff(ctx: Ctx, cname: str):
    m = ctx.model
    ci = m.cls(cname)
    R = Expr.atom("self.radius")
    dist_fi = m.method(ci, "interface_distance")
    curv_fi = m.method(ci, "interface_curvature")
    res = {}
    for role, fi in (("distance", dist_fi), ("curvature", curv_fi)):
        site = f"{DROP}.{cname}.interface_{role}"
        if fi is None or fi.cls is None or fi.cls.name != cname:
            ctx.undecided("COEFF", site, ci.node, "method not defined in this class")
            continue
        loops = amp_loops(fi)
        if len(loops) != 1:
            ctx.undecided("COEFF", site, fi, f"{len(loops)} amplitude loops")
            continue
        try:
            d, conv = series_dual(ctx, fi, loops[0])
        except NotLinearizable as exc:
            ctx.undecided("COEFF", site, fi, f"series not linearisable: {exc}")
            continue
        res[role] = (fi, loops[0], d)
        if role == "distance":
            ok0 = d.f0 == R
            ctx.decide(ok0, "COEFF", site + ":order0", fi, "with all amplitudes zero the distance is the radius",
                       f"zeroth order of the interface distance is {d.f0.show()}, not self.radius")
            want = EXPECT_BASIS[cname]
            amps = loops[0].amps
            if len(amps) != len(want):
                ctx.undecided("COEFF", site + ":order1", fi, f"{len(amps)} amplitude variables, {len(want)} basis functions documented")
                continue
            for a, (fn, args) in zip(amps, want):
                c = d.f1.get(a)
                tag = f"{site}:order1[{amps.index(a)}]"
                if c is None:
                    ctx.violate("COEFF", tag, fi, f"amplitude `{a}` does not contribute to the interface distance to first order")
                    continue
                q = c * R.inverse()
                mono = q.single()
                atoms = sorted(q.atoms())
                ok = mono is not None and len(atoms) == 1 and basis_atom_ok(atoms[0], fn, args) and q == Expr.atom(atoms[0])
                ctx.decide(ok, "COEFF", tag, fi, f"∂distance/∂{a} = R·{fn.split('.')[-1]}({', '.join(args)})",
                           f"first-order term of the interface distance in `{a}` is {c.show()}, expected self.radius*{fn.split('.')[-1]}({', '.join(args)})")
        else:
            ok0 = d.f0 == R.inverse()
            ctx.decide(ok0, "COEFF", site + ":order0", fi, "with all amplitudes zero the curvature is 1/R",
                       f"zeroth order of the curvature is {d.f0.show()}, not 1/self.radius")
    if "distance" in res and "curvature" in res:
        (dfi, dl, dd), (cfi, cl, cd) = res["distance"], res["curvature"]
        site = f"{DROP}.{cname}.interface_curvature"
        for k, (a_d, a_c) in enumerate(zip(dl.amps, cl.amps)):
            tag = f"{site}:order1[{k}]"
            c1, d1 = cd.f1.get(a_c), dd.f1.get(a_d)
            if d1 is None:
                continue
            if c1 is None:
                ctx.violate("COEFF", tag, cfi, f"amplitude `{a_c}` does not contribute to the curvature to first order")
                continue
            dm = d1.single()
            if dm is None:
                ctx.undecided("COEFF", tag, cfi, "distance coefficient is not a monomial")
                continue
            ratio = c1 * R * R * d1.inverse()
            atoms = ratio.atoms()
            if cname == "PerturbedDroplet2D":
                n = Expr.atom("IDX")
                want, desc = n * n - Expr.const(1), "n² − 1"
                ok = ratio == want
            else:
                if cname == "PerturbedDroplet3D":
                    ls = [x for x in atoms if re.fullmatch(re.escape(SPH) + r"\.spherical_index_lm\(IDX\)\[0\]", x)]
                    if len(ls) != 1 and atoms:
                        ctx.violate("COEFF", tag, cfi, f"curvature coefficient {ratio.show()} is not a polynomial in the degree l = spherical_index_lm(k)[0] of the mode k that is passed to the basis function")
                        continue
                    l = Expr.atom(ls[0]) if ls else Expr.atom("IDX")
                else:
                    l = Expr.atom("IDX")
                want, desc = (l * l + l - Expr.const(2)) * Expr.const(Fraction(1, 2)), "(l² + l − 2)/2"
                ok = ratio == want
            ctx.decide(ok, "COEFF", tag, cfi,
                       f"∂curvature/∂ε = ({desc})·∂distance/∂ε / R²  (first-order mean curvature of r = R(1+εB))",
                       f"first-order curvature term is ({ratio.show()})·∂distance/∂ε/R², expected ({desc})·∂distance/∂ε/R²")


# --------------------------------------------------------------------------- DIM
def dim_eval(ctx, fi, param_units, dim):
    attr = dict(DROPLET_ATTRS)
    attr["volume"] = L(dim)
    attr["surface_area"] = L(dim - 1)
    calls = {
        f"{SPH}.volume_from_radius": lambda ev, n, at: _pow_dim(ev, n, at, lambda d: d),
        f"{SPH}.surface_from_radius": lambda ev, n, at: _pow_dim(ev, n, at, lambda d: d - 1),
        f"{SPH}.spherical_harmonic_real_k": ONE, f"{SPH}.spherical_harmonic_symmetric": ONE, f"{SPH}.spherical_harmonic_real": ONE,
        f"{SPH}.spherical_index_lm": None,
    }
    meth = {"interface_distance": LEN, "interface_curvature": L(-1)}
    return DimEval(ctx.model, fi, attr_units=attr, param_units=param_units, call_units=calls, method_units=meth)


def _pow_dim(ev, n, at, f):
    u = ev.as_unit(ev.unit(n.args[0], at)) if n.args else None
    d = None
    if len(n.args) > 1:
        d = n.args[1]
    for kw in n.keywords:
        if kw.arg == "dim":
            d = kw.value
    if not isinstance(u, Unit) or d is None:
        return None
    dv = ev.const_fraction(d, at)
    if isinstance(dv, Fraction):
        return u.pow(f(dv))
    return None


DIM_SPEC = {
    # member -> (expected length exponent as function of dim, extra param units)
    "interface_distance": (lambda d: 1, {}),
    "interface_curvature": (lambda d: -1, {}),
    "interface_position": (lambda d: 1, {}),
    "volume": (lambda d: d, {}),
    "volume_approx": (lambda d: d, {}),
    "surface_area": (lambda d: d - 1, {}),
    "surface_area_approx": (lambda d: d - 1, {}),
}


def check_dim(ctx: Ctx, cname: str):
    m = ctx.model
    ci = m.cls(cname)
    dimv = ci.attrs.get("dim")
    if not (isinstance(dimv, ast.Constant) and isinstance(dimv.value, int)):
        ctx.undecided("DIM", f"{DROP}.{cname}.dim", ci.node, "class attribute dim is not an integer literal")
        return
    dim = dimv.value
    for member, (expo, extra) in DIM_SPEC.items():
        for fi in ci.methods.get(member, []):
            if fi.kind == "setter":
                continue
            site = f"{fi.qualname}"
            pu = {p: ONE for p in fi.params if p != "self"}
            ev = dim_eval(ctx, fi, pu, dim)
            want = L(expo(dim))
            rets = ev.return_units()
            for kk, (st, u) in enumerate(rets):
                u = ev.as_unit(u)
                if isinstance(u, Obj_types):
                    u = None
                tag = site + (f"#{kk}" if len(rets) > 1 else "")
                if u is None or not isinstance(u, Unit):
                    if u is not None and not isinstance(u, Unit):
                        ctx.info("DIM", tag, (fi, st), f"literal/neutral return value ({u})")
                    else:
                        ctx.undecided("DIM", tag, (fi, st), f"unit of `{U(st.value)[:60]}` not inferable")
                    continue
                ctx.decide(u.same(want), "DIM", tag, (fi, st), f"returns {want.show()}",
                           f"returns {u.show()} but a {member.replace('_', ' ')} in {dim}d is {want.show()}: `{U(st.value)[:80]}`")
            for kind, node, msg, key in ev.mismatches + [x for s in ev.nested.values() for x in s.mismatches]:
                ctx.violate("DIM", f"{site}:{key}", (fi, node), msg)
    # volume setter (2D): assigned radius must be a length for a volume of length^dim
    for fi in ci.methods.get("volume", []):
        if fi.kind != "setter":
            continue
        params = [p for p in fi.params if p != "self"]
        if not params:
            continue
        ev = dim_eval(ctx, fi, {params[0]: L(dim)}, dim)
        fv = view(m, fi)
        for s, t in fv.assigns_to_attr("self"):
            if U(t) == "self.radius" and isinstance(s, ast.Assign):
                u = ev.as_unit(ev.unit(s.value, s))
                if isinstance(u, Unit):
                    ctx.decide(u.same(LEN), "DIM", fi.qualname, (fi, s), "radius assigned from a volume is a length",
                               f"radius assigned from the volume has unit {u.show()}: `{U(s.value)[:80]}`")
                else:
                    ctx.undecided("DIM", fi.qualname, (fi, s), "unit not inferable")


from ..dim import Obj as _Obj, Fn as _Fn  # noqa: E402

Obj_types = (_Obj, _Fn)


# --------------------------------------------------------------------------- COMPLETE
def check_complete(ctx: Ctx):
    m = ctx.model
    base = m.cls("PerturbedDropletBase")
    n = 0
    for ci in m.subclasses(base):
        if ci.attrs.get("dim") is None:
            continue
        n += 1
        for meth in SHAPE_IFACE:
            fi = m.method(ci, meth)
            site = f"{ci.qualname}.{meth}"
            own = fi is not None and fi.cls is not None and base in m.mro(fi.cls) and fi.cls is not base
            ctx.decide(own, "COMPLETE", site, ci.node if not own else fi,
                       f"defined by {fi.cls.name if fi and fi.cls else '?'}",
                       f"{ci.name} does not define {meth}; it inherits {fi.qualname if fi else 'nothing'} which ignores the perturbation (e.g. triangulation vertices then lie on the unperturbed sphere)")
    return n



def _offset_layout(n, dim):
    """'CF' (components first, (dim, n)), 'PF' (points first, (n, dim)), 'MIXED' (a components-first array reshaped to rows) or None"""
    flip = {"CF": "PF", "PF": "CF"}
    if isinstance(n, (ast.List, ast.Tuple)) and len(n.elts) == dim:
        return "CF"
    if isinstance(n, ast.Attribute) and n.attr == "T":
        return flip.get(_offset_layout(n.value, dim), _offset_layout(n.value, dim))
    if isinstance(n, ast.Subscript) and U(n.value) in ("np.c_",):
        return "PF"
    if isinstance(n, ast.Subscript) and U(n.value) in ("np.r_",):
        return None
    if isinstance(n, ast.Call):
        name = n.func.attr if isinstance(n.func, ast.Attribute) else (n.func.id if isinstance(n.func, ast.Name) else "")
        recv = n.func.value if isinstance(n.func, ast.Attribute) and U(n.func.value) not in ("np", "numpy") else None
        arg0 = recv if recv is not None else (n.args[0] if n.args else None)
        rest = n.args if recv is not None else n.args[1:]
        if arg0 is None:
            return None
        inner = _offset_layout(arg0, dim)
        if name in ("array", "asarray", "asanyarray", "ascontiguousarray", "squeeze", "copy", "astype"):
            return inner
        if name == "transpose" and not rest:
            return flip.get(inner, inner)
        if name in ("column_stack",):
            return "PF" if inner == "CF" else None
        if name in ("vstack", "row_stack"):
            return inner
        if name == "stack":
            ax = next((k.value for k in n.keywords if k.arg == "axis"), rest[0] if rest else None)
            axv = U(ax) if ax is not None else "0"
            if inner != "CF":
                return None
            return "CF" if axv == "0" else ("PF" if axv in ("-1", "1") else None)
        if name == "reshape":
            shape = rest[0] if len(rest) == 1 and isinstance(rest[0], (ast.Tuple, ast.List)) else (ast.Tuple(elts=list(rest)) if rest else None)
            if shape is None or not isinstance(shape, (ast.Tuple, ast.List)):
                return None
            txt = [U(e) for e in shape.elts]
            if len(txt) == 2 and txt[0] == "-1" and txt[1] in (str(dim), "self.dim", "dim"):
                return "MIXED" if inner == "CF" else inner
            return None
        return None
    if isinstance(n, ast.BinOp) and isinstance(n.op, ast.Mult):
        ls, rs = _offset_layout(n.left, dim), _offset_layout(n.right, dim)
        return ls or rs
    return None


def _strip_layout(n):
    """the product inside transpositions / conversions / reshapes of the offsets"""
    while True:
        if isinstance(n, ast.Attribute) and n.attr == "T":
            n = n.value
        elif isinstance(n, ast.Call) and isinstance(n.func, ast.Attribute) and n.func.attr in ("transpose", "array", "asarray", "reshape", "ascontiguousarray"):
            if U(n.func.value) not in ("np", "numpy"):
                n = n.func.value
            elif n.args:
                n = n.args[0]
            else:
                return n
        else:
            return n

# --------------------------------------------------------------------------- UNITVEC
UNITVEC = {
    2: ["numpy.cos(A1)", "numpy.sin(A1)"],
    3: ["numpy.cos(A2)*numpy.sin(A1)", "numpy.sin(A1)*numpy.sin(A2)", "numpy.cos(A1)"],
}


def check_unitvec(ctx: Ctx, cname: str):
    m = ctx.model
    ci = m.cls(cname)
    fi = m.method(ci, "interface_position")
    if fi is None or fi.cls is None or fi.cls.name != cname:
        return
    dim = ci.attrs["dim"].value
    fv = view(m, fi)
    site = fi.qualname
    params = [p for p in fi.params if p != "self"]
    rets = [n.stmt for n in fv.return_nodes() if n.stmt.value is not None]
    if len(rets) != 1:
        ctx.undecided("UNITVEC", site, fi, "several returns")
        return
    ex = fv.expand(rets[0].value, rets[0], stop=tuple(params))
    # component-wise form: np.c_[x, y(, z)] / np.stack([x, y], axis=-1) / np.transpose([x, y]) with
    # component k = self.position[k] + distance · (k-th component of the unit vector)
    comps = None
    if isinstance(ex, ast.Subscript) and U(ex.value) in ("np.c_", "numpy.c_") and isinstance(ex.slice, ast.Tuple):
        comps = list(ex.slice.elts)
    elif isinstance(ex, ast.Call) and U(ex.func).split(".")[-1] in ("stack", "column_stack", "transpose", "array") and ex.args and isinstance(ex.args[0], (ast.List, ast.Tuple)):
        comps = list(ex.args[0].elts)
    if comps is not None and len(comps) == dim:
        rename = {p: f"A{i + 1}" for i, p in enumerate(params)}
        if dim == 2:
            rename = {params[0]: "A1"}

        def hook_d(cv, call, name):
            if isinstance(call.func, ast.Attribute) and call.func.attr == "interface_distance" and U(call.func.value) == "self":
                return Expr.atom("DIST")
            return None

        conv = Converter(resolve_dotted=lambda t: m.resolve(fv.mod, t) or t, env={k: Expr.atom(v) for k, v in rename.items()}, call_hook=hook_d)
        try:
            bad_k = None
            got_dirs = []
            for k, c in enumerate(comps):
                e = conv.conv(c)
                centre_k = Expr.atom(f"self.position[{k}]")
                rest = e - centre_k
                got_dirs.append(rest)
                if any(a.startswith("self.position[") for a in rest.atoms()):
                    bad_k = (k, c)
            if bad_k is not None:
                ctx.violate("UNITVEC", site, (fi, rets[0]), f"component {bad_k[0]} of the interface position is `{U(bad_k[1])[:70]}`: it is not centred on self.position[{bad_k[0]}] — the interface "
                            "points (and the triangulation vertices) are shifted off the interface whenever the centre's coordinates differ")
                return
            ctx.hold("UNITVEC", site + ":distance", (fi, rets[0]), "component-wise: centre[k] + distance × direction[k]")
            want = UNITVEC[dim]
            dist = Expr.atom("DIST")
            got = []
            for r_ in got_dirs:
                q = r_ * dist.inverse()
                got.append(q.show())
            ctx.decide(got == want, "UNITVEC", site + ":direction", (fi, rets[0]),
                       "unit vector follows the documented convention " + ("(cos φ, sin φ)" if dim == 2 else "(sinθ cosφ, sinθ sinφ, cosθ)"),
                       f"direction vector is [{', '.join(got)}], expected [{', '.join(want)}] (θ from the z-axis, φ in the x-y plane)")
        except NotAlgebraic as exc:
            ctx.undecided("UNITVEC", site, (fi, rets[0]), str(exc))
        return
    # centre + pos
    if not (isinstance(ex, ast.BinOp) and isinstance(ex.op, ast.Add)):
        ctx.violate("UNITVEC", site, (fi, rets[0]), f"the returned points `{U(ex)[:70]}` are not the centre plus distance × direction (self.position[None, :] + offsets): points on the interface "
                    "(and the triangulation built from them) are displaced unless every coordinate of the centre is added to every point")
        return
    sides = [ex.left, ex.right]
    centre = [s for s in sides if "self.position" in U(s) and "interface_distance" not in U(s)]
    off = [s for s in sides if s not in centre]
    if len(centre) != 1 or len(off) != 1:
        ctx.violate("UNITVEC", site, (fi, rets[0]), f"interface position is not `self.position + offset`: {U(ex)[:90]}")
        return
    off = off[0]
    # layout of the offsets: the components are written as a list [c0, c1, …] (components first, shape (dim, n)); the points
    # must come out as rows (n, dim).  Only a transposition turns one into the other — a reshape of a components-first array
    # to (-1, dim) mixes the coordinates of different points as soon as there is more than one direction.
    lay = _offset_layout(off, dim)
    if lay == "MIXED":
        ctx.violate("UNITVEC", site, (fi, rets[0]), f"the offsets `{U(off)[:80]}` are a components-first array (shape ({dim}, n)) reshaped to (-1, {dim}): for more than one direction the "
                    "coordinates of different points are mixed, so the returned points (and the triangulation built from them) do not lie on the interface; only a transposition arranges "
                    "one point per row")
        return
    off = _strip_layout(off)
    # offset = dist[:, None] * transpose([..])
    ok_shape = isinstance(off, ast.BinOp) and isinstance(off.op, ast.Mult)
    vec, dist_call = None, None
    if ok_shape:
        for side in (off.left, off.right):
            for c in ast.walk(side):
                if isinstance(c, ast.Call) and isinstance(c.func, ast.Attribute) and c.func.attr == "interface_distance" and U(c.func.value) == "self":
                    dist_call = c
                if isinstance(c, ast.List) and len(c.elts) == dim and vec is None and not any(isinstance(e, ast.Constant) for e in c.elts):
                    vec = c
    if dist_call is None or vec is None:
        ctx.undecided("UNITVEC", site, (fi, rets[0]), f"offset not recognised as distance × unit vector: {U(off)[:90]}")
        return
    # distance taken at the same angles
    d_fi = m.method(ci, "interface_distance")
    n_ang = len([p for p in d_fi.params if p != "self"]) if d_fi else len(params)
    dargs = [U(a) for a in dist_call.args]
    ok_args = dargs == params[: len(dargs)] and len(dargs) >= min(n_ang, dim - 1 if cname != "PerturbedDroplet3DAxisSym" else 1)
    ctx.decide(ok_args, "UNITVEC", site + ":distance", (fi, dist_call), f"distance evaluated at ({', '.join(dargs)})",
               f"interface distance is evaluated at ({', '.join(dargs)}) but the direction uses ({', '.join(params)})")
    rename = {p: f"A{i + 1}" for i, p in enumerate(params)}
    if dim == 2:
        rename = {params[0]: "A1"}
    conv = make_conv(ctx, fv, rename)
    try:
        got = [conv.conv(e).show() for e in vec.elts]
    except NotAlgebraic as exc:
        ctx.undecided("UNITVEC", site + ":direction", (fi, vec), str(exc))
        return
    want = UNITVEC[dim]
    ctx.decide(got == want, "UNITVEC", site + ":direction", (fi, vec),
               "unit vector follows the documented convention " + ("(cos φ, sin φ)" if dim == 2 else "(sinθ cosφ, sinθ sinφ, cosθ)"),
               f"direction vector is [{', '.join(got)}], expected [{', '.join(want)}] (θ from the z-axis, φ in the x-y plane)")


# --------------------------------------------------------------------------- DERIV
class _D(ast.NodeTransformer):
    pass


def deriv(n, var: str, fns: dict):
    """AST of d n / d var; names in ``fns`` are functions of var with derivative name."""
    Z, O = ast.Constant(0), ast.Constant(1)
    if isinstance(n, ast.Constant):
        return Z
    if isinstance(n, ast.Name):
        if n.id == var:
            return O
        if n.id in fns:
            return ast.Name(id=fns[n.id], ctx=ast.Load())
        return Z
    if isinstance(n, ast.UnaryOp) and isinstance(n.op, ast.USub):
        return ast.UnaryOp(op=ast.USub(), operand=deriv(n.operand, var, fns))
    if isinstance(n, ast.BinOp):
        a, b = n.left, n.right
        da, db = deriv(a, var, fns), deriv(b, var, fns)
        if isinstance(n.op, ast.Add):
            return ast.BinOp(da, ast.Add(), db)
        if isinstance(n.op, ast.Sub):
            return ast.BinOp(da, ast.Sub(), db)
        if isinstance(n.op, ast.Mult):
            return ast.BinOp(ast.BinOp(da, ast.Mult(), b), ast.Add(), ast.BinOp(a, ast.Mult(), db))
        if isinstance(n.op, ast.Div) and not (names_in(b) & ({var} | set(fns))):
            return ast.BinOp(da, ast.Div(), b)
        if isinstance(n.op, ast.Pow) and not (names_in(b) & ({var} | set(fns))):
            return ast.BinOp(ast.BinOp(b, ast.Mult(), ast.BinOp(a, ast.Pow(), ast.BinOp(b, ast.Sub(), O))), ast.Mult(), da)
        raise NotAlgebraic("derivative of " + U(n)[:40])
    if isinstance(n, ast.Call) and len(n.args) == 1 and not n.keywords:
        f = dotted(n.func) or ""
        inner = deriv(n.args[0], var, fns)
        if f.endswith("sin"):
            return ast.BinOp(ast.Call(func=ast.Attribute(value=ast.Name(id="np", ctx=ast.Load()), attr="cos", ctx=ast.Load()), args=[n.args[0]], keywords=[]), ast.Mult(), inner)
        if f.endswith("cos"):
            return ast.BinOp(ast.UnaryOp(op=ast.USub(), operand=ast.Call(func=ast.Attribute(value=ast.Name(id="np", ctx=ast.Load()), attr="sin", ctx=ast.Load()), args=[n.args[0]], keywords=[])), ast.Mult(), inner)
    if not (names_in(n) & ({var} | set(fns))):
        return Z
    raise NotAlgebraic("derivative of " + U(n)[:40])


def check_deriv_2d(ctx: Ctx):
    m = ctx.model
    ci = m.cls("PerturbedDroplet2D")
    fi = m.method(ci, "surface_area")
    if fi is None:
        raise_missing("PerturbedDroplet2D.surface_area")
    fv = view(m, fi)
    site = fi.qualname
    loops = amp_loops(fi)
    # one loop per series is the same computation as one loop for both (loop fission), provided every loop runs over the same
    # modes with the same loop variables
    if len(loops) < 1 or len({(U(l.node.target), U(getattr(l, "seq", l.node.iter)), U(l.start) if l.start is not None else "") for l in loops}) != 1:
        ctx.undecided("DERIV", site, fi, f"{len(loops)} amplitude loops")
        return
    lp = loops[0]
    loop_nodes_all = [l.node for l in loops]
    # names accumulated in the loop
    ups: dict = {}
    for ln_ in loop_nodes_all:
        for s in ast.walk(ln_):
            if isinstance(s, ast.AugAssign) and isinstance(s.target, ast.Name) and isinstance(s.op, (ast.Add, ast.Sub)):
                ups.setdefault(s.target.id, []).append(s)
    # loop-local temporaries (nφ = n * φs) are substituted into the updates first
    tmp_defs: dict = {}
    for s_ in [x for ln_ in loop_nodes_all for x in ast.walk(ln_)]:
        if isinstance(s_, ast.Assign) and len(s_.targets) == 1 and isinstance(s_.targets[0], ast.Name) and s_.targets[0].id not in ups and s_.targets[0].id != lp.idx:
            tmp_defs.setdefault(s_.targets[0].id, []).append(s_.value)
    tmp_env = {k: v[0] for k, v in tmp_defs.items() if len(v) == 1}

    class _T(ast.NodeTransformer):
        def visit_Name(self, n):
            if isinstance(n.ctx, ast.Load) and n.id in tmp_env:
                return _T().visit(copy.deepcopy(tmp_env[n.id]))
            return n

    if tmp_env:
        for lst in ups.values():
            for s_ in lst:
                s_.value = _T().visit(copy.deepcopy(s_.value))
    # the angle variable: the argument of sin/cos inside the loop other than the index
    var = None
    for c in [x for lst in ups.values() for s_ in lst for x in ast.walk(s_.value)]:
        if isinstance(c, ast.Call) and (dotted(c.func) or "").split(".")[-1] in ("sin", "cos"):
            cand = names_in(c.args[0]) - {lp.idx}
            if len(cand) == 1:
                var = cand.pop()
                break
    if var is None or len(ups) != 2:
        ctx.undecided("DERIV", site, fi, f"could not identify the two series (found {sorted(ups)})")
        return
    conv = Converter(resolve_dotted=lambda s: m.resolve(fv.mod, s) or s)

    def series(nm):
        tot = Expr()
        for s in ups[nm]:
            e = conv.conv(s.value)
            tot = tot + (e if isinstance(s.op, ast.Add) else -e)
        return tot

    def dseries(nm):
        tot = Expr()
        for s in ups[nm]:
            e = conv.conv(deriv(s.value, var, {}))
            tot = tot + (e if isinstance(s.op, ast.Add) else -e)
        return tot

    (n1, n2) = sorted(ups)
    try:
        if dseries(n1) == series(n2):
            f, df = n1, n2
        elif dseries(n2) == series(n1):
            f, df = n2, n1
        else:
            ctx.violate("DERIV", site + ":series", (fi, lp.node),
                        f"neither accumulated series is the term-by-term derivative of the other with respect to `{var}`: d({n1}) = {dseries(n1).show()} vs {n2} = {series(n2).show()}")
            return
        ctx.hold("DERIV", site + ":series", (fi, lp.node), f"`{df}` accumulates d/d{var} of every term accumulated in `{f}`")
        # initial values: f starts at 1 (unperturbed circle), df at 0
        for nm, want in ((f, 1), (df, 0)):
            first_loop = [ln_ for ln_ in loop_nodes_all if any(isinstance(x, ast.AugAssign) and isinstance(x.target, ast.Name) and x.target.id == nm for x in ast.walk(ln_))][0]
            d0 = [e for e in fv.defs_reaching(nm, fv.node_of(first_loop)) if e.stmt is not None and not any(in_loop(ln_, e.stmt) for ln_ in loop_nodes_all)]
            v = fv.value_of_def(d0[0], nm) if len(d0) == 1 else None
            fn = (dotted(v.func) or "").split(".")[-1] if isinstance(v, ast.Call) else ""
            ok = fn in (("ones", "ones_like") if want == 1 else ("zeros", "zeros_like"))
            ctx.decide(ok, "DERIV", f"{site}:init[{nm}]", (fi, d0[0].stmt) if d0 else fi, f"`{nm}` starts at {want}",
                       f"`{nm}` must start at {want} (series of {'r/R' if want else 'its derivative'}), starts as `{U(v) if v is not None else '?'}`")
        # dx, dy
        found = 0
        for n in fv.cfg.nodes:
            s = n.stmt
            if isinstance(s, ast.Call) or not isinstance(s, (ast.Assign, ast.Return)):
                continue
        hyp = [c for c in fv.calls() if (fv.callee(c) or "").endswith("hypot") and len(c.args) == 2]
        if len(hyp) != 1:
            ctx.undecided("DERIV", site + ":line-element", fi, "no single hypot(dx, dy)")
            return
        comps = [fv.expand(a, hyp[0], stop=(f, df, var)) for a in hyp[0].args]
        wx = ast.BinOp(ast.Name(id=f, ctx=ast.Load()), ast.Mult(), ast.Call(func=ast.Attribute(value=ast.Name(id="np", ctx=ast.Load()), attr="cos", ctx=ast.Load()), args=[ast.Name(id=var, ctx=ast.Load())], keywords=[]))
        wy = ast.BinOp(ast.Name(id=f, ctx=ast.Load()), ast.Mult(), ast.Call(func=ast.Attribute(value=ast.Name(id="np", ctx=ast.Load()), attr="sin", ctx=ast.Load()), args=[ast.Name(id=var, ctx=ast.Load())], keywords=[]))
        want = {conv.conv(deriv(wx, var, {f: df})).key(), conv.conv(deriv(wy, var, {f: df})).key()}
        got = {conv.conv(c).key() for c in comps}
        ctx.decide(got == want, "DERIV", site + ":line-element", (fi, hyp[0]),
                   "line element = |d/dφ (r cos φ, r sin φ)|",
                   f"the two components {[U(c)[:50] for c in comps]} are not d/d{var} of ({f}·cos, {f}·sin)")
    except NotAlgebraic as exc:
        ctx.undecided("DERIV", site, fi, str(exc))


def raise_missing(what):
    from ..model import AnchorMissing

    raise AnchorMissing(f"{what} not found")


# --------------------------------------------------------------------------- FORMULA (2D volume)
def check_volume_2d(ctx: Ctx):
    m = ctx.model
    ci = m.cls("PerturbedDroplet2D")
    getter = m.method(ci, "volume", kind="property")
    setter = m.method(ci, "volume", kind="setter")
    if getter is None or getter.cls is not ci:
        ctx.undecided("FORMULA", f"{DROP}.PerturbedDroplet2D.volume", ci.node, "no own volume property")
        return
    fv = view(m, getter)
    conv = Converter(resolve_dotted=lambda s: m.resolve(fv.mod, s) or s)
    site = getter.qualname
    rets = [n.stmt for n in fv.return_nodes() if n.stmt.value is not None]
    try:
        e = conv.conv(fv.expand(rets[0].value, rets[0]))
    except (NotAlgebraic, IndexError) as exc:
        ctx.undecided("FORMULA", site, getter, str(exc))
        return
    R, pi = Expr.atom("self.radius"), Expr.atom(PI)
    S = [a for a in e.atoms() if a not in ("self.radius", PI)]
    sumsq = [a for a in S if re.fullmatch(r"numpy\.sum\(self\.amplitudes\^2\)", a)]
    if len(S) != 1 or len(sumsq) != 1:
        if not S:
            ctx.violate("FORMULA", site, (getter, rets[0]), f"2D volume {e.show()} does not depend on the amplitudes (second-order term Σε²/2 missing)")
        else:
            ctx.undecided("FORMULA", site, (getter, rets[0]), f"unrecognised amplitude term(s) {S}")
        return
    s = Expr.atom(sumsq[0])
    want = pi * R * R * (Expr.const(1) + s * Expr.const(Fraction(1, 2)))
    ctx.decide(e == want, "FORMULA", site, (getter, rets[0]), "V = πR²(1 + Σε²/2) = ∫ r(φ)²/2 dφ by orthogonality of the harmonics",
               f"2D volume is {e.show()}, expected π·R²·(1 + Σε²/2)")
    if setter is None or setter.cls is not ci:
        return
    sv = view(m, setter)
    par = [p for p in setter.params if p != "self"][0]
    st = [s_ for s_, t in sv.assigns_to_attr("self") if U(t) == "self.radius" and isinstance(s_, ast.Assign)]
    rel = [s_ for s_, t in sv.assigns_to_attr("self") if U(t) == "self.radius" and isinstance(s_, ast.AugAssign) and isinstance(s_.op, (ast.Mult, ast.Div))]
    if rel and not st:
        # a relative update (radius *= f(volume / self.volume)) divides by the current volume: a droplet of radius 0 — a valid
        # state, e.g. the placeholder a tracker creates — gets 0·inf = NaN instead of the radius of the requested volume
        ctx.violate("FORMULA", setter.qualname, (setter, rel[0]),
                    f"`{U(rel[0])}` rescales the current radius instead of computing it from the requested volume: for a droplet of radius 0 the factor is infinite and the radius becomes NaN, "
                    "so the reported volume is not the one that was set")
        return
    if len(st) != 1:
        ctx.undecided("FORMULA", setter.qualname, setter, "no single store to self.radius")
        return
    try:
        conv2 = Converter(resolve_dotted=lambda s_: m.resolve(sv.mod, s_) or s_)
        got = conv2.conv(sv.expand(st[0].value, st[0], stop=(par,)))
        term = e * (pi * R * R).inverse()
        want_r = (Expr.atom(par) * (pi * term).inverse()).power(Fraction(1, 2))
        ctx.decide(got == want_r, "FORMULA", setter.qualname, (setter, st[0]), "setter is the exact inverse of the getter: R = √(V/(π(1+Σε²/2)))",
                   f"volume setter stores {got.show()}, the inverse of the getter is {want_r.show()}")
    except NotAlgebraic as exc:
        ctx.undecided("FORMULA", setter.qualname, (setter, st[0]), str(exc))
    # surface_area_approx: πR(4 + Σ n²(a²+b²))/2
    sa = m.method(ci, "surface_area_approx")
    if sa is not None and sa.cls is ci:
        loops = amp_loops(sa)
        if len(loops) == 1:
            try:
                d, _ = series_dual2(ctx, sa, loops[0])
                a, b = [Expr.atom(x) for x in loops[0].amps]
                n = Expr.atom("IDX")
                want = pi * R * (Expr.const(4) + n * n * (a * a + b * b)) * Expr.const(Fraction(1, 2))
                ctx.decide(d == want, "FORMULA", sa.qualname, sa, "L ≈ πR(4 + Σ n²(a²+b²))/2 (second order in the amplitudes)",
                           f"approximate perimeter (generic mode) is {d.show()}, expected {want.show()}")
            except (NotAlgebraic, NotLinearizable, ValueError) as exc:
                ctx.undecided("FORMULA", sa.qualname, sa, str(exc))


def series_dual2(ctx, fi, lp):
    """exact (not linearised) generic-mode form of the single return expression"""
    fv = view(ctx.model, fi)
    rename = {lp.idx: "IDX"} if lp.idx else {}
    conv = make_conv(ctx, fv, rename)
    loop_nodes = {id(x) for s in lp.node.body for x in ast.walk(s)}
    env = {}
    for s in ast.walk(lp.node):
        if isinstance(s, ast.AugAssign) and isinstance(s.target, ast.Name) and isinstance(s.op, (ast.Add, ast.Sub)) and s.target.id != lp.idx:
            nm = s.target.id
            outside = [e for e in fv.defs_reaching(nm, fv.node_of(lp.node)) if e.stmt is None or id(e.stmt) not in loop_nodes]
            if len(outside) != 1:
                raise ValueError("accumulator without unique initial value")
            init = fv.value_of_def(outside[0], nm)
            cur = env.get(nm, conv.conv(init))
            t = conv.conv(s.value)
            env[nm] = cur + (t if isinstance(s.op, ast.Add) else -t)
    rets = [n.stmt for n in fv.return_nodes() if n.stmt.value is not None]
    conv.env.update(env)
    return conv.conv(fv.expand(rets[0].value, rets[0], stop=tuple(env))), conv


# --------------------------------------------------------------------------- INTEGRAL (3D volume)
def check_volume_3d(ctx: Ctx):
    m = ctx.model
    ci = m.cls("PerturbedDroplet3D")
    fi = m.method(ci, "volume", kind="property")
    if fi is None or fi.cls is not ci:
        ctx.undecided("INTEGRAL", f"{DROP}.PerturbedDroplet3D.volume", ci.node, "no own volume property")
        return
    fv = view(m, fi)
    site = fi.qualname
    calls = [c for c in fv.calls() if (fv.callee(c) or "").endswith("dblquad")]
    if not calls:
        # no quadrature: a closed form.  The exact volume ∫ r(θ,φ)³ sinθ/3 is a *cubic* form in the amplitudes (the triple
        # products ∫ Y_a Y_b Y_c do not vanish, e.g. l = 2, m = 0 alone); an expression that reads the amplitudes only
        # through their squares is the second-order approximation, not the volume
        quad = [c for c in fv.calls(nested=True) if (fv.callee(c) or U(c.func)).split(".")[-1] in ("quad", "nquad", "tplquad", "dblquad", "simpson", "trapezoid", "trapz", "romberg", "fixed_quad", "quadrature", "interface_distance")]
        amp_uses = [n for n in ast.walk(fi.node) if isinstance(n, ast.Attribute) and U(n) == "self.amplitudes"]
        if not quad and amp_uses:
            par = {}
            for n in ast.walk(fi.node):
                for ch in ast.iter_child_nodes(n):
                    par[id(ch)] = n
            only_squares = True
            for a in amp_uses:
                p = par.get(id(a))
                sq = isinstance(p, ast.BinOp) and isinstance(p.op, ast.Pow) and p.left is a and U(p.right) == "2"
                dot = isinstance(p, ast.Call) and (U(p.func).split(".")[-1] in ("dot", "vdot", "inner")) and all(U(x) == "self.amplitudes" for x in p.args)
                if not (sq or dot):
                    only_squares = False
            if only_squares:
                ctx.violate("INTEGRAL", site, (fi, amp_uses[0]), "the volume is a closed form that reads the amplitudes only through their squares and uses no quadrature of interface_distance: that is the "
                            "second-order approximation; the integral of r³ sinθ/3 over the body also has cubic terms (∫Y_a Y_b Y_c ≠ 0, e.g. for the mode l = 2, m = 0), so the value is not the volume of the body")
                ctx.violate("INTEGRAL", site + ":integrand", (fi, amp_uses[0]), "no integrand: see above")
                return
    if len(calls) != 1 or len(calls[0].args) < 5:
        ctx.undecided("INTEGRAL", site, fi, "no dblquad(f, a, b, g, h) call")
        return
    c = calls[0]
    f = c.args[0]
    inner = [g for g in m.all_functions() if g.parent is fi and isinstance(f, ast.Name) and g.name == f.id]
    if not inner:
        ctx.undecided("INTEGRAL", site, (fi, c), "integrand is not a local function")
        return
    g = inner[0]
    gp = g.params
    gv = view(m, g)
    conv = Converter(resolve_dotted=lambda s: m.resolve(fv.mod, s) or s)
    two_pi = Expr.const(2) * Expr.atom(PI)

    def lim(n):
        if isinstance(n, ast.Lambda):
            n = n.body
        elif isinstance(n, ast.Name):
            loc = [g_ for g_ in m.all_functions() if g_.parent is fi and g_.name == n.id]
            if loc:
                r_ = [x for x in ast.walk(loc[0].node) if isinstance(x, ast.Return) and x.value is not None]
                if len(r_) == 1:
                    n = r_[0].value
        try:
            return conv.conv(n)
        except NotAlgebraic:
            return None

    a, b, lo, hi = (lim(x) for x in c.args[1:5])
    # scipy: dblquad(func(y, x), a, b, gfun, hfun): x in [a, b] (outer), y in [gfun, hfun] (inner)
    ok_lim = a == Expr() and b == two_pi and lo == Expr() and hi == Expr.atom(PI)
    ctx.decide(ok_lim, "INTEGRAL", site + ":limits", (fi, c), "outer variable over [0, 2π], inner variable over [0, π]",
               f"integration limits are outer [{a.show() if a is not None else '?'}, {b.show() if b is not None else '?'}], inner [{lo.show() if lo is not None else '?'}, {hi.show() if hi is not None else '?'}]; the full sphere needs φ∈[0,2π] (outer) and θ∈[0,π] (inner)")
    rets = [n.stmt for n in gv.return_nodes() if n.stmt.value is not None]
    if len(rets) != 1 or len(gp) != 2:
        ctx.undecided("INTEGRAL", site + ":integrand", g, "integrand shape not recognised")
        return
    ex = gv.expand(rets[0].value, rets[0], stop=tuple(gp))

    def hook(cv, call, name):
        if isinstance(call.func, ast.Attribute) and call.func.attr == "interface_distance" and U(call.func.value) == "self":
            return Expr.atom("r(" + ", ".join(U(x) for x in call.args) + ")")
        return None

    conv2 = Converter(resolve_dotted=lambda s: m.resolve(fv.mod, s) or s, call_hook=hook)
    try:
        e = conv2.conv(ex)
    except NotAlgebraic as exc:
        ctx.undecided("INTEGRAL", site + ":integrand", (g, rets[0]), str(exc))
        return
    r = Expr.atom(f"r({gp[0]}, {gp[1]})")
    want = r * r * r * Expr.atom(f"numpy.sin({gp[0]})") * Expr.const(Fraction(1, 3))
    ctx.decide(e == want, "INTEGRAL", site + ":integrand", (g, rets[0]),
               "integrand r(θ,φ)³ sinθ / 3 with the inner variable as polar angle θ",
               f"integrand is {e.show()}, expected r({gp[0]}, {gp[1]})³·sin({gp[0]})/3 (first parameter = inner variable = θ)")


# --------------------------------------------------------------------------- PAIRS
def check_pairs(ctx: Ctx):
    m = ctx.model
    fi = m.func(f"{DROP}.iterate_in_pairs")
    site = fi.qualname
    yields = [n for n in ast.walk(fi.node) if isinstance(n, ast.Yield)]
    fill_default = fi.default_of("fill")
    ok_fill = isinstance(fill_default, ast.Constant) and fill_default.value == 0 and not isinstance(fill_default.value, bool)
    itn = None
    for s_ in ast.walk(fi.node):
        if isinstance(s_, ast.Assign) and isinstance(s_.targets[0], ast.Name) and U(s_.value) == f"iter({fi.params[0]})":
            itn = s_.targets[0].id
    firsts, seconds = set(), []
    for y in yields:
        if isinstance(y.value, ast.Tuple) and len(y.value.elts) == 2:
            firsts.add(U(y.value.elts[0]))
            seconds.append(U(y.value.elts[1]))
    head_ok = False
    if len(firsts) == 1 and itn:
        h = firsts.pop()
        head_ok = any(isinstance(s_, ast.Assign) and U(s_.targets[0]) == h and U(s_.value) == f"next({itn})" for s_ in ast.walk(fi.node))
    ok = len(yields) == 2 and itn is not None and sorted(seconds) == sorted([f"next({itn})", "fill"]) and head_ok
    ctx.decide(ok, "PAIRS", site, fi, "yields (first, next) and pads an odd tail with `fill`",
               f"pair iteration does not yield every element exactly once (yields: {[U(y.value) for y in yields]})")
    ctx.decide(ok_fill, "PAIRS", site + ":fill", fi, "missing partner amplitude defaults to 0",
               f"default fill is {U(fill_default) if fill_default is not None else None}: an odd number of 2D amplitudes would get a non-zero phantom cosine amplitude")
    # every 2D loop iterates pairs of self.amplitudes
    ci = m.cls("PerturbedDroplet2D")
    for name, lst in ci.methods.items():
        for f2 in lst:
            for lp in amp_loops(f2):
                ok = lp.pairs and len(lp.amps) == 2
                ctx.decide(ok, "PAIRS", f"{f2.qualname}:loop", (f2, lp.node), "iterates (sin, cos) amplitude pairs",
                           "2D amplitude loop does not iterate the amplitudes in (sin, cos) pairs")


# --------------------------------------------------------------------------- SHAPE
ARR, SCA, UNK = "array", "scalar", "unknown"
ELEMENTWISE = {"sin", "cos", "tan", "tanh", "exp", "sqrt", "abs", "arccos", "arctan2", "hypot", "real", "imag", "asarray", "asanyarray",
               "atleast_1d", "transpose", "broadcast_to", "spherical_harmonic_real_k", "spherical_harmonic_symmetric",
               "spherical_harmonic_real", "points_spherical_to_cartesian", "full_like", "zeros_like", "ones_like", "ones", "zeros", "full",
               "empty", "c_", "interface_distance", "interface_position", "interface_curvature"}
ALLOC = {"ones", "zeros", "full", "empty", "zeros_like", "ones_like", "full_like"}


class ShapeEval:
    """may-be-scalar analysis: ARR only when array-shaped on every path"""

    def __init__(self, model, fi):
        self.fv = view(model, fi)
        self.fi = fi
        self.params = {p for p in fi.params if p != "self"} | ({fi.vararg} if fi.vararg else set())
        self.busy = set()

    def name(self, nm, node):
        key = (nm, node.idx)
        if key in self.busy:
            return None  # neutral
        self.busy.add(key)
        try:
            res = None
            for d in self.fv.defs_reaching(nm, node):
                if d is self.fv.cfg.entry:
                    k = ARR if nm in self.params else UNK
                elif d.kind == "loop":
                    k = SCA
                elif isinstance(d.stmt, ast.AugAssign):
                    prev = self.name(nm, d)
                    val = self.expr(d.stmt.value, d)
                    if prev is None:  # cycle through the loop: shape decided by the other definitions
                        k = ARR if val == ARR else None
                    else:
                        k = ARR if ARR in (prev, val) else (UNK if UNK in (prev, val) else SCA)
                else:
                    v = self.fv.value_of_def(d, nm)
                    k = self.expr(v, d) if v is not None else UNK
                if k is None:
                    continue
                if res is None:
                    res = k
                elif res != k:
                    res = SCA if SCA in (res, k) else UNK
            return res
        finally:
            self.busy.discard(key)

    def expr(self, n, node):
        if isinstance(n, ast.Constant):
            return SCA
        if isinstance(n, ast.Name):
            r = self.name(n.id, node)
            return r if r is not None else UNK
        if isinstance(n, ast.Attribute):
            if U(n) in ("self.radius", "self.interface_width", "self.dim", "np.pi", "math.pi", "self.modes"):
                return SCA
            if U(n) in ("self.position", "self.amplitudes"):
                return ARR
            return UNK
        if isinstance(n, ast.UnaryOp):
            return self.expr(n.operand, node)
        if isinstance(n, ast.BinOp):
            a, b = self.expr(n.left, node), self.expr(n.right, node)
            if ARR in (a, b):
                return ARR
            return SCA if a == SCA and b == SCA else UNK
        if isinstance(n, ast.Call):
            f = (dotted(n.func) or "").split(".")[-1]
            if f in ALLOC:
                return ARR
            if f == "float" or f == "int" or f == "len":
                return SCA
            if f in ELEMENTWISE:
                ks = [self.expr(a, node) for a in n.args] + [self.expr(k.value, node) for k in n.keywords]
                if ARR in ks:
                    return ARR
                return SCA if ks and all(k == SCA for k in ks) else UNK
            return UNK
        if isinstance(n, ast.Subscript):
            base = self.expr(n.value, node)
            sl = n.slice
            elts = sl.elts if isinstance(sl, ast.Tuple) else [sl]
            if base == ARR and all(isinstance(e, ast.Slice) or (isinstance(e, ast.Constant) and e.value is None) or U(e) == "..." for e in elts):
                return ARR
            return UNK if base != SCA else SCA
        if isinstance(n, (ast.List, ast.Tuple)):
            return ARR
        if isinstance(n, ast.IfExp):
            a, b = self.expr(n.body, node), self.expr(n.orelse, node)
            return a if a == b else (SCA if SCA in (a, b) else UNK)
        return UNK


def check_shape(ctx: Ctx):
    """methods wrapped by enable_scalar_args index their result: it must be array-shaped on every path"""
    m = ctx.model
    n = 0
    for fi in m.all_functions():
        if fi.module.name != DROP or not any(d.endswith("enable_scalar_args") for d in fi.decorators):
            continue
        se = ShapeEval(m, fi)
        for node in se.fv.return_nodes():
            if node.stmt.value is None:
                continue
            n += 1
            k = se.expr(node.stmt.value, node)
            site = f"{fi.qualname}:return"
            if k == SCA:
                ctx.violate("SHAPE", site, (fi, node.stmt),
                            f"`{U(node.stmt.value)[:70]}` is a plain scalar on the path where no mode contributes (all amplitudes zero): "
                            "the scalar wrapper enable_scalar_args indexes the result ([0]) and raises TypeError; array arguments get a scalar back")
            elif k == ARR:
                ctx.hold("SHAPE", site, (fi, node.stmt), "result is array-shaped like the angle arguments on every path")
            else:
                ctx.undecided("SHAPE", site, (fi, node.stmt), "shape of the returned value not inferable")
    return n


# --------------------------------------------------------------------------- TRIANG
def check_triangulation(ctx: Ctx):
    """vertices of every triangulation are produced by the (overridable) interface_position"""
    m = ctx.model
    fi = m.func(f"{DROP}.SphericalDroplet.get_triangulation")
    fv = view(m, fi)
    from ..astutil import value_cases, mini_eval

    n = 0
    seen = set()
    # the result is a dictionary of its own: entries are never written into an object obtained from elsewhere (the unit-sphere
    # triangulations come from a module-level store that hands out the *same* dictionary for every droplet of similar size)
    foreign = []
    for s_ in fv.statements():
        tg_ = s_.targets if isinstance(s_, ast.Assign) else ([s_.target] if isinstance(s_, ast.AugAssign) else [])
        for t_ in tg_:
            if isinstance(t_, ast.Subscript) and isinstance(t_.value, ast.Name):
                r_ = fv.single_def_value(t_.value.id, s_)
                v_ = r_[0] if r_ is not None else None
                if isinstance(v_, ast.Call) and not (U(v_.func) in ("dict", "copy.copy", "copy.deepcopy") or (isinstance(v_.func, ast.Attribute) and v_.func.attr == "copy")):
                    foreign.append((s_, t_.value.id, v_))
    ctx.decide(not foreign, "TRIANG", fi.qualname + ":own-result", (fi, foreign[0][0]) if foreign else fi, "the returned triangulation is a dictionary of its own",
               f"`{U(foreign[0][0])[:60] if foreign else ''}` writes into `{foreign[0][1] if foreign else ''}`, the object returned by `{U(foreign[0][2])[:50] if foreign else ''}`: that dictionary is shared (one stored unit-sphere "
               "triangulation serves every droplet of similar size), so the vertices of a triangulation handed out earlier are overwritten by the next droplet")
    for node in fv.return_nodes():
        if node.stmt.value is None:
            continue
        for dec, val in value_cases(fv, node.stmt, node.stmt.value):
            if not isinstance(val, ast.Dict):
                continue
            # dimensions for which this path is taken (truth table over self.dim)
            dims = []
            for d in (1, 2, 3, 4):
                ok_d = True
                for ttxt, outc in dec.items():
                    if "self.dim" not in ttxt:
                        continue
                    try:
                        if bool(mini_eval(ast.parse(ttxt.replace("self.dim", "DIMV"), mode="eval").body, {"DIMV": d})) != outc:
                            ok_d = False
                    except (ValueError, SyntaxError):
                        pass
                if ok_d:
                    dims.append(d)
            dim = dims[0] if len(dims) == 1 else None
            for k, ex in zip(val.keys, val.values):
                if isinstance(k, ast.Constant) and k.value == "vertices":
                    site = f"{fi.qualname}:vertices[dim={dim}]"
                    if site in seen:
                        continue
                    seen.add(site)
                    n += 1
                    ok = isinstance(ex, ast.Call) and isinstance(ex.func, ast.Attribute) and ex.func.attr == "interface_position" and U(ex.func.value) == "self"
                    nargs = len(ex.args) if ok else 0
                    ok = ok and (dim is None or nargs == dim - 1)
                    ctx.decide(ok, "TRIANG", site, (fi, node.stmt), f"vertices = self.interface_position(<{nargs} angle(s)>) — dispatches to the perturbed shape",
                               f"triangulation vertices are `{U(ex)[:70]}`, not self.interface_position(...) with {dim - 1 if dim else '?'} angle(s): perturbed subclasses then get vertices that do not lie on their interface")
    if n == 0:
        ctx.undecided("TRIANG", fi.qualname, fi, "no returned dict with a 'vertices' entry")


# --------------------------------------------------------------------------- main
def check_volume_approx(ctx: Ctx):
    """To first order the volume of every perturbed class is the volume of the unperturbed sphere: the amplitude vectors do
    not contain the isotropic mode and every other basis function averages to zero, so every linear coefficient vanishes.
    The returned value, on every path, equals V_d(R) in exact normal form (π R², 4π R³/3)."""
    from ..algebra import Converter, Expr, NotAlgebraic, PI
    from ..astutil import symbolic_paths, ifexp_cases
    from fractions import Fraction

    m = ctx.model
    n = 0
    R = Expr.atom("self.radius")
    pi = Expr.atom(PI)
    want = {2: pi * R.power(2), 3: pi * R.power(3) * Expr.const(Fraction(4, 3))}

    def hook(cv, call, name):
        if (name or "").split(".")[-1] == "volume_from_radius" and len(call.args) == 2:
            try:
                d = int(ast.literal_eval(call.args[1]))
            except Exception:
                return None
            r = cv.conv(call.args[0])
            return {1: r * Expr.const(2), 2: pi * r.power(2), 3: pi * r.power(3) * Expr.const(Fraction(4, 3))}.get(d)
        return None

    for cname in CLASSES:
        ci = m.cls(cname)
        dimv = ci.attrs.get("dim")
        if not (isinstance(dimv, ast.Constant) and dimv.value in want):
            continue
        for fi in ci.methods.get("volume_approx", []):
            if fi.kind == "setter":
                continue
            fv = view(m, fi)
            bad = None
            k = 0
            for rn in fv.return_nodes():
                if rn.stmt.value is None:
                    continue
                for _dec, (val,) in symbolic_paths(fv, rn.stmt, [rn.stmt.value]):
                    for _c, v in ifexp_cases(val):
                        k += 1
                        try:
                            e = Converter(call_hook=hook, resolve_dotted=lambda s_: m.resolve(fv.mod, s_) or s_).conv(v)
                        except NotAlgebraic as exc:
                            bad = bad or (rn.stmt, f"`{U(v)[:70]}` ({exc})")
                            continue
                        if e != want[dimv.value]:
                            bad = bad or (rn.stmt, f"`{U(v)[:70]}` = {e.show()[:80]}")
            n += 1
            ctx.decide(bad is None and k > 0, "COEFF", f"{fi.qualname}:first-order", (fi, bad[0]) if bad else fi,
                       f"first-order volume = volume of the unperturbed {dimv.value}-d sphere ({want[dimv.value].show()}): no linear term in the amplitudes",
                       f"volume_approx returns {bad[1] if bad else 'nothing'}, not {want[dimv.value].show()}: every linear coefficient of the volume vanishes (the isotropic mode is not part of `amplitudes`, "
                       "amplitudes[0] is the first non-isotropic mode), so any other first-order term is spurious")
    return n


def check_size_reads_shape(ctx: Ctx, rule="INTEGRAL"):
    """the reported volume and surface area of a perturbed droplet are integrals over the perturbed body: for every concrete
    class the getter that the MRO selects either refuses (raises NotImplementedError on every path) or depends on the
    amplitudes — directly or through a shape method of the droplet.  A getter that is a function of the radius alone reports
    the sphere's value, which is wrong at second order in the amplitudes."""
    m = ctx.model
    SHAPE = {"amplitudes", "interface_distance", "interface_position", "interface_curvature", "_get_mapping"}
    n = 0
    for cname in CLASSES:
        ci = m.cls(cname)
        for member in ("volume", "surface_area"):
            fi = m.method(ci, member)
            if fi is None:
                continue
            body = [st for st in fi.node.body if not (isinstance(st, ast.Expr) and isinstance(st.value, ast.Constant))]
            refuses = bool(body) and isinstance(body[0], ast.Raise) and "NotImplementedError" in U(body[0])
            reads = set()
            seen = set()

            def walk(f, depth=0):
                if f.qualname in seen or depth > 4:
                    return
                seen.add(f.qualname)
                for x in ast.walk(f.node):
                    if isinstance(x, ast.Attribute) and U(x.value) == "self":
                        if x.attr in SHAPE:
                            reads.add(x.attr)
                        else:
                            for c in m.mro(ci):
                                for g in c.methods.get(x.attr, []):
                                    if g.kind != "setter" and g.qualname.split(".")[-2:-1] != ["SphericalDroplet"] and g.qualname.split(".")[-2:-1] != ["DropletBase"]:
                                        walk(g, depth + 1)
                                if c.methods.get(x.attr):
                                    break

            walk(fi)
            n += 1
            ctx.decide(refuses or bool(reads), rule, f"droplets.droplets.{cname}.{member}:reads-shape", fi,
                       ("refuses (NotImplementedError)" if refuses else f"depends on the shape ({', '.join(sorted(reads))})"),
                       f"{cname}.{member} is served by {fi.qualname}, which never reads the amplitudes (nor a shape method): it reports the value of the unperturbed sphere, but the "
                       f"{'area' if member == 'surface_area' else 'volume'} of the body bounded by interface_distance differs at second order in the amplitudes — the reported value is not the integral")
    return n



def check(ctx: Ctx):
    m = ctx.model
    ctx.explain(
        "ACCUM/ORIGIN over every loop on self.amplitudes; COEFF: dual-number (first-order) expansion of interface_distance and "
        "interface_curvature in the amplitudes over exact normal forms, compared with r = R(1+ΣεB) and the first-order mean "
        "curvature 1/R + Σε·h·B/R (h = n²−1 in 2D, (l²+l−2)/2 in 3D); DIM: unit inference on all shape quantities; COMPLETE: "
        "shape interface overridden in every concrete class; UNITVEC/DERIV/FORMULA/INTEGRAL/PAIRS as described in the module docstring."
    )
    n_loops = 0
    for cname in CLASSES:
        ci = m.cls(cname)
        for name, lst in sorted(ci.methods.items()):
            for fi in lst:
                if amp_loops(fi):
                    n_loops += len(amp_loops(fi))
                    check_accum(ctx, fi)
                    check_cover(ctx, fi)
                    ctx.analysed(fi)
        check_coeff(ctx, cname)
        check_dim(ctx, cname)
        from .c03 import check_guard

        for member in ("interface_distance", "interface_curvature", "surface_area"):
            check_guard(ctx, cname, member)
        check_unitvec(ctx, cname)
    from .c03 import check_shortcuts

    check_shortcuts(ctx)
    check_complete(ctx)
    check_deriv_2d(ctx)
    check_volume_2d(ctx)
    check_volume_3d(ctx)
    check_volume_approx(ctx)
    check_size_reads_shape(ctx)
    # one-shot iterators over the modes are consumed once (an emptiness test with any() eats the first non-zero mode), and the angles
    # are used as given (a range reduction θ mod π maps the south pole onto the north pole)
    from ..rules import iteronce as _iteronce

    for cn_ in CLASSES + ["PerturbedDropletBase"]:
        ci_ = m.cls(cn_)
        for nm_, lst_ in ci_.methods.items():
            for fi_ in lst_:
                if fi_.cls is ci_:
                    _iteronce.check_local_iterators(ctx, fi_)
                    if nm_ in ("interface_distance", "interface_curvature", "interface_position"):
                        red_ = [st_ for st_ in ast.walk(fi_.node) if isinstance(st_, ast.Assign) and len(st_.targets) == 1 and isinstance(st_.targets[0], ast.Name)
                                and st_.targets[0].id in fi_.params[1:] and ((isinstance(st_.value, ast.Call) and U(st_.value.func).split(".")[-1] in ("mod", "remainder", "fmod", "clip", "abs", "absolute"))
                                                                          or (isinstance(st_.value, ast.BinOp) and isinstance(st_.value.op, ast.Mod)))]
                        ctx.decide(not red_, "ORIGIN", f"{fi_.qualname}:angles-as-given", (fi_, red_[0]) if red_ else fi_, "the angles are used as given",
                                   f"`{U(red_[0])[:60] if red_ else ''}` reduces an angle before the shape is evaluated: the real harmonics are not periodic in the polar angle with period π "
                                   "(θ = π is mapped to 0, so the south pole gets the north pole's distance and one triangulation vertex leaves the interface)")
    from ..rules import purity as _purity

    _purity.check_stateless(ctx, [f"droplets.droplets.{c}.{meth}" for c in CLASSES + ["PerturbedDropletBase"] for meth in
                                  ("volume", "surface_area", "volume_approx", "surface_area_approx", "interface_distance", "interface_curvature", "interface_position")
                                  if m.has_func(f"droplets.droplets.{c}.{meth}")])
    check_pairs(ctx)
    from ..rules import render as _render

    _render.check_real_harmonics(ctx)
    check_triangulation(ctx)
    check_shape(ctx)
    from ..rules import support

    support.check_scalar_wrapper(ctx)
    support.check_elementwise_shape_methods(ctx)
    ctx.expect("WRAP", 1)
    ctx.expect("SHAPE", 8)
    ctx.expect("TRIANG", 3)
    ctx.expect("ACCUM", 7)
    ctx.expect("ORIGIN", 19)
    ctx.expect("GUARD", 7)
    ctx.expect("COEFF", 16)
    ctx.expect("DIM", 12)
    ctx.expect("COMPLETE", 9)
    ctx.expect("UNITVEC", 6)
    ctx.expect("DERIV", 4)
    ctx.expect("FORMULA", 3)
    ctx.expect("INTEGRAL", 8)
    ctx.expect("STATELESS", 10)
    ctx.expect("PAIRS", 2)
    ctx.expect("HARMONIC", 6)
    ctx.trust("first-order mean curvature of r=R(1+εB): 2D κ = 1/R − (δr+δr'')/R², 3D H = 1/R − (2δr + Δ_Ω δr)/(2R²) with Δ_Ω Y_l = −l(l+1)Y_l",
              "harmonics sin(nφ), cos(nφ) orthogonal on [0,2π); scipy.integrate.dblquad(func(y,x), a, b, gfun, hfun) argument order",
              "scipy.special.sph_harm_y / spherical_index_lm implement the documented real harmonics")
    ctx.assume("numerical agreement of the closed forms with the integrals is not decided; only their algebraic form")
