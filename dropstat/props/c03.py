"""C03 — a rendered phase field is a faithful, finite picture of the droplet.

Structural clauses decided (each a necessary condition of the behaviour):
  DIMGUARD/DIST/SHARP/SMOOTH/WIDTH/CAST  one profile template in the three renderers:
      strict ``dist < R`` indicator; ½+½·tanh((R−dist)/w) (range (0,1), monotone in
      dist, midpoint ⇔ indicator); periodic-aware distance from self.position;
  SIBLING   perturbed ≡ diffuse renderer under interface ↦ radius;
  METRIC/ANGLES/DIV0  polar_coordinates: periodic difference vector origin→cells,
      documented angle convention, no division by the (possibly zero) distance;
  ARITY     every perturbed class accepts the angles of its grid dimension;
  GUARD     a mode's term is skipped only when *its own* amplitude is zero;
  COEFF     the interface distance is R(1+Σε·B) with the documented basis;
  AFFINE    get_phase_field = vmin + (vmax−vmin)·u;
  SUMCLIP   emulsion field = in-place clip to [0,1] of the sum over all members.
"""

from __future__ import annotations

import ast

from ..astutil import U, view, names_in, stmt_index, compare_parts
from ..core import Ctx
from ..rules import render
from . import c13


def check_guard(ctx: Ctx, cname: str, member="interface_distance"):
    """every accumulator update in the amplitude loop is guarded at most by a test that
    its own amplitude is non-zero"""
    m = ctx.model
    ci = m.cls(cname)
    for fi in ci.methods.get(member, []):
        fv = view(m, fi)
        si = stmt_index(fv)
        c13.check_cover(ctx, fi, rule="GUARD")
        for lp in c13.amp_loops(fi):
            site = f"{fi.qualname}:loop"
            bad = None
            n = 0
            exits = [x for x in ast.walk(lp.node) if isinstance(x, (ast.Break, ast.Return)) and not any(isinstance(q, (ast.For, ast.While)) and q is not lp.node and any(z is x for z in ast.walk(q)) for q in ast.walk(lp.node))]
            if exits:
                ctx.violate("GUARD", site + ":exit", (fi, exits[0]),
                            f"the loop over the amplitudes is left by `{type(exits[0]).__name__.lower()}`: all later modes are dropped (e.g. the sum stops at the first amplitude that is exactly zero)")
                continue
            for s in ast.walk(lp.node):
                if not (isinstance(s, ast.AugAssign) or (isinstance(s, ast.Assign) and isinstance(s.targets[0], ast.Name) and c13.cumulative(s, s.targets[0].id))):
                    continue
                n += 1
                amps_in_term = names_in(s.value) & set(lp.amps)
                amps_in_term = {x for x in names_in(fv.expand(s.value, s, stop=tuple(lp.amps))) if x in lp.amps} or amps_in_term
                for test, pol in si.effective_guards(s):
                    if not any(x is test for x in ast.walk(lp.node)):
                        continue  # guard outside the loop
                    cp = compare_parts(test)
                    # a term that mixes several amplitudes (a·sin + b·cos) may not be skipped on account of one of them
                    own = cp is not None and isinstance(cp[0], ast.Name) and amps_in_term == {cp[0].id} and isinstance(cp[2], ast.Constant) and cp[2].value == 0 \
                        and ((isinstance(cp[1], ast.NotEq) and pol) or (isinstance(cp[1], ast.Eq) and not pol))
                    if not own:
                        bad = (s, test)
            if bad:
                s, test = bad
                ctx.violate("GUARD", site, (fi, s),
                            f"the term `{U(s)[:60]}` is skipped under `{U(test)}`, which does not test this term's own amplitude: the mode is dropped for valid amplitude vectors (e.g. sine amplitude 0, cosine amplitude non-zero)")
            elif n:
                ctx.hold("GUARD", site, (fi, lp.node), f"{n} term(s), each skipped only when its own amplitude is exactly zero")


ALL_ZERO_FORMS = (
    "np.all(self.amplitudes == 0)", "(self.amplitudes == 0).all()", "not np.any(self.amplitudes)", "not self.amplitudes.any()", "not np.any(self.amplitudes != 0)",
    "not (self.amplitudes != 0).any()", "np.count_nonzero(self.amplitudes) == 0", "self.modes == 0", "len(self.amplitudes) == 0", "self.amplitudes.size == 0",
)


def check_shortcuts(ctx: Ctx, rule="GUARD"):
    """A shortcut that treats a perturbed droplet as unperturbed (early return of the spherical result) may only be taken
    when *every* amplitude vanishes.  Reductions such as `amplitudes.sum() == 0` are also true for amplitudes that cancel
    ([0.3, −0.3]), for which the shape is not a sphere."""
    m = ctx.model
    base = m.cls("PerturbedDropletBase")
    n = 0
    for ci in [base] + m.subclasses(base):
        for name, lst in ci.methods.items():
            for fi in lst:
                if fi.cls is not ci or isinstance(fi.node, ast.Lambda):
                    continue
                fv = view(m, fi)
                si = stmt_index(fv)
                for r in [x for x in fv.statements() if isinstance(x, ast.Return)]:
                    for test, pol in si.effective_guards(r):
                        tx = fv.expand(test, test, allow_mutated=False)
                        if "amplitudes" not in U(tx):
                            continue
                        # only tests that compare a *reduction* of the amplitudes are of interest
                        red = [c for c in ast.walk(tx) if isinstance(c, ast.Call) and ((isinstance(c.func, ast.Attribute) and c.func.attr in ("sum", "mean", "prod", "max", "min", "std", "var", "dot"))
                               or (U(c.func).split(".")[-1] in ("sum", "mean", "prod", "max", "min", "norm", "dot", "fsum", "nansum"))) and "amplitudes" in U(c)]
                        if not red:
                            continue
                        n += 1
                        txt = U(tx)
                        absval = any(isinstance(c, ast.Call) and U(c.func).split(".")[-1] in ("abs", "absolute", "square", "fabs") and "amplitudes" in U(c) for c in ast.walk(tx)) or "amplitudes ** 2" in txt
                        ok = absval or "norm" in txt
                        ctx.decide(ok, rule, f"{fi.qualname}:shortcut", (fi, r),
                                   "the shortcut tests a quantity that vanishes only when all amplitudes vanish",
                                   f"`{U(r)[:50]}` is taken when `{txt[:70]}` is {pol}: a reduction of the signed amplitudes also vanishes for amplitudes that cancel "
                                   "(e.g. [0.3, −0.3]), for which the droplet is not a sphere — the shape/volume returned is that of the unperturbed droplet")
    return n


def check(ctx: Ctx):
    ctx.explain(
        "Renderer template rules over SphericalDroplet/DiffuseDroplet/PerturbedDropletBase._get_phase_field with the smooth "
        "profile compared in exact normal form with ½+½·tanh((R−dist)/w); sibling agreement; polar_coordinates metric, angle "
        "convention and zero-distance division rule; angle-arity agreement with every perturbed class; amplitude-guard rule and "
        "first-order basis of the interface distance; affine vmin/vmax map; sum-then-clip dataflow of Emulsion.get_phasefield."
    )
    infos = {}
    for cname in render.RENDERERS:
        infos[cname] = render.check_renderer(ctx, cname)
        ctx.analysed(infos[cname]["fi"])
    render.check_renderer_siblings(ctx, infos)
    from ..rules import support

    # the renderer hands grid-shaped angle arrays to interface_distance through the scalar-argument decorator
    support.check_scalar_wrapper(ctx)
    support.check_elementwise_shape_methods(ctx)
    ctx.expect("WRAP", 1)
    render.check_polar(ctx)
    render.check_arity(ctx)
    for cname in c13.CLASSES:
        check_guard(ctx, cname)
        # basis of the interface distance (shared with C13)
        sub = Ctx(ctx.model, ctx.prop, ctx.tier)
        c13.check_coeff(sub, cname)
        for f in sub.findings:
            if f.rule == "COEFF" and "interface_distance" in f.site:
                ctx.findings.append(f)
        ctx.functions |= sub.functions
    check_shortcuts(ctx)
    render.check_scaling(ctx)
    render.check_real_harmonics(ctx)
    render.check_sum_clip(ctx)
    # Emulsion.get_phasefield renders self[0] and self[1:]; the slice is a new Emulsion that is filled through append():
    # a droplet that append() drops (or stores twice) is missing from (or doubled in) the image
    from ..rules import collections as _col

    _col.check_list_appends(ctx)
    ctx.expect("PAIR", 1)
    ctx.expect("DIMGUARD", 3)
    ctx.expect("DIST", 4)
    ctx.expect("SHARP", 3)
    ctx.expect("SMOOTH", 2)
    ctx.expect("WIDTH", 4)
    ctx.expect("CAST", 3)
    ctx.expect("SIBLING", 1)
    ctx.expect("METRIC", 2)
    ctx.expect("ANGLES", 3)
    ctx.expect("DIV0", 1)
    ctx.expect("ARITY", 3)
    ctx.expect("GUARD", 3)
    ctx.expect("COEFF", 7)
    ctx.expect("AFFINE", 2)
    ctx.expect("HARMONIC", 6)
    ctx.expect("SUMCLIP", 3)
    ctx.trust("GridBase.difference_vector / transform implement the grid's periodic metric", "numpy tanh, clip, astype semantics")
    ctx.assume("translation equivariance and order independence of the floating-point sum are not decided")
