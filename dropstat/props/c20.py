"""C20 — collections stay aligned and own their droplets under any sequence of edits.

  OWN      who-may-store rule over the package (only owner methods write the backing
           lists); copy-on-insert on the default path of every insertion entry point;
           droplet copies wrap a copied record;
  FRESH    slices, sums and copies are rebuilt through constructors with default copying;
           constructors own their list of times and add members through append;
  PAIR     times/members appended, cleared and length-checked in lock-step;
  REJECT   force_consistency / dimension guards raise ValueError before the store;
  REMOVE   removal loops run back to front with the documented comparison;
  NONETEST optional widths/times are tested with `is None`;
  LINK     get_linked_data binds member i to row i of the returned array.
The statistics clause (summary queries equal their definitions) is not decided except for
the identity test of the optional interface width inside Emulsion.interface_width.
"""

from __future__ import annotations

import ast

from ..core import Ctx
from ..rules import collections as col, nonetest, tracking

EM = "droplets.emulsions"
TR = "droplets.droplet_tracks"


def check(ctx: Ctx):
    from ..rules import support as _support

    _support.check_ctor_dtype_precedence(ctx)
    _support.check_copy_filter_strict(ctx)
    # removing overlaps is one of the operations: the surface distance it compares is centre distance minus both members' radii
    from ..rules import collections as _colp

    _support.compose(ctx, _colp.check_pairwise, keep=("SURFACE", "SYMM"))
    # merging members is one of the operations: both settings of `inplace` go through the class' own merge kernel on every path
    from . import c11 as _c11

    _support.compose(ctx, _c11.check_merge_dispatch, keep=("SIBLING", "EFFECT"))
    # extend / the constructor accept any iterable of droplets (generators included): it is consumed once
    from ..rules import iteronce as _iteronce

    for q_ in ("droplets.emulsions.Emulsion.extend", "droplets.emulsions.Emulsion.__init__"):
        for fi_ in ctx.model.funcs(q_):
            _iteronce.check_function(ctx, fi_)
    ctx.expect("SURFACE", 1)
    m = ctx.model
    ctx.explain(
        "Ownership (who-may-store over all functions of the package, copy-on-insert dataflow on default paths), fresh derivations through "
        "constructors, lock-step mutation of the parallel lists on every path (post-dominance), rejection guards dominating the store, "
        "removal-loop shape, identity tests of optional values."
    )
    col.check_who_may_store(ctx)
    col.check_copy_on_insert(ctx)
    tracking.check_track_append(ctx, rules=("OWN", "NONETEST", "PAIR"))
    col.check_fresh_derivations(ctx)
    col.check_pair_methods(ctx)
    col.check_reject(ctx)
    col.check_safe_removal(ctx, f"{EM}.Emulsion.remove_small", "radius", (ast.LtE,), "radius <= min_radius", param="min_radius")
    col.check_safe_removal(ctx, f"{TR}.DropletTrackList.remove_short_tracks", "duration", (ast.LtE,), "duration <= min_duration", param="min_duration")
    nonetest.check(ctx, m.func(f"{EM}.EmulsionTimeCourse.append"), "time", "the time stamp")
    nonetest.check(ctx, m.func(f"{EM}.Emulsion.interface_width"), "interface_width", "a member's interface width")
    col.check_linked_data(ctx)
    # "remove overlaps" against the list model: survivors are the original objects in order, decided pair by pair on the
    # current members (pop-only effect, list/matrix/any further per-member array shrunk in lock-step, tie-break on the radii)
    sub_ro = Ctx(ctx.model, ctx.prop, ctx.tier)
    col.check_remove_overlapping(sub_ro)
    for f in sub_ro.findings:
        if f.rule in ("PAIR", "EFFECT", "METRIC") or (f.rule == "GUARDSHAPE" and (f.site.endswith(":tie-break") or f.site.endswith(":closeness"))):
            ctx.findings.append(f)
    ctx.functions |= sub_ro.functions
    col.check_instance_containers(ctx, ("EmulsionTimeCourse", "DropletTrack"), rule="OWN")
    col.check_weighted_mean(ctx)
    col.check_bbox_union(ctx)
    from ..rules import collections as _colx

    _colx.check_list_appends(ctx)
    ctx.expect("EFFECT", 1)
    ctx.expect("GUARDSHAPE", 1)
    col.check_order_free(ctx)
    col.check_copy_total(ctx)
    col.check_self_alias_iteration(ctx)
    col.check_statistics(ctx)
    col.check_trajectory_axis(ctx)
    ctx.expect("STAT", 9)
    ctx.expect("COPYALL", 2)
    # merging members in place (out aliases the first operand) equals the out-of-place merge
    from . import c11

    sub = Ctx(ctx.model, ctx.prop, ctx.tier)
    c11.check_kernel_spherical(sub)
    c11.check_kernel_diffuse(sub)
    for f in sub.findings:
        if f.rule in ("ALIAS", "EFFECT"):
            ctx.findings.append(f)
    ctx.functions |= sub.functions
    ctx.expect("OWN", 8)
    ctx.expect("FRESH", 9)
    ctx.expect("PAIR", 8)
    ctx.expect("REJECT", 3)
    ctx.expect("REMOVE", 2)
    ctx.expect("NONETEST", 3)
    ctx.expect("LINK", 2)
    ctx.expect("ORDERFREE", 2)
    ctx.expect("ALIAS", 3)
    ctx.trust("list.append/pop/slicing semantics; numpy record .copy() allocates new storage")
    ctx.assume("of the statistics clause only the *source* of the size statistics and of the total volume (every member's own radius/volume, plain mean/std/sum) is decided; bounding box, trajectories and numerical values are not")
