"""C14 — tracking during a simulation equals analysing the stored fields afterwards.

  FORWARD   every analysis option the trackers store is read back unconditionally and
            passed to a keyword that exists in the callee's signature (one tabled alias:
            perturbation_modes → modes); constructor parameters are stored under their
            own names; the source selection reaches extract_field;
  PIPE      tracker and offline path are the same pipeline locate_droplets →
            EmulsionTimeCourse.append (offline through the constructor), with the solver
            time bound to the `time` parameter and storage.times to `times`;
  NONETEST  append recognises "no time" with `is None` (time 0 is valid);
  TRYGUARD  the length-scale analysis runs inside try/except Exception (or wider), the
            handler assigns NaN and does not re-raise;
  PAIR      times and values are appended together on every path;
  IOAGREE   finalize writes what the readers read.
"""

from __future__ import annotations

import ast

from ..astutil import U, view, arg_or_kw, kwarg, names_in, stmt_index
from ..core import Ctx
from ..model import dotted
from ..rules import io, nonetest

TRK = "droplets.trackers"
EM = "droplets.emulsions"
IMG = "droplets.image_analysis"

ALIASES = {"perturbation_modes": "modes"}
OPTIONS = ["threshold", "minimal_radius", "refine", "refine_args", "perturbation_modes"]


def _extract_field_args(call):
    """(fields, source, check_rank) of a pde extract_field call, whether passed positionally or by keyword"""
    names = ["fields", "source", "check_rank"]
    out = {}
    for i, a in enumerate(call.args[:3]):
        out[names[i]] = U(a)
    for k in call.keywords:
        if k.arg in names:
            out[k.arg] = U(k.value)
    return [out.get(n) for n in names]



def stored_options(ctx, cls_q):
    """{attr: value text} for self.attr = <expr> in __init__"""
    m = ctx.model
    fi = m.func(f"{cls_q}.__init__")
    out = {}
    for s in ast.walk(fi.node):
        if isinstance(s, ast.Assign) and isinstance(s.targets[0], ast.Attribute) and U(s.targets[0].value) == "self":
            out[s.targets[0].attr] = s
    return fi, out


def check_droplet_tracker(ctx: Ctx):
    m = ctx.model
    init, stored = stored_options(ctx, f"{TRK}.DropletTracker")
    h = m.func(f"{TRK}.DropletTracker.handle")
    hv = view(m, h)
    loc = m.func(f"{IMG}.locate_droplets")
    sig = set(loc.all_params)
    calls = [c for c in hv.calls() if (hv.callee(c) or "").endswith("locate_droplets")]
    site = h.qualname
    if len(calls) != 1:
        ctx.violate("PIPE", site, h, f"expected one locate_droplets call per frame, found {len(calls)}")
        return
    c = calls[0]
    from ..astutil import call_bindings, dict_items

    bound, unresolved = call_bindings(hv, c, loc)
    # options stored under their own names
    for opt in OPTIONS:
        s = stored.get(opt)
        ok = s is not None and U(s.value) == opt and opt in init.all_params
        if ok:
            # … and the parameter still holds the caller's value there: no statement of the constructor rebinds it (rounding an odd
            # mode count up, clipping a radius) — the offline analysis is given the caller's value
            rebound = [x for x in ast.walk(init.node) if isinstance(x, ast.Name) and x.id == opt and isinstance(x.ctx, ast.Store)]
            if rebound:
                ok = False
        ctx.decide(ok, "FORWARD", f"{init.qualname}:{opt}", (init, s) if s is not None else init, f"constructor stores `{opt}` as given",
                   f"constructor parameter `{opt}` is not stored unchanged in self.{opt}")
        kw = ALIASES.get(opt, opt)
        v = bound.get(kw)
        okf = v is not None and U(hv.expand(v, c)) == f"self.{opt}" and kw in sig
        ctx.decide(okf, "FORWARD", f"{site}:{opt}", (h, c), f"self.{opt} is passed as {kw}= to locate_droplets",
                   f"the stored option `{opt}` is not forwarded unconditionally as `{kw}=self.{opt}` to locate_droplets (found `{U(v) if v is not None else 'nothing'}`): "
                   "the tracker analyses frames with other settings than the offline analysis")
    # no other analysis keyword invented
    extra = [k for k in bound if k not in [ALIASES.get(o, o) for o in OPTIONS] and k != loc.params[0]]
    ctx.decide(not extra and not unresolved, "FORWARD", f"{site}:extra", (h, c), "no further analysis setting is fixed inside the tracker",
               f"the tracker fixes extra settings {extra + unresolved} that the offline analysis does not use")
    # the field: extract_field(field, self.source, 0) → first positional argument
    a0 = bound.get(loc.params[0])
    ex = hv.expand(a0, c) if a0 is not None else None
    oks = isinstance(ex, ast.Call) and (hv.callee(ex) or "").endswith("extract_field") and _extract_field_args(ex) == [h.params[1], "self.source", "0"]
    ctx.decide(oks, "FORWARD", f"{site}:source", (h, c), "the analysed field is extract_field(field, self.source, 0)",
               f"the analysed field is `{U(ex) if ex is not None else None}`, not extract_field(field, self.source, 0)")
    # PIPE: result appended with the solver time
    si = stmt_index(hv)
    st = si.statement(c)
    res = U(st.targets[0]) if isinstance(st, ast.Assign) else None
    ap = [x for x in hv.calls() if U(x.func) == "self.data.append"]
    app = m.func(f"{EM}.EmulsionTimeCourse.append")
    okp = False
    if len(ap) == 1 and res:
        a = ap[0]
        e_arg = arg_or_kw(a, 0, app.params[1])
        t_arg = arg_or_kw(a, 1, app.params[2])
        okp = e_arg is not None and U(e_arg) == res and t_arg is not None and U(t_arg) == h.params[2] and app.params[2] == "time" and hv.post_dominates(a, st)
    # … as locate_droplets returned it: no method of the result is called in between (a second duplicate filter, a size filter)
    if res:
        touched = [x for x in hv.calls() if isinstance(x.func, ast.Attribute) and isinstance(x.func.value, ast.Name) and x.func.value.id == res
                   and x.func.attr not in ("copy",) and not (ap and x is ap[0])]
        touched += [s_ for s_ in hv.statements() if isinstance(s_, (ast.Assign, ast.AugAssign)) and s_ is not st
                    and any(isinstance(t_, ast.Name) and t_.id == res for t_ in (s_.targets if isinstance(s_, ast.Assign) else [s_.target]))]
        ctx.decide(not touched, "PIPE", f"{site}:result-as-returned", (h, touched[0]) if touched else (h, c), "the located emulsion is recorded as locate_droplets returned it",
                   f"`{U(touched[0])[:70] if touched else ''}` changes the located emulsion before it is recorded: the tracker's frame differs from locate_droplets(frame, same settings) "
                   "(e.g. a second duplicate filter after refinement drops a droplet that the offline analysis keeps)")
    ctx.decide(okp, "PIPE", f"{site}:append", (h, ap[0]) if ap else h, f"the located emulsion is appended with time={h.params[2]} on every path",
               "the located emulsion is not appended to the time course with the solver's time bound to the `time` parameter")
    # every frame is analysed: no path through handle() reaches the append without the locate_droplets call, and the
    # recorded emulsion has no other source (a remembered result of an earlier frame, an empty placeholder, …)
    from ..astutil import count_on_normal_paths

    n_paths = count_on_normal_paths(hv, [c])
    other_defs = []
    if res and ap:
        for d_ in hv.defs_reaching(res, ap[0]):
            if d_.stmt is not None and d_.stmt is not st:
                other_defs.append(d_.stmt)
    ctx.decide(n_paths == {1} and not other_defs, "PIPE", f"{site}:every-frame", (h, other_defs[0]) if other_defs else (h, c),
               "every call of handle() analyses the field it was given with locate_droplets",
               f"some path records an emulsion that does not come from analysing this frame (`{U(other_defs[0])[:60] if other_defs else 'locate_droplets is skipped'}`): the tracked course differs "
               "from analysing the stored fields afterwards (solvers update the field in place, so a remembered array compares equal to itself and every later frame repeats an old result)")
    # self.data is the EmulsionTimeCourse given or a new one
    d = stored.get("data")
    from ..astutil import ifexp_cases

    okd = d is not None and all(U(v_) in ("EmulsionTimeCourse()", "emulsion_timecourse") for _c, v_ in ifexp_cases(d.value))
    ctx.decide(okd, "PIPE", f"{init.qualname}:data", (init, d) if d is not None else init, "results go to an EmulsionTimeCourse", "tracker data is not an EmulsionTimeCourse")
    # finalize
    f = m.func(f"{TRK}.DropletTracker.finalize")
    fv = view(m, f)
    w = [x for x in fv.calls() if U(x.func) == "self.data.to_file"]
    okw = False
    if len(w) == 1:
        from ..astutil import flat_tests

        conds = set()
        for t, p in stmt_index(fv).effective_guards(w[0]):
            for a_, q in flat_tests(t, p):
                conds.add((U(fv.expand(a_, w[0])), q))
        okw = U(fv.expand(w[0].args[0], w[0])) == "self.filename" and ("self.filename", True) in conds
    ctx.decide(okw, "IOAGREE", f.qualname, (f, w[0]) if w else f, "finalize writes the recorded time course with EmulsionTimeCourse.to_file", "finalize does not write self.data.to_file(self.filename)")


def check_offline(ctx: Ctx):
    m = ctx.model
    fi = m.func(f"{EM}.EmulsionTimeCourse.from_storage")
    fv = view(m, fi)
    site = fi.qualname
    rets = [n.stmt for n in fv.return_nodes()]
    ok = bool(rets)
    for r_ in rets:  # one return per branch is fine, each must pair the frames with the storage's times
        okr_ = isinstance(r_.value, ast.Call) and U(r_.value.func) == "cls"
        if okr_:
            c = r_.value
            t = kwarg(c, "times")
            e = arg_or_kw(c, 0, "emulsions")
            okr_ = t is not None and U(fv.expand(t, r_)) == f"{fi.params[1]}.times" and e is not None and isinstance(e, ast.Name)
        ok = ok and okr_
    ctx.decide(ok, "PIPE", site + ":times", (fi, rets[0]) if rets else fi, "offline frames are paired with storage.times",
               "the offline analysis does not build cls(emulsions, times=storage.times)")
    # serial branch applies locate_droplets to every frame of the storage
    calls = [c for c in fv.calls(nested=True) if (fv.callee(c) or "").endswith("locate_droplets")]
    ok2 = False
    for c in calls:
        kws_, stars_ = kw_forward(fv, c)
        if c.args and isinstance(c.args[0], ast.Name) and "kwargs" in stars_ and kws_.get("refine") == "refine":
            ok2 = True
    ctx.decide(ok2, "PIPE", site + ":locate", (fi, calls[0]) if calls else fi, "each stored frame goes through locate_droplets(frame, refine=refine, **kwargs)",
               "stored frames are not analysed by locate_droplets(frame, refine=refine, **kwargs)")
    # every way locate_droplets is applied (direct call or functools.partial) forwards the same settings
    parts = [c for c in fv.calls(nested=True) if (fv.callee(c) or "").endswith("partial") and c.args and (fv.callee(ast.Call(func=c.args[0], args=[], keywords=[])) or U(c.args[0])).endswith("locate_droplets")]
    for k_, c in enumerate(parts):
        kws_, stars_ = kw_forward(fv, c)
        okp = "kwargs" in stars_ and kws_.get("refine") == "refine"
        ctx.decide(okp, "PIPE", f"{site}:partial#{k_}", (fi, c), "the worker function forwards refine=refine and **kwargs like the serial call",
                   f"`{U(c)[:80]}` does not forward refine=refine and **kwargs: with several processes the stored frames are analysed with other settings than the tracker used")
    # constructor appends each emulsion through append
    init = m.func(f"{EM}.EmulsionTimeCourse.__init__")
    iv = view(m, init)
    ap = [c for c in iv.calls() if U(c.func) == "self.append"]
    lp = stmt_index(iv).enclosing(ap[0], (ast.For,)) if ap else None
    ok3 = len(ap) == 1 and lp is not None and U(lp[0].iter) == "emulsions" and U(iv.expand(ap[0].args[0], ap[0])) in (f"Emulsion({U(lp[0].target)})", U(lp[0].target))
    ctx.decide(ok3, "PIPE", init.qualname, (init, ap[0]) if ap else init, "the constructor stores every frame through append, in order", "the constructor does not append every given emulsion in order")


def kw_forward(fv, call):
    """({keyword: value text}, {names passed with **}) of a call; a `**name` whose value is a local dict literal
    (`{"refine": refine, **kwargs}`) is looked through"""
    kws, stars = {}, set()

    def from_dict(v, at):
        if isinstance(v, ast.Dict):
            for k_, x_ in zip(v.keys, v.values):
                if k_ is None:
                    inner = fv.expand(x_, at, allow_mutated=True) if fv.node_of(at) is not None else x_
                    if isinstance(inner, ast.Dict):
                        from_dict(inner, at)
                    else:
                        stars.add(U(x_))
                elif isinstance(k_, ast.Constant):
                    kws[k_.value] = U(x_)
            return True
        if isinstance(v, ast.Call) and dotted(v.func) == "dict":
            for k_ in v.keywords:
                if k_.arg is None:
                    stars.add(U(k_.value))
                else:
                    kws[k_.arg] = U(k_.value)
            for a_ in v.args:
                stars.add(U(a_))
            return True
        return False

    for k in call.keywords:
        if k.arg is not None:
            kws[k.arg] = U(k.value)
        else:
            v = fv.expand(k.value, call, allow_mutated=True) if fv.node_of(call) is not None else k.value
            if not from_dict(v, call):
                # a comprehension / nested scope: try the plain single assignment of the name in the function
                done = False
                if isinstance(k.value, ast.Name):
                    cands = [s_ for s_ in fv.statements() if isinstance(s_, (ast.Assign, ast.AnnAssign)) and s_.value is not None
                             and U(s_.targets[0] if isinstance(s_, ast.Assign) else s_.target) == k.value.id]
                    if len(cands) == 1 and k.value.id not in fv.mutated:
                        done = from_dict(cands[0].value, cands[0])
                if not done:
                    stars.add(U(k.value))
    return kws, stars


def has_star(call, name):
    return any(k.arg is None and U(k.value) == name for k in call.keywords)


def check_super_forwarding(ctx: Ctx, rule="FORWARD"):
    """A tracker method that extends its parent's (`initialize`, `finalize`, `handle`) hands every parameter it received on to
    `super().<same method>(…)`: a dropped `info` makes TrackerBase.initialize lay out the interrupts from t = 0 instead of
    the simulation's start time, so the tracker's times differ from the stored ones."""
    m = ctx.model
    n = 0
    for ci in m.classes.values() if hasattr(m, "classes") else []:
        pass
    for fi in m.all_functions():
        if fi.module.name != TRK or fi.cls is None or fi.name.startswith("__") or fi.parent is not None:
            continue
        sup = [c for c in ast.walk(fi.node) if isinstance(c, ast.Call) and isinstance(c.func, ast.Attribute) and c.func.attr == fi.name
               and isinstance(c.func.value, ast.Call) and U(c.func.value.func) == "super"]
        if not sup:
            continue
        params = [p_ for p_ in fi.all_params if p_ != "self"]
        for c in sup:
            passed = set()
            for a in c.args:
                passed |= names_in(a)
            for k in c.keywords:
                passed |= names_in(k.value)
            missing = [p_ for p_ in params if p_ not in passed]
            n += 1
            ctx.decide(not missing, rule, f"{fi.qualname}:super", (fi, c), f"super().{fi.name} receives every parameter {params}",
                       f"`{U(c)}` does not pass {missing} on to the parent's {fi.name}: the parent falls back to its default (without `info`, TrackerBase.initialize starts the interrupts at t = 0 instead of "
                       "the simulation's start time, so the tracker handles other times than the storage of the same run)")
    return n


def check_length_tracker(ctx: Ctx):
    m = ctx.model
    init, stored = stored_options(ctx, f"{TRK}.LengthScaleTracker")
    h = m.func(f"{TRK}.LengthScaleTracker.handle")
    hv = view(m, h)
    site = h.qualname
    gl = m.func(f"{IMG}.get_length_scale")
    calls = [c for c in hv.calls() if (hv.callee(c) or "").endswith("get_length_scale")]
    if len(calls) != 1:
        ctx.violate("PIPE", site, h, "the frame is not analysed by exactly one get_length_scale call")
        return
    c = calls[0]
    s = stored.get("method")
    ok = s is not None and U(s.value) == "method" and kwarg(c, "method") is not None and U(kwarg(c, "method")) == "self.method" and "method" in gl.all_params
    ctx.decide(ok, "FORWARD", site + ":method", (h, c), "the stored method is passed as method= to get_length_scale",
               "the stored `method` is not forwarded unconditionally to get_length_scale")
    a0 = hv.expand(c.args[0], c) if c.args else None
    oks = isinstance(a0, ast.Call) and (hv.callee(a0) or "").endswith("extract_field") and _extract_field_args(a0) == [h.params[1], "self.source", "0"]
    ctx.decide(oks, "FORWARD", site + ":source", (h, c), "the analysed field is extract_field(field, self.source, 0)", "the analysed field is not extract_field(field, self.source, 0)")
    extra = [k.arg for k in c.keywords if k.arg != "method"]
    ctx.decide(not extra, "FORWARD", site + ":extra", (h, c), "no further setting is fixed in the tracker", f"extra settings {extra}")
    # TRYGUARD
    si = stmt_index(hv)
    tr = si.enclosing(c, (ast.Try,))
    st = si.statement(c)
    val = U(st.targets[0]) if isinstance(st, ast.Assign) else None
    ok = False
    detail = "the analysis call is not inside a try block"
    where = c
    if tr is not None and tr[1] == "body" and val:
        t = tr[0]
        wide = [hd for hd in t.handlers if hd.type is None or U(hd.type) in ("Exception", "BaseException")]
        detail = f"handlers catch {[U(hd.type) if hd.type is not None else 'everything' for hd in t.handlers]}"
        if wide:
            hd = wide[0]
            where = hd
            # a narrower handler listed before must not re-raise
            NANS = ("math.nan", "np.nan", "float('nan')", "numpy.nan")
            nan_set = any(isinstance(x, ast.Assign) and U(x.targets[0]) == val and U(x.value) in NANS for x in ast.walk(hd))
            if not nan_set and not any(isinstance(x, ast.Name) and x.id == val and isinstance(x.ctx, ast.Store) for x in ast.walk(hd)):
                # NaN as the initial value: the only definitions that reach the try statement are NaN, and inside the try
                # nothing but the analysis call itself assigns the recorded variable
                reach = [d_ for d_ in hv.defs_reaching(val, hv.node_of(t) or hv.node_of(t.body[0])) if d_.stmt is not None]
                inside = [x for b_ in t.body for x in ast.walk(b_) if isinstance(x, (ast.Assign, ast.AnnAssign, ast.AugAssign)) and val in {y.id for y in ast.walk(x) if isinstance(y, ast.Name) and isinstance(y.ctx, ast.Store)}]
                nan_set = bool(reach) and all(isinstance(d_.stmt, (ast.Assign, ast.AnnAssign)) and d_.stmt.value is not None and U(d_.stmt.value) in NANS for d_ in reach) and inside == [st]
            reraise = any(isinstance(x, ast.Raise) for hh in t.handlers for x in ast.walk(hh))
            ok = nan_set and not reraise and not t.finalbody
            detail = f"handler assigns NaN: {nan_set}; re-raises: {reraise}"
    ctx.decide(ok, "TRYGUARD", site, (h, where),
               "any exception of the analysis is caught (except Exception or wider), the recorded value becomes NaN, nothing is re-raised",
               f"{detail}: an analysis failure with another exception type (e.g. ZeroDivisionError when no droplet is found, IndexError on symmetric grids) escapes the tracker and aborts the simulation")
    from ..astutil import count_on_normal_paths as _cnp

    np_ = _cnp(hv, [c])
    ctx.decide(np_ == {1}, "PIPE", site + ":every-frame", (h, c), "every call of handle() runs the analysis on the field it was given",
               "some path through handle() records a value without calling get_length_scale on the frame (a pre-check that declares the frame homogeneous/unchanged): the record then "
               "differs from what the analysis returns for that frame (e.g. NaN for a weakly modulated field whose normalised structure factor has a clear peak)")
    # SAMEVALUE: the recorded value is the analysis result itself — nothing between the call and the append changes what the
    # call returns or raises (a context that turns floating-point warnings into errors makes `inf` results NaN records)
    withs = []
    cur = si.enclosing(c, (ast.With,))
    while cur is not None:
        withs.append(cur[0])
        cur = si.enclosing(cur[0], (ast.With,))
    strict_ctx = [w for w in withs for it in w.items if isinstance(it.context_expr, ast.Call) and (
        (U(it.context_expr.func).split(".")[-1] == "errstate" and any(isinstance(k.value, ast.Constant) and k.value.value == "raise" for k in it.context_expr.keywords))
        or U(it.context_expr.func).split(".")[-1] in ("catch_warnings",))]
    filt = [x for x in hv.calls() if U(x.func).split(".")[-1] in ("simplefilter", "filterwarnings", "seterr") and any(isinstance(a_, ast.Constant) and a_.value in ("error", "raise") for a_ in list(x.args) + [k.value for k in x.keywords])]
    b_ = [x for x in hv.calls() if U(x.func) == "self.length_scales.append"]
    direct = True
    if val and b_:
        defs = hv.defs_reaching(val, b_[0])
        for d in defs:
            v = hv.value_of_def(d, val) if d.stmt is not None else None
            if v is None or d.stmt is st:
                continue
            if U(v) not in ("math.nan", "np.nan", "float('nan')", "numpy.nan"):
                direct = False
    okv = not strict_ctx and not filt and direct
    ctx.decide(okv, "SAMEVALUE", site, (h, strict_ctx[0] if strict_ctx else (filt[0] if filt else c)),
               "the recorded value is exactly what get_length_scale returns (NaN only after an exception of the analysis itself)",
               (f"`{U(strict_ctx[0].items[0].context_expr)[:60]}` changes the floating-point error handling around the analysis" if strict_ctx else
                (f"`{U(filt[0])[:60]}` turns warnings into errors" if filt else "the value is modified between the analysis and the record")) +
               ": results the offline analysis returns (e.g. inf when no droplet is found) are recorded as NaN by the tracker")
    # PAIR
    a = [x for x in hv.calls() if U(x.func) == "self.times.append"]
    b = [x for x in hv.calls() if U(x.func) == "self.length_scales.append"]
    okp = len(a) == 1 and len(b) == 1 and U(a[0].args[0]) == h.params[2] and U(b[0].args[0]) == val and hv.post_dominates(a[0], fv_first(hv)) and hv.post_dominates(b[0], fv_first(hv))
    ctx.decide(okp, "PAIR", site, (h, b[0]) if b else h, "time and value are appended exactly once on every path (also after a failure)",
               "time and value are not both appended once on every path through handle()")
    # finalize JSON
    f = m.func(f"{TRK}.LengthScaleTracker.finalize")
    from ..astutil import dict_items as _dict_items

    fvw = view(m, f)
    dump = [c2 for c2 in fvw.calls() if U(c2.func) == "json.dump"]
    okj = False
    if len(dump) == 1 and dump[0].args:
        items = _dict_items(fvw, dump[0].args[0], dump[0])
        okj = items is not None and {(k, U(v)) for k, v in items.items()} == {("times", "self.times"), ("length_scales", "self.length_scales")}
    ctx.decide(okj and len(dump) == 1, "IOAGREE", f.qualname, f, "finalize dumps {'times': …, 'length_scales': …} as JSON", "finalize does not dump the paired lists under 'times' and 'length_scales'")
    strict = [c2 for c2 in dump if isinstance(kwarg(c2, "allow_nan"), ast.Constant) and kwarg(c2, "allow_nan").value is False]
    ctx.decide(not strict, "IOAGREE", f.qualname + ":nan", (f, strict[0]) if strict else f, "recorded not-a-number values can be written",
               "json.dump(..., allow_nan=False) raises ValueError for the NaN that handle() records when the analysis fails: the tracker then raises at the end of the run")


def fv_first(fv):
    for n, lab in fv.cfg.entry.succ:
        return n
    return fv.cfg.entry


def check(ctx: Ctx):
    m = ctx.model
    ctx.explain(
        "FORWARD (stored options ↔ keywords of the callee's signature, unconditional), PIPE (same two-call pipeline on the tracker and the "
        "offline path with resolved time parameter), NONETEST, TRYGUARD (handler shape), PAIR (post-dominance of both appends), IOAGREE."
    )
    check_droplet_tracker(ctx)
    # finalize writes the recorded data under the file name and nothing else: extra arguments (the simulation info, which holds
    # objects that are not JSON-serialisable in adaptive runs) make the end of a simulation raise
    for q_ in (f"{TRK}.DropletTracker.finalize",):
        if m.has_func(q_):
            f_ = m.func(q_)
            tf_ = [c_ for c_ in ast.walk(f_.node) if isinstance(c_, ast.Call) and isinstance(c_.func, ast.Attribute) and c_.func.attr == "to_file"]
            okf_ = len(tf_) == 1 and [U(a_) for a_ in tf_[0].args] == ["self.filename"] and not tf_[0].keywords
            ctx.decide(okf_, "FORWARD", q_ + ":to_file", (f_, tf_[0]) if tf_ else f_, "finalize writes self.data.to_file(self.filename)",
                       f"finalize writes `{U(tf_[0])[:70] if tf_ else 'nothing'}`: further arguments change what is stored next to the time course or make writing fail for "
                       "simulation info that cannot be serialised (adaptive time stepping), so the run ends with an exception instead of a result file")
    check_offline(ctx)
    nonetest.check(ctx, m.func(f"{EM}.EmulsionTimeCourse.append"), "time", "the time stamp")
    from ..rules import collections as col

    col.check_pair_methods(ctx)
    check_length_tracker(ctx)
    io.check_sequence_keys(ctx, f"{EM}.EmulsionTimeCourse.to_file", f"{EM}.EmulsionTimeCourse.from_file", "_write_hdf_dataset", "EmulsionTimeCourse")
    io.check_dataset_pair(ctx, f"{EM}.Emulsion._write_hdf_dataset", f"{EM}.Emulsion._from_hdf_dataset", "Emulsion")
    io.check_timecourse_time(ctx)
    io.check_pair_iteration(ctx)
    io.check_file_modes(ctx)
    # "equals the offline analysis" is judged with the droplets' own equality: it must be exact and treat the NaN of an unset
    # interface width as equal to itself (unrefined perturbed droplets carry NaN widths)
    io.check_exact_eq(ctx)
    from ..rules import support as _sup14

    _sup14.check_text_file_modes(ctx, ("droplets.trackers.LengthScaleTracker.finalize",))
    # droplets located without refinement carry an undetermined (NaN) width: the file the tracker writes must read back
    io.check_nan_width(ctx)
    # the offline analysis pairs frame i with storage.times[i]: with several processes the results must come back in frame order
    from . import c15

    sub = Ctx(ctx.model, ctx.prop, ctx.tier)
    for fi_, ifn_ in c15.discover_splits(ctx.model):
        if fi_.qualname == f"{EM}.EmulsionTimeCourse.from_storage":
            c15.check_split(sub, fi_, ifn_)
    ctx.findings.extend(f for f in sub.findings if f.rule == "PARMAP")
    ctx.functions |= sub.functions
    from ..rules import collections as _col

    _col.check_instance_containers(ctx, ("LengthScaleTracker", "EmulsionTimeCourse"), rule="OWN")
    check_super_forwarding(ctx)
    from ..rules import support, spectrum

    # both paths build their time course through the same constructor/append: it must keep the given order and its own list of times
    support.compose(ctx, _col.check_fresh_derivations, keep=("FRESH",), site_filter=lambda s: "EmulsionTimeCourse.__init__" in s)
    # the recorded length scale is written as JSON: it must be a double whatever the field's dtype
    spectrum.check_accumulator_dtype(ctx, ("droplets.image_analysis.get_structure_factor", "droplets.image_analysis.get_length_scale"))
    ctx.expect("DTYPE", 2)
    ctx.expect("FRESH", 2)
    ctx.expect("PARMAP", 6)
    ctx.expect("FORWARD", 15)
    ctx.expect("PIPE", 7)
    ctx.expect("NONETEST", 1)
    ctx.expect("TRYGUARD", 1)
    ctx.expect("SAMEVALUE", 1)
    ctx.expect("PAIR", 5)
    ctx.expect("IOAGREE", 8)
    ctx.trust("pde.visualization.plotting.extract_field is deterministic", "TrackerBase calls handle(field, t) once per interrupt with the solver's time")
    ctx.assume("solver-driven runs are not analysed")
