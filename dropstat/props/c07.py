"""C07 — tracks follow droplet identity.

  METRIC   overlaps() measures with grid.distance(coords='cartesian') when a grid is
           given and with the Euclidean norm otherwise, and has no other exit; the
           overlap matcher forwards the grid and compares against each alive track's
           last droplet; the distance matcher's cdist metric is the periodic metric;
  STRICT   two droplets overlap iff distance < r1 + r2 (strict);
  CONT     a droplet continues a track iff exactly one alive track overlaps it;
  GREEDY   links = repeated global arg-min of the remaining distance matrix;
  INDEX    row/column invalidation of every link;
  CUTOFF   distances > max_dist are removed before matching (default: no cut-off);
  FLOW     alive tracks are those that ended at the previous frame (t_last on all paths).
"""

from __future__ import annotations

import ast

from ..astutil import U, view, arg_or_kw, kwarg, stmt_index, compare_parts
from ..core import Ctx
from ..rules import tracking

DROP = "droplets.droplets"


def check_overlaps(ctx: Ctx):
    from ..algebra import Converter, Expr, NotAlgebraic
    from ..astutil import value_cases, truth_of

    m = ctx.model
    fi = m.func(f"{DROP}.SphericalDroplet.overlaps")
    fv = view(m, fi)
    site = fi.qualname
    other, grid = fi.params[1], fi.params[2]
    rets = [n.stmt for n in fv.return_nodes()]
    cases = []
    for r in rets:
        for dec, val in value_cases(fv, r, r.value):
            cases.append((truth_of(dec, f"{grid} is None"), val, r))
    want_sum = Expr.atom("self.radius") + Expr.atom(f"{other}.radius")
    eu = (f"float(np.linalg.norm(self.position - {other}.position))", f"np.linalg.norm(self.position - {other}.position)",
          f"float(np.linalg.norm({other}.position - self.position))", f"np.linalg.norm({other}.position - self.position)")
    gr = (f"{grid}.distance(self.position, {other}.position, coords='cartesian')", f"{grid}.distance({other}.position, self.position, coords='cartesian')",
          f"float({grid}.distance(self.position, {other}.position, coords='cartesian'))")
    bad_metric = bad_strict = early = None
    n_ok = 0
    for isnone, val, r in cases:
        cp = compare_parts(val) if isinstance(val, ast.Compare) else None
        if cp is None:
            early = (r, val)
            continue
        l, op, rr = cp
        if isinstance(op, ast.Gt):
            l, rr, op = rr, l, ast.Lt()
        try:
            rhs_ok = Converter().conv(rr) == want_sum
        except NotAlgebraic:
            rhs_ok = False
        if not (isinstance(op, ast.Lt) and rhs_ok):
            bad_strict = (r, val)
            continue
        dist = U(l)
        if (isnone is True and dist in eu) or (isnone is False and dist in gr):
            n_ok += 1
        else:
            bad_metric = (r, val, isnone)
    ctx.decide(early is None, "METRIC", site + ":single-exit", (fi, early[0]) if early else fi,
               "every verdict is the comparison of the measured distance with the sum of the radii",
               f"overlaps() can return `{U(early[1])[:60] if early else ''}` without comparing the distance measured in the selected metric with the radii (e.g. a shortcut on raw coordinate differences ignores the periodic metric)")
    ctx.decide(bad_strict is None and n_ok + (1 if bad_metric else 0) > 0, "STRICT", site, (fi, bad_strict[0]) if bad_strict else fi, "overlap ⇔ distance < r1 + r2 (strict)",
               f"`{U(bad_strict[1])[:80] if bad_strict else ''}`: two droplets overlap exactly when their centre distance is strictly smaller than the sum of the radii")
    seen = {c[0] for c in cases}
    ctx.decide(bad_metric is None and seen >= {True, False} and n_ok >= 2, "METRIC", site, (fi, bad_metric[0]) if bad_metric else fi,
               "distance = Euclidean norm without a grid, grid.distance(…, coords='cartesian') with one",
               (f"with grid is None = {bad_metric[2]} the distance is `{U(bad_metric[1])[:80]}`" if bad_metric else f"metric selection on `{grid} is None` not found") +
               ": with a grid the periodic metric grid.distance(p1, p2, coords='cartesian') must be used, without one the Euclidean norm")


def check_matcher_metric(ctx: Ctx):
    m = ctx.model
    outer, ms = tracking.matchers(ctx)
    fi = ms["overlap"]
    fv = view(m, fi)
    calls = [c for c in fv.calls() if isinstance(c.func, ast.Attribute) and c.func.attr == "overlaps"]
    site = fi.qualname + "[overlap]:overlaps"
    if len(calls) != 1:
        ctx.violate("METRIC", site, fi, f"expected one overlaps() test against the alive tracks, found {len(calls)}")
    else:
        c = calls[0]
        g = arg_or_kw(c, 1, "grid")
        ok = g is not None and U(g) == "grid" and U(c.func.value).endswith(".last")
        ctx.decide(ok, "METRIC", site, (fi, c), "overlap with the last droplet of each alive track, measured with the supplied grid",
                   f"`{U(c)}`: the overlap test must compare with the track's last droplet and forward `grid=grid` (periodic metric)")
    fi = ms["distance"]
    fv = view(m, fi)
    si = stmt_index(fv)
    site = fi.qualname + "[distance]:metric"
    cd = [c for c in fv.calls() if (fv.callee(c) or "").endswith("distance.cdist")]
    if len(cd) != 1:
        ctx.undecided("METRIC", site, fi, "no cdist call")
        return
    mk = kwarg(cd[0], "metric")
    if mk is None:
        ctx.violate("METRIC", site, (fi, cd[0]), "cdist is called without the grid-dependent metric: periodic boundaries are ignored")
        return
    from ..astutil import value_cases, truth_of

    got = {}
    for dec, val in value_cases(fv, cd[0], mk):
        got.setdefault(truth_of(dec, "grid is None"), set()).add(U(val))
    ok = got.get(True) == {"'euclidean'"} and got.get(False) is not None and got[False] <= {"functools.partial(grid.distance, coords='cartesian')", "partial(grid.distance, coords='cartesian')"} and set(got) == {True, False}
    ctx.decide(ok, "METRIC", site, (fi, cd[0]), "cdist metric: 'euclidean' without a grid, grid.distance(coords='cartesian') with one",
               f"cdist metric is selected as {got}; with a grid it must be functools.partial(grid.distance, coords='cartesian'), without one 'euclidean'")


def check(ctx: Ctx):
    ctx.explain(
        "METRIC propagation rules at SphericalDroplet.overlaps and at both matchers; STRICT comparison shape in exact normal form; "
        "CONT single-overlap continuation; GREEDY/INDEX/CUTOFF shape rules of the distance matcher; FLOW rules of the frame loop."
    )
    check_overlaps(ctx)
    check_matcher_metric(ctx)
    tracking.check_overlap_matcher(ctx, rules=("CONT", "PATHCOUNT"))
    tracking.check_distance_matcher(ctx, rules=("GREEDY", "INDEX", "CUTOFF"))
    tracking.check_main_loop(ctx, rules=("FLOW",))
    tracking.check_track_append(ctx, rules=("NONETEST",))
    from ..rules import support

    support.check_track_accessors(ctx)
    from ..rules import empty as _empty

    support.compose(ctx, _empty.check_cdist, keep=("EMPTY", "INDEX"), site_filter=lambda s_: s_.endswith(":only-emptiness") or s_.endswith(":unfiltered"))
    from ..rules import support as _sup_r12

    _sup_r12.check_named_params_forwarded(ctx, "droplets.droplet_tracks.DropletTrackList.from_storage", "from_emulsion_time_course")
    ctx.expect("ACCESSOR", 4)
    ctx.expect("METRIC", 4)
    ctx.expect("STRICT", 1)
    ctx.expect("CONT", 1)
    ctx.expect("PATHCOUNT", 1)
    ctx.expect("GREEDY", 1)
    ctx.expect("INDEX", 4)
    ctx.expect("CUTOFF", 2)
    ctx.expect("FLOW", 3)
    ctx.expect("NONETEST", 1)
    ctx.trust("GridBase.distance is the grid's periodic metric; scipy cdist applies the metric to every pair")
    ctx.assume("optimality/uniqueness of the matching for actual motions is not decided")
