"""C07 — tracks follow droplet identity.

  METRIC   overlaps() measures with grid.distance(coords='cartesian') when a grid is
           given and with the Euclidean norm otherwise, and has no other exit; the
           overlap matcher forwards the grid and compares against each alive track's
           last droplet; the distance matcher's cdist metric is the periodic metric;
  STRICT   two droplets overlap iff distance < r1 + r2 (strict);
  CONT     a droplet continues a track iff exactly one alive track overlaps it;
  GREEDY   links = repeated global arg-min of the remaining distance matrix;
  INDEX    row/column invalidation of every link;
  CUTOFF   distances > max_dist are removed before matching (default: no cut-off);
  FLOW     alive tracks are those that ended at the previous frame (t_last on all paths).
"""

from __future__ import annotations

import ast

from ..astutil import U, view, arg_or_kw, kwarg, stmt_index, compare_parts
from ..core import Ctx
from ..rules import tracking

DROP = "droplets.droplets"


def check_overlaps(ctx: Ctx):
    m = ctx.model
    fi = m.func(f"{DROP}.SphericalDroplet.overlaps")
    fv = view(m, fi)
    si = stmt_index(fv)
    site = fi.qualname
    other, grid = fi.params[1], fi.params[2]
    rets = [n.stmt for n in fv.return_nodes()]
    # single exit: return distance < self.radius + other.radius
    ok_single = len(rets) == 1
    ctx.decide(ok_single, "METRIC", site + ":single-exit", (fi, rets[1]) if len(rets) > 1 else fi,
               "the verdict is taken only after the distance was measured in the selected metric",
               f"overlaps() has {len(rets)} return statements: a verdict is produced without (or before) measuring the distance in the grid's periodic metric, e.g. `{U(rets[0])[:70]}`")
    ret = rets[-1]
    cp = compare_parts(ret.value) if isinstance(ret.value, ast.Compare) else None
    dn = None
    if cp:
        l, op, r = cp
        from ..algebra import Converter, Expr, NotAlgebraic

        try:
            rr = Converter().conv(r if isinstance(op, ast.Lt) else l)
            want = Expr.atom("self.radius") + Expr.atom(f"{other}.radius")
            side = l if isinstance(op, ast.Lt) else r
            ok = isinstance(op, (ast.Lt, ast.Gt)) and rr == want and isinstance(side, ast.Name)
            dn = side.id if isinstance(side, ast.Name) else None
        except NotAlgebraic:
            ok = False
    else:
        ok = False
    ctx.decide(ok, "STRICT", site, (fi, ret), "overlap ⇔ distance < r1 + r2 (strict)",
               f"`{U(ret.value)}`: two droplets overlap exactly when their centre distance is strictly smaller than the sum of the radii")
    if dn is None:
        return
    # the two definitions of the distance
    defs = [s for s in fv.statements() if isinstance(s, ast.Assign) and U(s.targets[0]) == dn]
    got = {}
    for s in defs:
        pol = None
        for t, p in si.guards(s):
            c2 = compare_parts(t)
            if c2 and U(c2[0]) == grid and isinstance(c2[2], ast.Constant) and c2[2].value is None:
                pol = p if isinstance(c2[1], ast.Is) else (not p if isinstance(c2[1], ast.IsNot) else None)
        got[pol] = s
    ok_e = True in got and U(got[True].value).replace("float(", "").rstrip(")") .startswith("np.linalg.norm(self.position - %s.position" % other)
    ok_e = ok_e or (True in got and U(got[True].value) in (f"float(np.linalg.norm(self.position - {other}.position))", f"np.linalg.norm(self.position - {other}.position)",
                                                       f"float(np.linalg.norm({other}.position - self.position))"))
    okg = False
    if False in got:
        v = got[False].value
        okg = isinstance(v, ast.Call) and isinstance(v.func, ast.Attribute) and v.func.attr == "distance" and U(v.func.value) == grid \
            and {U(a) for a in v.args[:2]} == {"self.position", f"{other}.position"} and isinstance(kwarg(v, "coords"), ast.Constant) and kwarg(v, "coords").value == "cartesian"
    ctx.decide(bool(ok_e and okg and set(got) == {True, False}), "METRIC", site, (fi, got.get(False, ret)),
               "distance = Euclidean norm without a grid, grid.distance(…, coords='cartesian') with one",
               f"distance definitions {[(k, U(v.value)[:60]) for k, v in got.items()]}: with a grid the periodic metric grid.distance(p1, p2, coords='cartesian') must be used, without one the Euclidean norm")


def check_matcher_metric(ctx: Ctx):
    m = ctx.model
    outer, ms = tracking.matchers(ctx)
    fi = ms["overlap"]
    fv = view(m, fi)
    calls = [c for c in fv.calls() if isinstance(c.func, ast.Attribute) and c.func.attr == "overlaps"]
    site = fi.qualname + "[overlap]:overlaps"
    if len(calls) != 1:
        ctx.violate("METRIC", site, fi, f"expected one overlaps() test against the alive tracks, found {len(calls)}")
    else:
        c = calls[0]
        g = arg_or_kw(c, 1, "grid")
        ok = g is not None and U(g) == "grid" and U(c.func.value).endswith(".last")
        ctx.decide(ok, "METRIC", site, (fi, c), "overlap with the last droplet of each alive track, measured with the supplied grid",
                   f"`{U(c)}`: the overlap test must compare with the track's last droplet and forward `grid=grid` (periodic metric)")
    fi = ms["distance"]
    fv = view(m, fi)
    si = stmt_index(fv)
    site = fi.qualname + "[distance]:metric"
    cd = [c for c in fv.calls() if (fv.callee(c) or "").endswith("distance.cdist")]
    if len(cd) != 1:
        ctx.undecided("METRIC", site, fi, "no cdist call")
        return
    mk = kwarg(cd[0], "metric")
    if mk is None or not isinstance(mk, ast.Name):
        ctx.violate("METRIC", site, (fi, cd[0]), "cdist is called without the grid-dependent metric: periodic boundaries are ignored")
        return
    defs = [s for s in fv.statements() if isinstance(s, (ast.Assign, ast.AnnAssign)) and U(s.targets[0] if isinstance(s, ast.Assign) else s.target) == mk.id]
    got = {}
    for s in defs:
        pol = None
        for t, p in si.guards(s):
            c2 = compare_parts(t)
            if c2 and U(c2[0]) == "grid" and isinstance(c2[2], ast.Constant) and c2[2].value is None:
                pol = p if isinstance(c2[1], ast.Is) else (not p if isinstance(c2[1], ast.IsNot) else None)
        got[pol] = U(s.value)
    ok = got.get(True) == "'euclidean'" and got.get(False) in ("functools.partial(grid.distance, coords='cartesian')", "partial(grid.distance, coords='cartesian')")
    ctx.decide(ok, "METRIC", site, (fi, cd[0]), "cdist metric: 'euclidean' without a grid, grid.distance(coords='cartesian') with one",
               f"cdist metric is selected as {got}; with a grid it must be functools.partial(grid.distance, coords='cartesian')")


def check(ctx: Ctx):
    ctx.explain(
        "METRIC propagation rules at SphericalDroplet.overlaps and at both matchers; STRICT comparison shape in exact normal form; "
        "CONT single-overlap continuation; GREEDY/INDEX/CUTOFF shape rules of the distance matcher; FLOW rules of the frame loop."
    )
    check_overlaps(ctx)
    check_matcher_metric(ctx)
    tracking.check_overlap_matcher(ctx, rules=("CONT",))
    tracking.check_distance_matcher(ctx, rules=("GREEDY", "INDEX", "CUTOFF"))
    tracking.check_main_loop(ctx, rules=("FLOW",))
    ctx.expect("METRIC", 4)
    ctx.expect("STRICT", 1)
    ctx.expect("CONT", 1)
    ctx.expect("GREEDY", 1)
    ctx.expect("INDEX", 4)
    ctx.expect("CUTOFF", 2)
    ctx.expect("FLOW", 3)
    ctx.trust("GridBase.distance is the grid's periodic metric; scipy cdist applies the metric to every pair")
    ctx.assume("optimality/uniqueness of the matching for actual motions is not decided")
