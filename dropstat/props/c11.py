"""C11 — merging droplets conserves volume and centre of mass.

TERM: the merge kernel's stores as terms over the uninterpreted converters, in exact
normal form; ALIAS: no operand field is read after the same field of ``out`` was
written (in-place merge aliases ``out`` with the first operand); SIBLING: in-place and
copy branches of ``merge`` call one kernel on the same operands; EFFECT: operands are
only written through ``out``; FORMULA supplies VfR∘RfV = id.
"""

from __future__ import annotations

import ast

from ..algebra import Converter, Expr, NotAlgebraic
from ..astutil import U, view, arg_or_kw, kwarg, names_in
from ..cfg import walk_no_nested
from ..core import Ctx
from ..model import dotted
from . import c12

DROP = "droplets.droplets"
SPH = "droplets.tools.spherical"


def closure_roles(ctx, outer_fi):
    """local name -> role for names bound in the factory to a converter factory call"""
    roles = {}
    for s in outer_fi.node.body:
        if isinstance(s, ast.Assign) and len(s.targets) == 1 and isinstance(s.targets[0], ast.Name) and isinstance(s.value, ast.Call):
            callee = ctx.model.callee(outer_fi.module, s.value) or ""
            d = dotted(s.value.func) or ""
            if callee.startswith(SPH + ".make_radius_from_volume"):
                roles[s.targets[0].id] = "RfV"
            elif callee.startswith(SPH + ".make_volume_from_radius"):
                roles[s.targets[0].id] = "VfR"
            elif d == "super._make_merge_data" or (isinstance(s.value.func, ast.Attribute) and s.value.func.attr == "_make_merge_data"):
                roles[s.targets[0].id] = "PARENT"
    return roles


def out_stores(kernel_fi, out_name):
    """[(field, stmt, value)] for out.F = v / out.F[...] = v"""
    res = []
    for s in ast.walk(kernel_fi.node):
        tgts = []
        if isinstance(s, ast.Assign):
            tgts = [(t, s.value) for t in s.targets]
        elif isinstance(s, ast.AugAssign):
            tgts = [(s.target, ast.BinOp(left=s.target, op=s.op, right=s.value))]
        for t, v in tgts:
            base = t
            while isinstance(base, ast.Subscript):
                base = base.value
            if isinstance(base, ast.Attribute) and isinstance(base.value, ast.Name) and base.value.id == out_name:
                res.append((base.attr, s, v))
    return res


def field_reads(node, names):
    """[(operand, field, node)] loads of <operand>.<field>"""
    out = []
    for n in ast.walk(node):
        if isinstance(n, ast.Attribute) and isinstance(n.ctx, ast.Load) and isinstance(n.value, ast.Name) and n.value.id in names:
            out.append((n.value.id, n.attr, n))
    return out


def check_kernel_spherical(ctx: Ctx):
    m = ctx.model
    outer = m.func(f"{DROP}.SphericalDroplet._make_merge_data")
    kern = m.func(f"{DROP}.SphericalDroplet._make_merge_data.merge_data")
    site = kern.qualname
    roles = closure_roles(ctx, outer)
    inv = {v: k for k, v in roles.items()}
    if "RfV" not in inv or "VfR" not in inv:
        ctx.violate("TERM", site + ":converters", outer,
                    f"the kernel's converters are not bound to make_radius_from_volume_nd_compiled / make_volume_from_radius_nd_compiled (found {roles})")
        return None
    ctx.hold("TERM", site + ":converters", outer, f"{inv['RfV']} ← make_radius_from_volume*, {inv['VfR']} ← make_volume_from_radius*")
    p = kern.params
    if len(p) != 3:
        ctx.violate("TERM", site + ":signature", kern, f"kernel must take (drop1, drop2, out); has {p}")
        return None
    d1, d2, out = p
    fv = view(m, kern)
    stores = out_stores(kern, out)
    fields = {}
    for f, s, v in stores:
        fields.setdefault(f, []).append((s, v))
    extra = set(fields) - {"radius", "position"}
    if extra:
        ctx.info("TERM", site + ":extra-stores", kern, f"additional fields written: {sorted(extra)}")

    def conv_ast(ex):
        def hook(cv, call, name):
            fn = dotted(call.func)
            if fn in roles and roles[fn] in ("RfV", "VfR"):
                args = [cv._arg(a) for a in call.args]
                return Expr.atom(f"{roles[fn]}({', '.join(args)})")
            if name and name.endswith("len") and len(call.args) == 1:
                a = cv._arg(call.args[0])
                if a in (f"{d1}.position", f"{d2}.position"):
                    return Expr.atom("D")
                return Expr.atom(f"len({a})")
            return None

        return Converter(call_hook=hook, opaque_calls=False).conv(ex)

    def swapped(ex):
        import copy

        class Sw(ast.NodeTransformer):
            def visit_Name(self, n):
                if n.id == d1:
                    return ast.copy_location(ast.Name(id=d2, ctx=n.ctx), n)
                if n.id == d2:
                    return ast.copy_location(ast.Name(id=d1, ctx=n.ctx), n)
                return n

        return conv_ast(Sw().visit(copy.deepcopy(ex)))

    # ---- radius / position
    for fld in ("radius", "position"):
        lst = fields.get(fld, [])
        if not lst:
            ctx.violate("TERM", f"{site}:out.{fld}", kern, f"no store to out.{fld}")
            continue
        # every path through the kernel must perform a store to this field
        if not all_paths_pass(fv, [fv.node_of(s) for s, _ in lst]):
            ctx.violate("FLOW", f"{site}:out.{fld}", (kern, lst[0][0]), f"some path through the kernel returns without writing out.{fld} (volume/centre lost on that path)")
        else:
            ctx.hold("FLOW", f"{site}:out.{fld}", (kern, lst[0][0]), f"every path writes out.{fld}")
        for k, (s, v) in enumerate(lst):
            tag = f"{site}:out.{fld}" + (f"#{k}" if len(lst) > 1 else "")
            try:
                ex = fv.expand(v, s, stop=(d1, d2, out))
                e = conv_ast(ex)
            except NotAlgebraic as exc:
                clamp = [c_ for c_ in ast.walk(ex if "ex" in dir() else v) if isinstance(c_, ast.Call) and U(c_.func).split(".")[-1] in ("max", "min", "maximum", "minimum", "clip", "fmax", "fmin")]
                if clamp:
                    # a clamped operand: below / above the clamp the stored value is not the conserved quantity (positive volumes of any
                    # size are in the domain: micrometre droplets in metres have volumes far below machine epsilon)
                    ctx.violate("TERM", tag, (kern, s), f"`{U(v)[:80]}` clamps an operand (`{U(clamp[0])[:40]}`): for values beyond the clamp the stored {fld} is not the "
                                "volume-additive radius / volume-weighted mean position — e.g. a total volume below the clamp scales the merged centre towards the origin")
                else:
                    ctx.undecided("TERM", tag, (kern, s), f"store not algebraic: {exc}: {U(v)}")
                continue
            shown = e.show()
            V1, V2 = Expr.atom(f"VfR({d1}.radius, D)"), Expr.atom(f"VfR({d2}.radius, D)")
            if fld == "radius":
                inner = (V1 + V2).show()
                ok = e == Expr.atom(f"RfV({inner}, D)")
                ctx.decide(ok, "TERM", tag, (kern, s),
                           "out.radius = RfV(VfR(r1)+VfR(r2)) — volume additive by construction",
                           f"out.radius is not RfV(VfR(r1, d) + VfR(r2, d), d): {shown}")
            else:
                p1, p2 = Expr.atom(f"{d1}.position"), Expr.atom(f"{d2}.position")
                want = (V1 * p1 + V2 * p2) * (V1 + V2).inverse()
                ctx.decide(e == want, "TERM", tag, (kern, s),
                           "out.position = (V1·p1 + V2·p2)/(V1+V2) — volume-weighted mean",
                           f"out.position is not the volume-weighted mean of the operand positions: {shown}")
            es = swapped(ex)
            ctx.decide(es == e, "TERM-SYM", tag, (kern, s), "normal form invariant under swapping the operands",
                       f"result depends on operand order: {shown} vs swapped {es.show()}")
    alias_check(ctx, kern, d1, d2, out, parent_fields=set())
    return roles


def all_paths_pass(fv, nodes) -> bool:
    """True when every entry→normal-exit path passes one of ``nodes``."""
    block = {n for n in nodes if n is not None}
    seen, work = set(), [fv.cfg.entry]
    while work:
        n = work.pop()
        if n in seen or n in block:
            continue
        seen.add(n)
        if n is fv.cfg.exit:
            return False
        work.extend(m for m, lab in n.succ if lab != "exc")
    return True


def alias_check(ctx: Ctx, kern, d1, d2, out, parent_fields):
    """No field of an operand is read after the same field of out was written."""
    m = ctx.model
    fv = view(m, kern)
    site = kern.qualname
    written_at = []  # (field, cfg node)
    for f, s, v in out_stores(kern, out):
        written_at.append((f, fv.node_of(s), s))
    # a call that forwards (drop1, drop2, out) to the parent kernel writes the parent's fields
    for c in fv.calls():
        if isinstance(c.func, ast.Name) and any(isinstance(a, ast.Name) and a.id == out for a in c.args) and parent_fields:
            for f in parent_fields:
                written_at.append((f, fv.node_of(c), c))
    bad = []
    reach_cache = {}

    def reachable_from(n):
        if n not in reach_cache:
            seen, work = set(), [x for x, _ in n.succ]
            while work:
                y = work.pop()
                if y in seen:
                    continue
                seen.add(y)
                work.extend(z for z, _ in y.succ)
            reach_cache[n] = seen
        return reach_cache[n]

    for node in fv.cfg.nodes:
        if node.stmt is None:
            continue
        for root in fv._roots(node):
            for opnd, fld, rd in field_reads(root, {d1, d2}):
                for wf, wn, ws in written_at:
                    if wf == fld and wn is not None and node in reachable_from(wn) and node is not wn:
                        bad.append((opnd, fld, rd, ws))
    if bad:
        opnd, fld, rd, ws = bad[0]
        ctx.violate("ALIAS", site, (kern, rd), f"{opnd}.{fld} is read after out.{fld} was written ({U(ws)[:60]}); with out aliasing the operand (in-place merge) the result differs from the out-of-place merge")
    else:
        ctx.hold("ALIAS", site, kern, f"no operand field is read after the same field of out is written ({len(written_at)} write(s))")
    # EFFECT: stores only through out
    others = []
    for s in ast.walk(kern.node):
        tg = []
        if isinstance(s, ast.Assign):
            tg = s.targets
        elif isinstance(s, ast.AugAssign):
            tg = [s.target]
        for t in tg:
            base = t
            while isinstance(base, (ast.Subscript, ast.Attribute)):
                base = base.value
            if isinstance(t, (ast.Subscript, ast.Attribute)) and isinstance(base, ast.Name) and base.id in (d1, d2):
                others.append(s)
    ctx.decide(not others, "EFFECT", site + ":operands", (kern, others[0]) if others else kern,
               "the kernel writes only through out", f"kernel writes through an operand: {U(others[0]) if others else ''}")


def check_kernel_diffuse(ctx: Ctx):
    m = ctx.model
    outer = m.func(f"{DROP}.DiffuseDroplet._make_merge_data")
    kern = m.func(f"{DROP}.DiffuseDroplet._make_merge_data.merge_data")
    site = kern.qualname
    roles = closure_roles(ctx, outer)
    parent = [k for k, v in roles.items() if v == "PARENT"]
    p = kern.params
    if len(p) != 3:
        ctx.violate("TERM", site + ":signature", kern, f"kernel must take (drop1, drop2, out); has {p}")
        return
    d1, d2, out = p
    fv = view(m, kern)
    # parent kernel is applied to the same operands
    ok = False
    for c in fv.calls():
        if isinstance(c.func, ast.Name) and c.func.id in parent:
            args = [a.id if isinstance(a, ast.Name) else None for a in c.args]
            ok = args == [d1, d2, out] and not c.keywords
            call = c
    ctx.decide(ok, "SIBLING", site + ":parent", kern, "calls the parent kernel with (drop1, drop2, out)",
               "the parent (spherical) merge kernel is not applied to (drop1, drop2, out)")
    stores = [(f, s, v) for f, s, v in out_stores(kern, out) if f == "interface_width"]
    if len(stores) != 1:
        ctx.violate("TERM", site + ":out.interface_width", kern, f"expected one store to out.interface_width, found {len(stores)}")
    else:
        f, s, v = stores[0]
        try:
            e = Converter(opaque_calls=True).conv(fv.expand(v, s, stop=(d1, d2, out)))
            want = (Expr.atom(f"{d1}.interface_width") + Expr.atom(f"{d2}.interface_width")) * Expr.const(2).inverse()
            ctx.decide(e == want, "TERM", site + ":out.interface_width", (kern, s), "mean of the two widths",
                       f"out.interface_width is not (w1 + w2)/2: {e.show()}")
        except NotAlgebraic as exc:
            ctx.undecided("TERM", site + ":out.interface_width", (kern, s), str(exc))
    alias_check(ctx, kern, d1, d2, out, parent_fields={"radius", "position"})


def check_merge_dispatch(ctx: Ctx):
    m = ctx.model
    fi = m.func(f"{DROP}.DropletBase.merge")
    fv = view(m, fi)
    site = fi.qualname
    other = fi.params[1] if len(fi.params) > 1 else "other"
    from ..astutil import specialize, count_on_normal_paths

    # the method is analysed once for inplace=True and once for inplace=False (the flag's tests folded away)
    if "inplace" not in fi.all_params:
        ctx.violate("SIBLING", site, fi, "merge has no `inplace` flag")
        return
    fiT, fvT = specialize(m, fi, {"inplace": True})
    fiF, fvF = specialize(m, fi, {"inplace": False})
    callsT = [c for c in fvT.calls() if isinstance(c.func, ast.Attribute) and c.func.attr == "_merge_data"]
    callsF = [c for c in fvF.calls() if isinstance(c.func, ast.Attribute) and c.func.attr == "_merge_data"]
    if len(callsT) != 1 or len(callsF) != 1:
        ctx.violate("SIBLING", site, fi, f"expected the in-place and the copy branch to call self._merge_data once each; found {len(callsT)} call(s) for inplace=True and {len(callsF)} for inplace=False")
        return
    a, b = callsT[0], callsF[0]
    exa = [U(fvT.expand(x, a, stop=("self", other))) for x in a.args[:2]]
    exb = [U(fvF.expand(x, b, stop=("self", other))) for x in b.args[:2]]
    same = U(a.func) == U(b.func) and exa == exb and len(a.args) == len(b.args)
    opnds = exa == ["self.data", f"{other}.data"]
    ctx.decide(same and opnds, "SIBLING", site + ":kernel", (fi, a), "both branches call self._merge_data(self.data, other.data, out=…)",
               f"branches differ: {U(a)} vs {U(b)}")
    # in-place: out is self.data, returns self
    oa = arg_or_kw(a, 2, "out")
    ret_in = [n.stmt for n in fvT.return_nodes()]
    ok = oa is not None and U(fvT.expand(oa, a, stop=("self", other))) == "self.data" and len(ret_in) == 1 and ret_in[0].value is not None and U(fvT.expand(ret_in[0].value, ret_in[0], stop=("self", other))) == "self"
    ctx.decide(ok, "SIBLING", site + ":inplace", (fi, a), "in-place branch writes into self.data and returns self",
               f"in-place branch: out={U(oa) if oa is not None else None}")
    # copy branch: out fresh, returned object built from it
    ob = arg_or_kw(b, 2, "out")
    fresh = False
    detail = ""
    if isinstance(ob, ast.Name):
        r = fvF.single_def_value(ob.id, b)
        if r is not None:
            val = r[0]
            detail = U(val)
            fresh = isinstance(val, ast.Call) and not _aliases(val, {"self", other})
    ret_cp = [n.stmt for n in fvF.return_nodes()]
    built = False
    if len(ret_cp) == 1 and isinstance(ob, ast.Name) and ret_cp[0].value is not None:
        rc = fvF.expand(ret_cp[0].value, ret_cp[0], stop=("self", other, ob.id))
        if isinstance(rc, ast.Call):
            built = isinstance(rc.func, ast.Attribute) and rc.func.attr == "from_data" and any(isinstance(x, ast.Name) and x.id == ob.id for x in rc.args)
            built = built and U(rc.func.value) in ("self.__class__", "type(self)", "self")
    ctx.decide(fresh and built, "EFFECT", site + ":copy", (fi, b),
               "out-of-place branch merges into a fresh record and returns a new droplet of the same class built from it",
               f"out-of-place branch: out ← {detail or U(ob) if ob is not None else None}; fresh={fresh}, returned-from-out={built}")
    # operands are only modified on request: merging without the keyword must take the out-of-place branch
    dflt = fi.default_of("inplace")
    ctx.decide(isinstance(dflt, ast.Constant) and dflt.value is False, "EFFECT", site + ":default", fi, "inplace defaults to False: a plain merge leaves both operands unmodified",
               f"`inplace` defaults to {U(dflt) if dflt is not None else 'nothing (required)'}: a plain `a.merge(b)` overwrites `a`, so operands are modified without in-place merging being requested "
               "(and nested merges a.merge(b.merge(c)) / a.merge(b).merge(c) no longer conserve volume)")
    # the kernel stored on the class is the one the factory returns
    isc = m.func(f"{DROP}.DropletBase.__init_subclass__")
    ok = False
    for s in ast.walk(isc.node):
        if isinstance(s, ast.Assign) and any(U(t) == "cls._merge_data" for t in s.targets):
            ok = any(isinstance(c, ast.Call) and U(c.func) == "cls._make_merge_data" for c in ast.walk(s.value))
    ctx.decide(ok, "SIBLING", isc.qualname + ":kernel-binding", isc, "cls._merge_data = staticmethod(cls._make_merge_data())",
               "the class-level kernel is not the function produced by cls._make_merge_data()")


def _aliases(call: ast.Call, names) -> bool:
    """A value that may alias storage of one of ``names``: bare attribute access,
    no allocating call around it."""
    ALLOC = {"zeros_like", "empty_like", "copy", "zeros", "empty", "array", "record", "ones_like", "full_like"}
    fn = call.func.attr if isinstance(call.func, ast.Attribute) else (call.func.id if isinstance(call.func, ast.Name) else "")
    if fn in ("zeros_like", "empty_like", "zeros", "empty", "copy", "ones_like", "full_like", "array"):
        return False
    if fn in ("record", "asarray", "asanyarray", "recarray", "view"):
        # wrapper: fresh only if its argument is fresh
        if call.args and isinstance(call.args[0], ast.Call):
            return _aliases(call.args[0], names)
        return True
    return bool(names_in(call) & set(names))


def check(ctx: Ctx):
    ctx.explain(
        "TERM: stores of the merge kernels evaluated as terms over the uninterpreted converters VfR/RfV in exact "
        "AC-normal form: out.radius = RfV(VfR(r1)+VfR(r2)), out.position = (V1·p1+V2·p2)/(V1+V2), width = (w1+w2)/2; "
        "TERM-SYM: normal form invariant under swapping operands; ALIAS: no read of an operand field after the write of "
        "the same field of `out` (out aliases operand 1 in-place); SIBLING/EFFECT on DropletBase.merge; FORMULA: the "
        "converters used are exact mutual inverses per dimension (shared with C12)."
    )
    from ..rules import support as _sup_r11

    _sup_r11.check_flag_tests(ctx, ("droplets.droplets.DropletBase.merge",))
    # a droplet that went through pickle (a worker process, a saved session) is still writeable: in-place merging writes its record
    from . import c15 as _c15_r12

    _c15_r12.check_pickle_writable(ctx)
    ctx.expect("FLAGTEST", 1)
    check_kernel_spherical(ctx)
    check_kernel_diffuse(ctx)
    check_merge_dispatch(ctx)
    from ..rules import support, nonetest
    from .c08 import _width_setter

    support.check_field_types(ctx)
    # the merged width is the mean of the operands' *stored* widths: the setter must store 0 as 0
    nonetest.check(ctx, _width_setter(ctx.model), "value", "the interface width")
    ctx.expect("LAYOUT", 3)
    ctx.expect("NONETEST", 1)
    table = c12.formulas(ctx)
    c12.identities(ctx, table)
    ctx.expect("TERM", 4)
    ctx.expect("TERM-SYM", 2)
    ctx.expect("ALIAS", 2)
    ctx.expect("FLOW", 2)
    ctx.expect("SIBLING", 4)
    ctx.expect("EFFECT", 3)
    ctx.expect("FORMULA", 24)
    ctx.trust("IEEE-754 + and * are commutative (operand-order independence)", "numba register_jitable does not change semantics")
    ctx.assume("floating-point associativity over many merges is not decided")
