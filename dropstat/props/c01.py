"""C01 — locating a rendered emulsion returns each droplet once, with exact volume.

Structural necessary conditions on every path of the four position pipelines:
  FRAME     array-index → cell (+0.5) → grid frame discipline at every coordinate
            conversion (centre within half a spacing needs it: an index-frame position is
            biased by exactly half a cell);
  DIM       cluster volume = cell count × product of the per-axis spacings (cylinders:
            sum of the cells' own volumes): volume equals the covered cells' volume on
            anisotropic grids;
  FLOW      positions pass normalize_point after merging and before construction
            (inside the bounds on periodic axes); constructions use the cluster's own
            position and volume;
  MERGE     periodic merge: upper cluster shifted by exactly one period (in cells), the
            only in-loop modification; volume-weighted mean; volumes add;
  WINDOW    exactly one periodic image is kept on cylinders (half-open interval);
  PADSHIFT  padding (cells × spacing) equals the back-shift for every cell count;
  rendering: DIST/METRIC (periodic distance from the centre), SHARP (strict indicator),
  SUMCLIP (every droplet rendered once, unconditionally), FORMULA (volume ↔ radius).
"""

from __future__ import annotations

from ..core import Ctx
from ..rules import locate, render
from . import c12


def check(ctx: Ctx):
    ctx.explain(
        "FRAME typestate over the locators' coordinate conversions, DIM/FLOW/MERGE/WINDOW/PADSHIFT shape rules with exact normal forms for the "
        "weighted mean and the padding/shift ratio, renderer rules for the images being located, and the exact volume↔radius formulas."
    )
    locate.check_frames(ctx)
    # every grid of a family must reach the anchored locator of that family: a second locator for "simple" grids by-passes the
    # periodic merging and the wrap into the box for grids it was not meant for (e.g. mixed periodicity)
    from . import c09 as _c09
    from ..rules import support

    support.compose(ctx, _c09.check_grid_dispatch, keep=("EXHAUST",))
    locate.check_cartesian_flow(ctx)
    locate.check_cartesian_volume(ctx)
    locate.check_merge(ctx)
    support.check_axis_loop_guards(ctx)
    locate.check_cylindrical(ctx)
    locate.check_spherical(ctx)
    locate.check_label_connectivity(ctx)
    locate.check_dedup_metric(ctx)
    for cname in ("SphericalDroplet", "DiffuseDroplet"):
        render.check_renderer(ctx, cname, rules=("DIST", "SHARP"))
    render.check_polar(ctx, rules=("METRIC",))
    render.check_sum_clip(ctx)
    # duplicates from periodic images are removed by remove_overlapping(grid=grid): its distance matrix must use the
    # grid's periodic metric on the (Cartesian) droplet positions
    from ..rules import collections as col

    sub = Ctx(ctx.model, ctx.prop, ctx.tier)
    col.check_pairwise(sub)
    # … and the surface distance it compares (centre distance minus *both* radii, symmetric): a wrong entry lets the
    # duplicate filter drop a genuine small droplet next to a large one
    ctx.findings.extend(f for f in sub.findings if f.rule in ("METRIC", "SURFACE", "SYMM"))
    ctx.functions |= sub.functions
    table = c12.formulas(ctx)
    c12.identities(ctx, table)
    locate.check_origin_cluster_kept(ctx)
    ctx.expect("FRAME", 3)
    ctx.expect("EXHAUST", 4)
    ctx.expect("CONNECT", 3)
    ctx.expect("DIM", 3)
    ctx.expect("FLOW", 6)
    ctx.expect("MERGE", 6)
    ctx.expect("WINDOW", 2)
    ctx.expect("PADSHIFT", 1)
    ctx.expect("DIST", 2)
    ctx.expect("SHARP", 2)
    ctx.expect("METRIC", 4)
    ctx.expect("SUMCLIP", 3)
    ctx.expect("SURFACE", 1)
    ctx.expect("SYMM", 1)
    ctx.expect("FORMULA", 24)
    ctx.trust("scipy.ndimage.center_of_mass returns array-index positions (cell i ↦ i); slice .start/.stop are cell-boundary coordinates",
              "GridBase.transform(x, src, dst) / normalize_point frames; 'cell' coordinates have cell centres at i + 0.5",
              "py-pde's own periodic rendering on cylindrical grids (CylindricalSymGrid.difference_vector) is outside the repository")
    ctx.assume("the count of returned droplets and the half-cell theorem itself are not decided")
