"""C17 — length scales are physical lengths: they scale with the grid, not the field.

A dimensionally homogeneous computation is covariant under a change of units.  DIM decides,
on every method branch, that each operation on the way to the result is homogeneous and that
the result has unit length¹·amplitude⁰·count⁰ (AFFINE: grid-boundary coordinates only enter
as differences, so translating the grid changes nothing).  EXHAUST/VOLUME/PEAK are the
structural clauses; FRAME/MERGE/FLOW/THRESH: the droplet count inherits the cell-vs-length discipline of the Cartesian locator and
the relative threshold rules (per-axis wave vectors of the spectrum, method dispatch, box volume per droplet over the free axes, peak search
that skips k = 0 consistently).  The structure factor's own units are decided as in C16.
"""

from __future__ import annotations

import ast

from ..core import Ctx
from ..rules import spectrum


def check(ctx: Ctx):
    ctx.explain("DIM unit inference along every path to the returned length scale on all three method branches (with the units of get_structure_factor decided from its source), plus EXHAUST/VOLUME/PEAK.")
    sub = Ctx(ctx.model, ctx.prop, ctx.tier)
    spectrum.check_sf_units(sub)
    spectrum.check_sf_structure(sub)
    for f in sub.findings:
        if f.rule in ("DIM", "AFFINE", "INDEXAGREE", "RAWDATA"):
            ctx.findings.append(f)
    ctx.functions |= sub.functions
    # the droplet count: unit discipline of the Cartesian locator (cells vs lengths) and the relative threshold rules
    from ..rules import locate
    from . import c18

    sub2 = Ctx(ctx.model, ctx.prop, ctx.tier)
    locate.check_frames(sub2)
    locate.check_cartesian_flow(sub2)
    locate.check_merge(sub2)
    c18.check_thresholds(sub2)
    locate.check_label_connectivity(sub2)
    locate.check_dedup_metric(sub2)
    for f in sub2.findings:
        if f.rule in ("FRAME", "FLOW", "MERGE", "THRESH", "GUARDSHAPE", "CONNECT", "METRIC"):
            ctx.findings.append(f)
    ctx.functions |= sub2.functions
    spectrum.check_accumulator_dtype(ctx, ("droplets.image_analysis.get_structure_factor", "droplets.image_analysis.get_length_scale"))
    # the droplet count passes the size filter of locate_droplets: its test is the exact comparison radius <= min_radius (an
    # absolute tolerance such as np.isclose's 1e-8 removes every droplet once lengths are measured in small units)
    from ..rules import collections as _col17

    _col17.check_safe_removal(ctx, "droplets.emulsions.Emulsion.remove_small", "radius", (ast.LtE,), "radius <= min_radius", param="min_radius")
    spectrum.check_mode_order_in_length_scale(ctx)
    # the droplet count passes the duplicate filter of the Cartesian locator: which droplet of an overlapping chain survives must
    # not depend on the order in which the clusters were numbered (closest pair first, smaller one removed), or the count changes
    # when the periodic box is cut elsewhere
    from ..rules import support as _support

    _support.compose(ctx, _col17.check_remove_overlapping, keep=("GUARDSHAPE", "EFFECT", "PAIR"))
    _support.check_axis_loop_guards(ctx)
    _support.check_single_result(ctx)
    _support.check_popped_default(ctx, "droplets.image_analysis.get_length_scale", "smoothing")
    _support.compose(ctx, locate.check_dedup_metric, keep=("METRIC",), site_filter=lambda s_: s_.endswith(":min-distance"))
    # the duplicate filter measures distances with Emulsion.get_pairwise_distances(grid=…): its periodic metric must be the grid's own
    # (a hand-written minimum image that wraps by the number of cells is right for unit spacing only, so the count changes with the spacing)
    _support.compose(ctx, _col17.check_pairwise, keep=("METRIC",))
    # the droplet-counting method hands the caller's options (threshold rule, minimal radius) to locate_droplets
    _support.check_kwargs_reach_call(ctx, "droplets.image_analysis.get_length_scale", "locate_droplets")
    from ..rules import support as _sup_r12b

    _sup_r12b.check_param_not_written(ctx, "droplets.image_analysis.threshold_otsu", "data")
    ctx.expect("FORWARD", 1)
    ctx.expect("GUARDSHAPE", 4)
    ctx.expect("EFFECT", 1)
    ctx.expect("PERMINV", 1)
    ctx.expect("REMOVE", 1)
    ctx.expect("DTYPE", 2)
    ctx.expect("FRAME", 4)
    ctx.expect("MERGE", 6)
    ctx.expect("THRESH", 5)
    ctx.expect("CONNECT", 3)
    ctx.expect("METRIC", 1)
    from ..rules import purity

    purity.check_stateless(ctx, ["droplets.image_analysis.get_length_scale"])
    ctx.expect("STATELESS", 40)
    seen = spectrum.check_ls_units(ctx)
    spectrum.check_ls_structure(ctx)
    ctx.expect("DIM", 6)
    ctx.expect("INDEXAGREE", 2)
    ctx.expect("RAWDATA", 4)
    ctx.expect("EXHAUST", 1)
    ctx.expect("VOLUME", 2)
    ctx.expect("PEAK", 2)
    ctx.trust("SmoothData1D(x, y, sigma): sigma in units of x; callable maps x-units to y-units", "scipy.optimize.minimize_scalar: result.x has the unit of the bracket",
              "numpy.fft.fftfreq(n, d) has unit 1/unit(d)")
    ctx.assume("half-bin accuracy of the peak method is not decided")
