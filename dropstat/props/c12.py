"""C12 — sphere volume / surface / radius conversions are mutually consistent.

FORMULA: every variant of every conversion, per dimension, as an exact monomial;
variants agree; inverse and derivative identities; droplet properties wired to them.
"""

from __future__ import annotations

import ast
import re

from ..algebra import Expr
from ..astutil import U, view, arg_or_kw
from ..core import Ctx
from ..model import Model, dotted, AnchorMissing
from ..rules import formula as F

SPH = "droplets.tools.spherical"
ROLE_RE = re.compile(r"^(?:make_)?(radius|volume|surface)_from_(radius|volume|surface)(?:_nd)?(?:_compiled)?$")
EXPECTED = {
    "radius_from_volume": 3,
    "volume_from_radius": 2,  # + py-pde's
    "surface_from_radius": 2,
    "radius_from_surface": 1,
}


def discover(model: Model):
    """role -> list[FuncInfo] of module-level converter functions/factories"""
    roles: dict = {}
    for q, lst in model.functions.items():
        if not q.startswith(SPH + ".") or q.count(".") != 3:
            continue
        fi = lst[0]
        m = ROLE_RE.match(fi.name)
        if m and m.group(1) != m.group(2):
            roles.setdefault(f"{m.group(1)}_from_{m.group(2)}", []).append(fi)
    return roles


def formulas(ctx: Ctx, rule="FORMULA"):
    """Evaluate all variants. Returns role -> dim -> Expr (agreed value)"""
    model = ctx.model
    roles = discover(model)
    for role, n in EXPECTED.items():
        if len(roles.get(role, [])) < n:
            raise AnchorMissing(f"expected at least {n} variant(s) of {role} in {SPH}, found {len(roles.get(role, []))}", rule)
    table: dict = {}
    variants: dict = {r: [(fi.qualname, fi, F.extract(model, fi)) for fi in lst] for r, lst in roles.items()}
    # py-pde's function is a further sibling of volume_from_radius
    pde = F.pde_volume_from_radius()
    if pde is not None:
        node, path, src = pde
        pm = Model({"pde/grids/spherical.py": src}, root="site-packages")
        pfi = pm.func("pde.grids.spherical.volume_from_radius")
        variants["volume_from_radius"].append(("pde.grids.spherical.volume_from_radius", None, F.extract(pm, pfi)))
        ctx.trust(f"py-pde source parsed from {path} (volume_from_radius is a sibling formula)")
    else:
        ctx.undecided(rule, "pde.grids.spherical.volume_from_radius", None, "py-pde source not found in /venv; sibling not compared")
    order = sorted(variants, key=lambda r: (r != "volume_from_radius", r))
    for role in order:
        vs = variants[role]
        table[role] = {}
        for name, fi, ex in vs:
            for v, why in ex.problems:
                if fi is not None:
                    # the converters are closed forms in (argument, π): a returned value that passes through anything else
                    # (rounding, clipping, a table, a scalar-only math function …) is not the exact formula for every input
                    ctx.violate(rule, f"{name}:closed-form", (fi, v), f"`{U(v)[:80]}` is not a closed-form expression of the argument ({why}): the variant no longer computes the exact "
                                "sphere formula for every (scalar or array) argument, so the variants disagree and the round trip is not the identity")
                else:
                    ctx.undecided(rule, f"{name}", v, f"return expression not evaluated: {why}: {U(v)}")
            for k, (call, okf, par) in enumerate(ex.fills):
                ctx.decide(okf, rule, f"{name}:constant-shape#{k}", (fi, call) if fi else call, f"the constant result has the shape of `{par}`",
                           f"`{U(call)}` does not have the shape of its argument `{par}` (element-wise converters return one value per input element, in the input's shape)")
            dims = sorted(ex.by_dim)
            want = {1, 2, 3} - ({1} if role == "radius_from_surface" else set())
            missing = want - set(dims)
            if missing and fi is not None:
                # no dimension chain: evaluate the generic expression for every dimension, inlining sibling converters
                gen = generic_eval(ctx, fi, table, sorted(missing), rule)
                for d, (e, node) in gen.items():
                    ex.by_dim.setdefault(d, []).append((e, node, "generic"))
                dims = sorted(ex.by_dim)
                missing = want - set(dims)
            if missing:
                ctx.undecided(rule, f"{name}:dims", fi, f"no closed form recognised for dimension(s) {sorted(missing)} (found {dims})")
            for d in dims:
                vals = ex.by_dim[d]
                first = vals[0][0]
                same = all(v[0] == first for v in vals)
                site = f"{name}:dim={d}"
                where = (fi, vals[0][1]) if fi else vals[0][1]
                if not same:
                    ctx.violate(rule, site, where, "branches of one variant disagree: " + " vs ".join(sorted({v[0].show() for v in vals})))
                    continue
                ref = table[role].get(d)
                if ref is None:
                    table[role][d] = (first, name)
                    anchor = F.reference(role, d)
                    if anchor is not None and anchor != first:
                        ctx.violate(rule, site, where, f"{role}(x, dim={d}) = {first.show()} but the {d}-ball has {anchor.show()}")
                    else:
                        ctx.hold(rule, site, where, f"= {first.show()}")
                elif ref[0] == first:
                    ctx.hold(rule, site, where, f"= {first.show()} (agrees with {ref[1]})")
                else:
                    ctx.violate(rule, site, where, f"{first.show()} differs from sibling {ref[1]}: {ref[0].show()}")
    zero_rule(ctx, variants)
    arg_rule(ctx, variants)
    generic_compile_rule(ctx)
    return {r: {d: v[0] for d, v in dd.items()} for r, dd in table.items()}


def _impl_of(fi):
    """(function node, argument name, dimension name) of the implementation that takes (x, dim): the converter itself
    or, for a dimension-generic factory, the nested function it returns"""
    node = fi.node
    if fi.name.startswith("make_"):
        inner = [n for n in node.body if isinstance(n, ast.FunctionDef) and len(n.args.args) >= 2]
        if len(inner) != 1:
            return None
        node = inner[0]
    ps = [a.arg for a in node.args.args]
    if len(ps) < 2:
        return None
    return node, ps[0], ps[1]


def _eval_block(stmts, env, conv, depth=0):
    """Straight-line partial evaluation of a function body under ``env`` (name -> Expr): assignments extend the
    environment, if-chains whose test compares a constant-valued name with a literal are decided, the value of the first
    return reached is the result.  Anything else is NotAlgebraic."""
    from ..algebra import NotAlgebraic

    for s in stmts:
        if isinstance(s, ast.Expr) and isinstance(s.value, ast.Constant):
            continue  # docstring
        if isinstance(s, ast.Assign) and len(s.targets) == 1 and isinstance(s.targets[0], ast.Name):
            env[s.targets[0].id] = conv(s.value, env)
            continue
        if isinstance(s, ast.If):
            t = s.test
            dec = None
            if isinstance(t, ast.Compare) and len(t.ops) == 1 and isinstance(t.ops[0], (ast.Eq, ast.NotEq)):
                try:
                    a, b = conv(t.left, env), conv(t.comparators[0], env)
                except NotAlgebraic:
                    a = b = None
                if a is not None and not a.atoms() and not b.atoms():
                    dec = (a == b) if isinstance(t.ops[0], ast.Eq) else (a != b)
            if dec is None and isinstance(t, ast.Compare) and len(t.ops) == 1 and isinstance(t.ops[0], (ast.In, ast.NotIn)) and isinstance(t.comparators[0], (ast.Set, ast.Tuple, ast.List)):
                try:
                    a = conv(t.left, env)
                    members = [conv(e_, env) for e_ in t.comparators[0].elts]
                    if not a.atoms() and not any(x.atoms() for x in members):
                        dec = any(a == x for x in members)
                        if isinstance(t.ops[0], ast.NotIn):
                            dec = not dec
                except NotAlgebraic:
                    pass
            if dec is None:
                raise NotAlgebraic(f"undecided test {U(t)[:40]}")
            r = _eval_block(s.body if dec else s.orelse, env, conv, depth)
            if r is not None:
                return r
            continue
        if isinstance(s, ast.Return) and s.value is not None:
            return conv(s.value, env), s.value
        if isinstance(s, ast.Raise):
            raise NotAlgebraic("raises")
        raise NotAlgebraic(type(s).__name__)
    return None


def generic_eval(ctx, fi, table, dims, rule):
    """converter (or nested implementation of a dimension-generic factory) without a complete dimension chain: evaluate it
    per dimension with the dimension substituted, calls to sibling converters replaced by their closed form and calls to
    other functions of the package evaluated the same way (helper functions such as a unit-sphere-volume table)"""
    from ..algebra import Converter, NotAlgebraic

    m = ctx.model
    out = {}
    impl = _impl_of(fi)
    if impl is None:
        return out
    node, par, dimname = impl
    for d in dims:
        def conv(expr, env, d=d, depth=[0]):
            def hook(cv, call, name):
                short = (name or "").split(".")[-1]
                mm = ROLE_RE.match(short)
                if mm and mm.group(1) != mm.group(2) and call.args:
                    role = f"{mm.group(1)}_from_{mm.group(2)}"
                    val = table.get(role, {}).get(d)
                    if val is not None:
                        return val[0].subst(F.X, cv.conv(call.args[0]))
                    return None
                if name and m.has_func(name) and depth[0] < 3 and not call.keywords:
                    h = m.func(name)
                    if isinstance(h.node, ast.FunctionDef) and len(h.node.args.args) == len(call.args):
                        sub = {a.arg: cv.conv(x) for a, x in zip(h.node.args.args, call.args)}
                        depth[0] += 1
                        try:
                            r = _eval_block(h.node.body, sub, conv)
                        finally:
                            depth[0] -= 1
                        if r is not None:
                            return r[0]
                return None

            return Converter(resolve_dotted=lambda t: m.resolve(fi.module, t) or t, env=dict(env), opaque_calls=False, call_hook=hook).conv(expr)

        try:
            r = _eval_block(node.body, {par: Expr.atom(F.X), dimname: Expr.const(d)}, conv)
        except NotAlgebraic:
            continue
        if r is None:
            continue
        out[d] = r
        # ZERO: the property quantifies over arguments >= 0
        for n in ast.walk(r[1]):
            if isinstance(n, ast.BinOp) and isinstance(n.op, ast.Div):
                try:
                    den = conv(n.right, {par: Expr.atom(F.X), dimname: Expr.const(d)})
                except NotAlgebraic:
                    continue
                if F.X in den.atoms():
                    ctx.violate("ZERO", f"{fi.qualname}:dim={d}", (fi, n), f"`{U(n)[:60]}` divides by the argument: undefined (0/0 → NaN or ZeroDivisionError) at {par} = 0, which the conversion must handle")
    return out


def zero_rule(ctx: Ctx, variants):
    """no variant divides by its argument (arguments >= 0 are in the domain)"""
    from ..algebra import Converter, NotAlgebraic

    n_ok = 0
    for role, vs in variants.items():
        for name, fi, ex in vs:
            if fi is None:
                continue
            bad = None
            for d, vals in ex.by_dim.items():
                for e, node, note in vals:
                    if note == "generic":
                        continue
                    par_names = {a.arg for f in ast.walk(fi.node) if isinstance(f, (ast.FunctionDef, ast.Lambda)) for a in f.args.args[:1]}
                    for n in ast.walk(node):
                        if isinstance(n, ast.BinOp) and isinstance(n.op, ast.Div) and ({x.id for x in ast.walk(n.right) if isinstance(x, ast.Name)} & par_names):
                            bad = (n, d)
                        if isinstance(n, ast.BinOp) and isinstance(n.op, ast.Pow) and isinstance(n.right, ast.UnaryOp) and ({x.id for x in ast.walk(n.left) if isinstance(x, ast.Name)} & par_names):
                            bad = (n, d)
            if bad:
                ctx.violate("ZERO", f"{name}:dim={bad[1]}", (fi, bad[0]), f"`{U(bad[0])[:60]}` divides by the argument: undefined at 0")
            else:
                n_ok += 1
                ctx.hold("ZERO", name, fi, "no division by the argument: defined at 0")


def arg_rule(ctx: Ctx, variants, rule="ARG"):
    """The formula is applied to the caller's argument itself: no variant rebinds its argument to a reduced, clipped or
    re-typed value before the formula (np.max(v, 0) collapses an array along axis 0; np.asarray(r) turns a Python int into
    a fixed-width integer whose powers overflow silently)."""
    FLOAT = ("float", "np.float64", "np.double", "numpy.float64", "'float64'", "'f8'", "'d'", "np.float_")
    for role, vs in variants.items():
        for name, fi, ex in vs:
            if fi is None:
                continue
            bad = None
            for fn in ast.walk(fi.node):
                if not isinstance(fn, ast.FunctionDef) or not fn.args.args:
                    continue
                if fn is fi.node and fi.name.startswith("make_"):
                    continue
                x = fn.args.args[0].arg
                for st in ast.walk(fn):
                    tgt = None
                    if isinstance(st, ast.Assign):
                        tgt = [t for t in st.targets if isinstance(t, ast.Name) and t.id == x]
                    elif isinstance(st, (ast.AugAssign, ast.AnnAssign)) and isinstance(st.target, ast.Name) and st.target.id == x:
                        tgt = [st.target]
                    elif isinstance(st, ast.NamedExpr) and st.target.id == x:
                        tgt = [st.target]
                    if not tgt:
                        continue
                    v = getattr(st, "value", None)
                    okv = False
                    if isinstance(v, ast.Call) and v.args and U(v.args[0]) == x:
                        short = (dotted(v.func) or "").split(".")[-1]
                        dt = [k for k in v.keywords if k.arg == "dtype"]
                        if short in ("asarray", "asanyarray", "array", "atleast_1d") and len(v.args) == 1 and dt and U(dt[0].value) in FLOAT:
                            okv = True
                        if short == "float" and len(v.args) == 1 and not v.keywords:
                            okv = True
                        # element-wise maps that are the identity on the domain (arguments >= 0)
                        if short in ("maximum", "fmax") and len(v.args) == 2 and U(v.args[1]) in ("0", "0.0") and not v.keywords:
                            okv = True
                        if short == "clip" and len(v.args) == 3 and U(v.args[1]) in ("0", "0.0") and U(v.args[2]) == "None":
                            okv = True
                        if short in ("abs", "fabs", "absolute") and len(v.args) == 1 and not v.keywords:
                            okv = True
                    if not okv and bad is None:
                        bad = st
            # scalar-only functions: math.sqrt / math.pow / math.cbrt raise TypeError for arrays (numpy's ufuncs accept both)
            if bad is None:
                for c_ in ast.walk(fi.node):
                    if isinstance(c_, ast.Call):
                        full = ctx.model.callee(fi.module, c_) or (dotted(c_.func) or "")
                        if full.startswith("math.") and full.split(".")[-1] not in ("isnan", "isfinite", "isinf") and c_.args:
                            bad = c_
                            break
                if bad is not None:
                    ctx.violate(rule, name + ":array", (fi, bad), f"`{U(bad)[:60]}` is a scalar-only function of the standard library: this variant raises TypeError for array arguments "
                                "while its siblings (numpy ufuncs) convert them element-wise — the variants no longer agree on arrays")
                    continue
            ctx.decide(bad is None, rule, name, (fi, bad) if bad is not None else fi, "the formula is applied to the argument as passed (element-wise, any numeric type)",
                       f"`{U(bad)[:80] if bad is not None else ''}` replaces the argument before the formula is applied: the result is no longer the element-wise conversion of what the caller passed "
                       "(reductions change the values and the shape of array arguments; untyped array coercion turns Python ints into fixed-width integers whose powers overflow)")


def generic_compile_rule(ctx: Ctx, rule="ARG"):
    """The compiled variants accept what the plain ones accept (scalars and arrays of any shape and numeric dtype): they are
    compiled lazily per argument type.  Explicit numba signatures (`jit(signature=[...])`, `njit("float64(float64)")`) pin the
    accepted types, so other arrays raise TypeError while the sibling variants convert them."""
    m = ctx.model
    mod = m.modules.get(SPH)
    if mod is None:
        return 0
    bad = []
    n = 0
    for c in ast.walk(mod.tree):
        if isinstance(c, ast.Call):
            nm = (dotted(c.func) or "").split(".")[-1]
            if nm in ("jit", "njit", "vectorize", "guvectorize", "generated_jit"):
                n += 1
                sig = [k for k in c.keywords if k.arg in ("signature", "signature_or_function", "locals")]
                typed = [a for a in c.args if isinstance(a, (ast.Constant, ast.List, ast.Tuple)) or (isinstance(a, ast.Name) and a.id.startswith("sig"))]
                if sig or typed:
                    bad.append(c)
    ctx.decide(not bad, rule, f"{SPH}:compiled-generic", bad[0] if bad else None, f"all {n} numba compilations are lazy (specialised per argument type)",
               f"`{U(bad[0])[:70] if bad else ''}` compiles with explicit signatures: arguments of another shape or dtype (2-d or 0-d arrays, integer or float32 arrays) raise TypeError in this variant only — "
               "the variants no longer agree for all scalar and array arguments")
    return 1


def stateless_rule(ctx: Ctx, rule="STATELESS"):
    """The conversion functions and their factories are pure: what a factory returns depends on its arguments only.  A
    module-level container consulted by them (a cache of compiled functions, …) makes the returned function depend on which
    factories were called before — one wrong key and a variant silently answers with another conversion."""
    m = ctx.model
    mod = m.modules.get(SPH)
    if mod is None:
        return
    state = {}
    for st in mod.tree.body:
        tgt = val = None
        if isinstance(st, ast.Assign) and len(st.targets) == 1 and isinstance(st.targets[0], ast.Name):
            tgt, val = st.targets[0].id, st.value
        elif isinstance(st, ast.AnnAssign) and isinstance(st.target, ast.Name) and st.value is not None:
            tgt, val = st.target.id, st.value
        if tgt is None:
            continue
        if isinstance(val, (ast.Dict, ast.List, ast.Set, ast.DictComp, ast.ListComp, ast.SetComp)) or \
                (isinstance(val, ast.Call) and (dotted(val.func) or "").split(".")[-1] in ("dict", "list", "set", "defaultdict", "OrderedDict", "WeakValueDictionary")):
            state[tgt] = st
    n = 0
    for q, lst in m.functions.items():
        if not q.startswith(SPH + "."):
            continue
        for fi in lst:
            if not ROLE_RE.match(fi.name) and not (fi.parent is not None and ROLE_RE.match(fi.parent.name)):
                continue
            n += 1
            local = {x.id for x in ast.walk(fi.node) if isinstance(x, ast.Name) and isinstance(x.ctx, ast.Store)} | set(fi.all_params)
            used = [x for x in ast.walk(fi.node) if isinstance(x, ast.Name) and x.id in state and x.id not in local]
            deco_cache = [d for d in fi.decorators if (d or "").split(".")[-1] in ("lru_cache", "cache", "cached")]
            ok = not used
            ctx.decide(ok, rule, fi.qualname, (fi, used[0]) if used else fi, "depends on its arguments only",
                       f"reads/writes the module-level container `{used[0].id if used else ''}`: the conversion a factory hands out depends on earlier calls (a cache keyed wrongly returns another "
                       "variant's function, e.g. the volume→radius converter in place of radius→volume)")
    return n


def identities(ctx: Ctx, table, rule="FORMULA-ID"):
    x = Expr.atom(F.X)
    fn = ctx.model.func(f"{SPH}.radius_from_volume")
    for d in (1, 2, 3):
        V = table.get("volume_from_radius", {}).get(d)
        R = table.get("radius_from_volume", {}).get(d)
        S = table.get("surface_from_radius", {}).get(d)
        RS = table.get("radius_from_surface", {}).get(d)
        if V is not None and R is not None:
            ctx.decide(R.subst(F.X, V) == x, rule, f"radius_from_volume∘volume_from_radius:dim={d}", fn,
                       "composition is the identity on positive reals", f"R(V(x)) = {R.subst(F.X, V).show()} ≠ x")
            ctx.decide(V.subst(F.X, R) == x, rule, f"volume_from_radius∘radius_from_volume:dim={d}", fn,
                       "composition is the identity", f"V(R(x)) = {V.subst(F.X, R).show()} ≠ x")
        if V is not None and S is not None:
            ctx.decide(V.derivative(F.X) == S, rule, f"d/dr volume = surface:dim={d}", ctx.model.func(f"{SPH}.surface_from_radius"),
                       f"dV/dr = {S.show()}", f"dV/dr = {V.derivative(F.X).show()} but surface = {S.show()}")
        if S is not None and RS is not None:
            ctx.decide(RS.subst(F.X, S) == x, rule, f"radius_from_surface∘surface_from_radius:dim={d}", ctx.model.func(f"{SPH}.radius_from_surface"),
                       "composition is the identity", f"R(S(x)) = {RS.subst(F.X, S).show()} ≠ x")


def _is_self_attr(node, attr):
    return isinstance(node, ast.Attribute) and node.attr == attr and isinstance(node.value, ast.Name) and node.value.id == "self"


def wiring(ctx: Ctx, rule="WIRING"):
    """Droplet properties call the matching converter with (self.radius, self.dim)."""
    m = ctx.model
    SD = "droplets.droplets.SphericalDroplet"

    def single_return_call(fi):
        rets = [s for s in ast.walk(fi.node) if isinstance(s, ast.Return) and s.value is not None]
        if len(rets) != 1:
            return None
        # temporaries between the computation and the return are resolved
        return view(m, fi).expand(rets[0].value, rets[0])

    def callee_role(fi, call):
        if not isinstance(call, ast.Call):
            return None
        name = m.callee(fi.module, call) or ""
        return name.split(".")[-1], name

    for prop, role in (("volume", "volume_from_radius"), ("surface_area", "surface_from_radius")):
        fi = m.func(f"{SD}.{prop}")
        v = single_return_call(fi)
        r = callee_role(fi, v)
        site = f"{SD}.{prop}"
        if r is None:
            ctx.violate(rule, site, fi, f"does not return a call to {role}: {U(v) if v is not None else 'no single return'}")
            continue
        ok = r[0] == role and (r[1].startswith(SPH) or r[1].startswith("pde.grids.spherical"))
        a0, a1 = arg_or_kw(v, 0, "radius"), arg_or_kw(v, 1, "dim")
        ok_args = a0 is not None and a1 is not None and _is_self_attr(a0, "radius") and _is_self_attr(a1, "dim")
        ctx.decide(ok and ok_args, rule, site, (fi, v), f"returns {role}(self.radius, self.dim)",
                   f"expected {role}(self.radius, self.dim), found {U(v)} → {r[1]}")
    # volume setter
    fi = m.func(f"{SD}.volume@setter")
    stores = [s for s in ast.walk(fi.node) if isinstance(s, ast.Assign) and any(_is_self_attr(t, "radius") for t in s.targets)]
    ok = False
    detail = "no store to self.radius"
    if len(stores) == 1:
        v = stores[0].value
        r = callee_role(fi, v)
        par = fi.params[1] if len(fi.params) > 1 else None
        if r and r[0] == "radius_from_volume" and r[1].startswith(SPH):
            a0, a1 = arg_or_kw(v, 0, "volume"), arg_or_kw(v, 1, "dim")
            ok = isinstance(a0, ast.Name) and a0.id == par and a1 is not None and _is_self_attr(a1, "dim")
        detail = f"self.radius = {U(v)}"
    ctx.decide(ok, rule, f"{SD}.volume@setter", fi, "self.radius = radius_from_volume(volume, self.dim)", "expected self.radius = radius_from_volume(volume, self.dim); " + detail)
    # from_volume: the base class' and every override in a subclass
    sd_ci0 = m.cls("SphericalDroplet")
    for ci0 in [sd_ci0] + m.subclasses(sd_ci0):
        lst0 = ci0.methods.get("from_volume", [])
        if not lst0:
            continue
        fi = lst0[0]
        fv = view(m, fi)
        rets = fv.return_nodes()
        ok, detail = False, "no single return of cls(position, radius)"
        if len(rets) == 1 and isinstance(rets[0].stmt.value, ast.Call):
            call = rets[0].stmt.value
            if isinstance(call.func, ast.Name) and call.func.id == "cls":
                pos, rad = arg_or_kw(call, 0, "position"), arg_or_kw(call, 1, "radius")
                if pos is not None and rad is not None:
                    rad_x = fv.expand(rad, rets[0], allow_mutated=True)
                    detail = f"radius = {U(rad_x)}"
                    r = callee_role(fi, rad_x)
                    if r and r[0] == "radius_from_volume" and r[1].startswith(SPH):
                        a0, a1 = arg_or_kw(rad_x, 0, "volume"), arg_or_kw(rad_x, 1, "dim")
                        dim_ok = a1 is not None and isinstance(a1, ast.Call) and (dotted(a1.func) or "").endswith("len") and "position" in U(a1)
                        ok = isinstance(a0, ast.Name) and a0.id == "volume" and dim_ok and isinstance(pos, ast.Name) and pos.id == "position"
        ctx.decide(ok, rule, f"{ci0.qualname}.from_volume", fi, "cls(position, radius_from_volume(volume, len(position)))",
                   "expected cls(position, radius_from_volume(volume, len(position))) — the space dimension is the number of coordinates of the position; " + detail)
    # curvature
    fi = m.func(f"{SD}.interface_curvature")
    v = single_return_call(fi)
    try:
        from ..algebra import to_expr

        e = to_expr(v)
        ok = e == to_expr(ast.parse("1/self.radius", mode="eval").body)
        detail = e.show()
    except Exception as exc:
        ok, detail = False, str(exc)
    ctx.decide(ok, rule, f"{SD}.interface_curvature", fi, "1/self.radius", f"expected 1/self.radius, found {detail}")
    # bbox: the base class' formula, and no subclass replaces it by another one
    sd_ci = m.cls("SphericalDroplet")
    for ci_ in [sd_ci] + m.subclasses(sd_ci):
        lst_ = [f_ for f_ in ci_.methods.get("bbox", []) if f_.kind == "property"]
        if not lst_:
            continue
        fi = lst_[0]
        rets_ = [s_ for s_ in ast.walk(fi.node) if isinstance(s_, ast.Return) and s_.value is not None]
        v = single_return_call(fi) if len(rets_) == 1 else None
        ok, detail = False, U(v) if v is not None else f"{len(rets_)} returns"
        if isinstance(v, ast.Call) and (dotted(v.func) or "").endswith("from_points") and len(v.args) == 2:
            from ..algebra import to_expr

            try:
                lo, hi = to_expr(v.args[0]), to_expr(v.args[1])
                p, r = Expr.atom("self.position"), Expr.atom("self.radius")
                ok = {lo, hi} == {p - r, p + r} and lo != hi
                # a name rebound on some path (extent = radius; extent += width) is not the radius
                muts_ = [s_ for s_ in ast.walk(fi.node) if isinstance(s_, ast.AugAssign)]
                ok = ok and not muts_
            except Exception:
                ok = False
        ctx.decide(ok, rule, f"{ci_.qualname}.bbox", fi, "Cuboid.from_points(position - radius, position + radius)",
                   f"expected corners position ∓ radius, found {detail}: the bounding box of a droplet no longer follows from its radius and position alone")


def check(ctx: Ctx):
    ctx.explain(
        "FORMULA: every return expression of every variant of the sphere conversions (plain, "
        "dimension-specialised factory, dimension-generic factory, numba overload lambdas, py-pde's function) "
        "is evaluated per `dim` branch into an exact monomial c·π^a·x^p (rational exponents, prime-factored "
        "coefficients); variants must be equal, compositions must be the identity, dV/dr must equal the surface; "
        "WIRING: droplet properties call the matching converter with (self.radius, self.dim). "
        "The (variant × dimension) table is enumerated completely."
    )
    table = formulas(ctx)
    identities(ctx, table)
    stateless_rule(ctx)
    wiring(ctx)
    from ..rules import support

    support.check_field_types(ctx)
    support.check_setter_total(ctx, "droplets.droplets.SphericalDroplet.volume@setter", "radius")
    support.check_nd_factory_decorators(ctx)
    ctx.expect("LAYOUT", 3)
    ctx.expect("FORMULA", 24)
    ctx.expect("ZERO", 8)
    ctx.expect("ARG", 8)
    ctx.expect("STATELESS", 15)
    ctx.expect("FORMULA-ID", 10)
    from ..rules import support as _sup_r11

    _sup_r11.check_property_setters_kept(ctx)
    ctx.expect("WIRING", 7)
    ctx.exhaustive = True
    ctx.trust("exact arithmetic over the reals (no floating-point claim)", "NumPy sqrt/** are the real functions on positive reals")
    ctx.assume("scalar-vs-array dispatch of NumPy and last-bit floating-point agreement are not decided")
