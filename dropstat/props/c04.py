"""C04 — refinement never worsens the fit and respects bounds, symmetry and the box.

  LAYOUT    data_bounds indices = flattened dtype offsets of radius / width / amplitudes
            (necessary for radius, width ≥ 0 and amplitudes in [−1, 1]);
  MASK      free-parameter mask: all True, constrained coordinates cleared before every
            use; every store into the flat vector is indexed by it (symmetry-fixed
            coordinates untouched);
  START     fit starts from the candidate's own data with the candidate's bounds
            (least_squares contract: final cost ≤ cost at a feasible start);
  PACK/MODEL/AFFINE/FEASIBLE  packed intensity slots agree between start vector, bounds,
            residual and read-back, with matching affine type, and start is feasible;
  LEVELS    automatic intensity levels are min/max of the fitted region;
  NONETEST  an unset width is recognised with `is None` (0 is a valid sharp interface);
  WRAP      the fitted position is wrapped by normalize_point after the fit;
  EFFECT    the image is never written;  CLASS  the candidate's class is preserved.
"""

from __future__ import annotations

import ast

from ..astutil import U, view, stmt_index, compare_parts, kwarg
from ..core import Ctx
from ..rules import refine, nonetest

IMG = "droplets.image_analysis"


def check_levels(ctx: Ctx):
    m = ctx.model
    fi = m.func(refine.QUAL)
    fv = view(m, fi)
    si = stmt_index(fv)
    site = refine.QUAL + ":levels"
    from ..astutil import ifexp_cases

    want = {"vmin": "min", "vmax": "max"}
    region = None
    for s in fv.statements():
        if isinstance(s, ast.Assign) and isinstance(s.targets[0], ast.Name) and isinstance(s.value, ast.Subscript) and U(s.value.value) == "phase_field.data":
            region = s.targets[0].id

    def source_ok(src, at, extra=()):
        """the reduced values are those of the fitted region; only when that region is empty (a candidate that covers no
        support point) may another part of the same image stand in.  Returns (ok, guarded against the empty region)"""
        ex = fv.expand(src, at, stop=(region, "phase_field"))
        cases = ifexp_cases(ex)
        ok, guarded = True, len(cases) > 1
        for conds, val in cases:
            conds = list(conds) + list(extra)
            if extra and any(t.replace(" ", "").startswith((f"{region}.size", f"len({region})", f"0<{region}.size")) for t, _o in extra):
                guarded = True
            txt = U(val)
            nonempty = any((t.replace(" ", "") in (f"{region}.size>0", f"0<{region}.size", f"{region}.size!=0", f"{region}.size", f"len({region})>0", f"len({region})!=0") and o)
                           or (t.replace(" ", "") in (f"{region}.size==0", f"len({region})==0") and not o) for t, o in conds)
            empty = any((t.replace(" ", "") in (f"{region}.size>0", f"0<{region}.size", f"{region}.size!=0", f"{region}.size", f"len({region})>0", f"len({region})!=0") and not o)
                        or (t.replace(" ", "") in (f"{region}.size==0", f"len({region})==0") and o) for t, o in conds)
            if txt == region and (nonempty or len(cases) == 1):
                continue
            if empty and txt in ("phase_field.data",):
                continue
            ok = False
        return ok, guarded

    def by_paths(nm, red):
        """path-sensitive reading: the value of `nm` where both levels are first used together, per path — (ok, as_float, guarded) or None"""
        from ..astutil import value_cases, truth_of

        use = None
        for s_ in fi.node.body:
            loads = {n_.id for n_ in ast.walk(s_) if isinstance(n_, ast.Name) and isinstance(n_.ctx, ast.Load)}
            if {"vmin", "vmax"} <= loads and isinstance(s_, ast.Assign):
                use = s_
                break
        if use is None or region is None:
            return None
        try:
            cases = value_cases(fv, use, ast.Name(id=nm, ctx=ast.Load()), stop=(region, "phase_field"))
        except Exception:  # noqa: BLE001
            return None
        if not cases:
            return None
        ok_, fl_, gd_, auto = True, True, True, 0
        nonempty_txt = (f"{region}.size > 0", f"0 < {region}.size", f"{region}.size != 0", f"{region}.size", f"len({region}) > 0")
        empty_txt = (f"{region}.size == 0", f"len({region}) == 0")
        for dec, val in cases:
            v = val
            if isinstance(v, ast.Name) and v.id == nm:
                # the caller's value: only on paths where it was given
                if truth_of(dec, f"{nm} is None") is True:
                    ok_ = False
                continue
            auto += 1
            if truth_of(dec, f"{nm} is None") is not True:
                ok_ = False
            as_float = False
            while isinstance(v, ast.Call) and U(v.func) in ("float", "np.float64", "np.double") and len(v.args) == 1 and not v.keywords:
                v, as_float = v.args[0], True
            fl_ = fl_ and as_float
            if not (isinstance(v, ast.Call) and U(v.func) in (f"np.{red}", f"np.a{red}", f"numpy.{red}") and len(v.args) == 1 and not v.keywords):
                ok_ = False
                continue
            src = U(v.args[0])
            ne = [truth_of(dec, t_) for t_ in nonempty_txt]
            em = [truth_of(dec, t_) for t_ in empty_txt]
            is_nonempty = any(x is True for x in ne) or any(x is False for x in em)
            is_empty = any(x is False for x in ne) or any(x is True for x in em)
            if src == region and not is_empty:
                gd_ = gd_ and is_nonempty
            elif src == "phase_field.data" and is_empty:
                pass
            else:
                ok_ = False
        return (ok_ and auto > 0, fl_, gd_)

    guarded_all = True
    floats = {}
    alt_used = {}
    for nm, red in want.items():
        ok, where = False, fi
        oks_all = []
        for s in fv.statements():
            if isinstance(s, ast.Assign) and isinstance(s.targets[0], ast.Name) and s.targets[0].id == nm:
                where = s
                g = si.guards(s)
                okg = any(p and (cp := compare_parts(t)) and U(cp[0]) == nm and isinstance(cp[1], ast.Is) and isinstance(cp[2], ast.Constant) and cp[2].value is None for t, p in g)
                v = s.value
                as_float = False
                while isinstance(v, ast.Call) and U(v.func) in ("float", "np.float64", "np.double") and len(v.args) == 1 and not v.keywords:
                    v = v.args[0]
                    as_float = True
                floats[nm] = as_float
                src = None
                if isinstance(v, ast.Call) and U(v.func) in (f"np.{red}", f"np.a{red}", f"numpy.{red}") and len(v.args) == 1 and not v.keywords:
                    src = v.args[0]
                elif isinstance(v, ast.Call) and isinstance(v.func, ast.Attribute) and v.func.attr == red and not v.args and not v.keywords:
                    src = v.func.value
                if src is not None and region is not None:
                    from ..astutil import canon_tests as _ct

                    extra = []
                    for t_, p_ in g:
                        for txt_, pol_ in _ct(fv.expand(t_, s, stop=(region, "phase_field")), p_):
                            extra.append((txt_, pol_))
                    oks, guarded = source_ok(src, s, extra)
                    guarded_all = guarded_all and guarded
                    oks_all.append(oks and okg)
                    ok = all(oks_all)
                else:
                    oks_all.append(False)
                    ok = False
        if not ok:
            alt = by_paths(nm, red)
            if alt is not None and alt[0]:
                ok = True
                floats[nm] = alt[1]
                alt_used[nm] = alt
        ctx.decide(ok, "LEVELS", f"{site}:{nm}", (fi, where), f"automatic {nm} = {red} over the fitted region, only when `{nm} is None`",
                   f"automatic level `{nm}` is not the {red} over the fitted region guarded by `{nm} is None`")
    # the automatic levels are numpy scalars of the image's dtype: the range vmax − vmin and the bounds vmin − vrng are computed
    # with them, so they are converted to float first (bool images: `-` raises; unsigned images: vmin − vrng wraps around)
    ctx.decide(bool(floats) and all(floats.values()), "LEVELS", site + ":dtype", fi, "automatic levels are converted to float before they enter the arithmetic of the fit",
               f"automatic level(s) {sorted(k for k, v_ in floats.items() if not v_)} keep the image's dtype: for a boolean image `vmax - vmin` raises TypeError, for an unsigned integer image the bound "
               "`vmin - vrng` wraps around and least_squares rejects the start vector — locate_droplets(refine=True, refine_args={'vmin': None, 'vmax': None}) aborts on such images")
    # a candidate smaller than a cell covers no support point: the region is empty and a bare min/max over it raises
    if alt_used and len(alt_used) == len(want):
        guarded_all = all(a_[2] for a_ in alt_used.values())
    ctx.decide(guarded_all, "LEVELS", site + ":empty-region", fi, "the automatic levels are defined for an empty fitted region as well (taken from the whole image then)",
               "the automatic levels are np.min/np.max over the fitted region only: for a candidate that covers no support point (radius below half a cell between cell centres) the region is empty and "
               "`refine_droplet(field, DiffuseDroplet([5.3, 5.3], 0.2), vmin=None, vmax=None)` raises ValueError instead of returning a droplet")
    # fitted region: the image values are taken where the dilated boolean image of the candidate is set
    # (resolved through temporaries: whatever the intermediate masks are called)
    okreg, where = False, fi
    for nm in ("vmin", "vmax"):
        pass
    dm = None
    for s in fv.statements():
        if isinstance(s, ast.Assign) and isinstance(s.targets[0], ast.Name) and isinstance(s.value, ast.Subscript) and U(s.value.value) == "phase_field.data":
            dm = s
    if dm is not None:
        where = dm
        idx = fv.expand(dm.value.slice, dm, stop=("droplet", "phase_field"), allow_mutated=True, depth=8)
        if isinstance(idx, ast.Call) and (fv.callee(idx) or U(idx.func)).endswith("binary_dilation") and idx.args:
            inner = idx.args[0]
            okreg = U(inner).replace(" ", "") in ("droplet._get_phase_field(phase_field.grid,dtype=bool)", "droplet._get_phase_field(phase_field.grid,bool)")
            it = kwarg(idx, "iterations")
            okreg = okreg and it is not None and U(it).replace(" ", "") in ("1+int(2*droplet.interface_width)", "int(2*droplet.interface_width)+1")
        # and the automatic levels are taken from exactly these values
        lv = [s for s in fv.statements() if isinstance(s, ast.Assign) and U(s.targets[0]) in ("vmin", "vmax") and U(dm.targets[0]) in U(fv.expand(s.value, s, stop=(U(dm.targets[0]), "phase_field")))]
        okreg = okreg and (len(lv) >= 2 or len(alt_used) == len(want))
    ctx.decide(okreg, "LEVELS", site + ":region", (fi, where), "fit region = boolean image of the candidate dilated by 1 + int(2·width) cells; image values taken there",
               "the fit region is not the dilated boolean image of the candidate (1 + int(2·width) iterations) applied to phase_field.data")
    # vrng = vmax - vmin
    okr = any(isinstance(s, ast.Assign) and U(s.targets[0]) == "vrng" and U(s.value) == "vmax - vmin" for s in fv.statements())
    ctx.decide(okr, "LEVELS", site + ":range", fi, "vrng = vmax − vmin", "the intensity range is not vmax − vmin")


def check_objective(ctx: Ctx):
    """OBJECTIVE: the solver minimises the plain sum of squared residuals — no robust loss is
    injected by the function itself (with loss ≠ 'linear' least_squares decreases ρ(residual²),
    and the squared deviation of the result can exceed that of the start)."""
    m = ctx.model
    fi = m.func(refine.QUAL)
    fv = view(m, fi)
    site = refine.QUAL + ":objective"
    ls = [c for c in fv.calls() if (fv.callee(c) or "").endswith("least_squares")]
    if not ls:
        ctx.undecided("OBJECTIVE", site, fi, "no least_squares call")
        return
    changing = {"loss", "f_scale"}
    neutral = {"ftol", "xtol", "gtol", "max_nfev", "x_scale", "method", "jac", "verbose", "diff_step", "tr_solver", "tr_options", "jac_sparsity", "bounds"}
    stars = set()
    bad, unknown = [], []
    for c in ls:
        for k in c.keywords:
            if k.arg is None:
                stars.add(U(k.value))
            elif k.arg in changing and not (isinstance(k.value, ast.Constant) and k.value.value in ("linear", 1.0, 1)):
                bad.append((c, f"keyword {k.arg}={U(k.value)}"))
            elif k.arg not in neutral | changing | {"args", "kwargs"}:
                unknown.append((c, k.arg))
    # keys written into the forwarded option dicts by this function
    from ..astutil import const_strings

    for n in fv.calls():
        if isinstance(n.func, ast.Attribute) and isinstance(n.func.value, ast.Name) and n.func.value.id in stars and n.func.attr in ("setdefault", "update", "__setitem__"):
            keys = set()
            if n.func.attr == "update":
                keys |= {k.arg for k in n.keywords if k.arg}
                for a in n.args:
                    if isinstance(a, ast.Dict):
                        keys |= {k.value for k in a.keys if isinstance(k, ast.Constant)}
                    else:
                        unknown.append((n, U(a)))
            elif n.args:
                k0 = n.args[0]
                if isinstance(k0, ast.Constant):
                    keys.add(k0.value)
                else:
                    ex = fv.expand(k0, n, allow_mutated=True)
                    lp = stmt_index(fv).enclosing(n, (ast.For,))
                    if lp is not None and U(lp[0].target) == U(k0) and isinstance(lp[0].iter, (ast.List, ast.Tuple, ast.Set)):
                        keys |= set(const_strings(lp[0].iter))
                    elif isinstance(ex, ast.Constant):
                        keys.add(ex.value)
                    else:
                        unknown.append((n, U(k0)))
            for k in keys:
                if k in changing:
                    bad.append((n, f"default option {k!r}"))
                elif k not in neutral:
                    unknown.append((n, k))
    for s in fv.statements():
        if isinstance(s, ast.Assign) and isinstance(s.targets[0], ast.Subscript) and isinstance(s.targets[0].value, ast.Name) and s.targets[0].value.id in stars:
            k0 = s.targets[0].slice
            keys = None
            if isinstance(k0, ast.Constant):
                keys = {k0.value}
            else:
                lp = stmt_index(fv).enclosing(s, (ast.For,))
                if lp is not None and U(lp[0].target) == U(k0) and isinstance(lp[0].iter, (ast.List, ast.Tuple, ast.Set)) and all(isinstance(e, ast.Constant) for e in lp[0].iter.elts):
                    keys = {e.value for e in lp[0].iter.elts}
            if keys is None:
                unknown.append((s, U(k0)))
            else:
                for k in keys:
                    if k in changing:
                        bad.append((s, f"option {k!r}"))
                    elif k not in neutral:
                        unknown.append((s, k))
    if bad:
        ctx.violate("OBJECTIVE", site, (fi, bad[0][0]), f"refine_droplet itself sets the solver's {bad[0][1]}: least_squares then minimises a robust loss ρ(r²) instead of Σ r², "
                    "so the refined droplet's squared deviation from the image can exceed the candidate's")
    elif unknown:
        ctx.undecided("OBJECTIVE", site, (fi, unknown[0][0]), f"solver option `{unknown[0][1]}` set by the function is not classified")
    else:
        ctx.hold("OBJECTIVE", site, (fi, ls[0]), f"{len(ls)} least_squares call(s) minimise the plain squared residual; the function only injects tolerance options")


def check(ctx: Ctx):
    ctx.explain(
        "Rules over refine_droplet and the data_bounds chain: LAYOUT (bounds indices vs dtype offsets, exact linear forms in the "
        "dimension and mode count), MASK/START/WRAP dominance rules on the CFG, PACK/MODEL/AFFINE/FEASIBLE over exact linear forms "
        "in (vmin, vmax), LEVELS, NONETEST, EFFECT (no write through the image), CLASS."
    )
    m = ctx.model
    refine.check_bounds_layout(ctx)
    refine.check_mask(ctx)
    refine.check_start(ctx)
    refine.check_pack(ctx, rules=("PACK", "MODEL", "AFFINE", "FEASIBLE"))
    check_levels(ctx)
    check_objective(ctx)
    # the candidates may be a one-shot iterable: refine_droplets consumes them once
    from ..rules import iteronce as _iteronce

    for fi_ in ctx.model.funcs("droplets.image_analysis.refine_droplets"):
        _iteronce.check_function(ctx, fi_)
    # the fit compares the model with the image's own values: the selected data are not replaced (clipped, smoothed, rescaled)
    from ..rules import support as _sup_r12

    def _is_image_selection(v):
        while isinstance(v, ast.Subscript):
            v = v.value
        return isinstance(v, ast.Attribute) and v.attr == "data" and isinstance(v.value, ast.Name) and v.value.id == "phase_field"

    _sup_r12.check_locals_not_rebound_after(ctx, "droplets.image_analysis.refine_droplet", lambda v: isinstance(v, ast.Subscript) and _is_image_selection(v), "OBJECTIVE", "image-values",
                                            "the image values of the fit region", "the least-squares objective is then the deviation from another image than the one given (e.g. a clipped copy), so the "
                                            "true deviation over the region can grow and a candidate rendered onto a noisy image is not left alone")
    ctx.expect("OBJECTIVE", 1)
    # the parameter vector and every other working array of the fit are float64 whatever the image's dtype (an integer or
    # boolean image would truncate the candidate's position, radius and width)
    from ..rules import spectrum as _spectrum

    _spectrum.check_accumulator_dtype(ctx, ("droplets.image_analysis.refine_droplet",), image_params=("phase_field",))
    ctx.expect("DTYPE", 1)
    fi = m.func(refine.QUAL)
    nonetest.check(ctx, fi, "droplet.interface_width", "the candidate's interface width")
    ctx.analysed(fi)
    refine.check_wrap(ctx)
    refine.check_image_readonly(ctx)
    # the fit region is the candidate's own boolean image: the sharp branch of every renderer must use the class' own interface
    from ..rules import render, support

    support.check_fixed_levels(ctx)
    # the residual renders the candidate through polar_coordinates (perturbed classes): no division by a zero distance
    support.compose(ctx, render.check_polar, rules=("DIV0",), keep=("DIV0",))
    # refine_droplets hands the caller's options (levels, tolerances) to refine_droplet in both of its arms
    from . import c15 as _c15

    sub_s = Ctx(ctx.model, ctx.prop, ctx.tier)
    for fi_, ifn_ in _c15.discover_splits(ctx.model):
        if fi_.qualname == "droplets.image_analysis.refine_droplets":
            _c15.check_split(sub_s, fi_, ifn_)
    ctx.findings.extend(f for f in sub_s.findings if f.rule == "PARMAP")
    ctx.functions |= sub_s.functions
    ctx.expect("PARMAP", 6)
    ctx.expect("DIV0", 1)
    for cname in ("DiffuseDroplet", "PerturbedDropletBase"):
        support.compose(ctx, render.check_renderer, cname, rules=("SHARP", "WIDTH", "CAST"), keep=("SHARP", "WIDTH", "CAST"))
    ctx.expect("SHARP", 2)
    ctx.expect("LAYOUT", 6)
    ctx.expect("MASK", 2)
    ctx.expect("START", 2)
    ctx.expect("CLASS", 1)
    ctx.expect("PACK", 4)
    ctx.expect("MODEL", 2)
    ctx.expect("AFFINE", 2)
    ctx.expect("FEASIBLE", 2)
    ctx.expect("LEVELS", 6)
    ctx.expect("NONETEST", 1)
    ctx.expect("WRAP", 1)
    ctx.expect("EFFECT", 3)
    ctx.trust("scipy.optimize.least_squares returns a point inside the bounds whose cost is ≤ the cost at a feasible start vector",
              "GridBase.normalize_point wraps periodic axes into the box; boolean-mask indexing copies")
    ctx.assume("the numeric cost comparison and solver tolerance are not decided")
