"""C04 — refinement never worsens the fit and respects bounds, symmetry and the box.

  LAYOUT    data_bounds indices = flattened dtype offsets of radius / width / amplitudes
            (necessary for radius, width ≥ 0 and amplitudes in [−1, 1]);
  MASK      free-parameter mask: all True, constrained coordinates cleared before every
            use; every store into the flat vector is indexed by it (symmetry-fixed
            coordinates untouched);
  START     fit starts from the candidate's own data with the candidate's bounds
            (least_squares contract: final cost ≤ cost at a feasible start);
  PACK/MODEL/AFFINE/FEASIBLE  packed intensity slots agree between start vector, bounds,
            residual and read-back, with matching affine type, and start is feasible;
  LEVELS    automatic intensity levels are min/max of the fitted region;
  NONETEST  an unset width is recognised with `is None` (0 is a valid sharp interface);
  WRAP      the fitted position is wrapped by normalize_point after the fit;
  EFFECT    the image is never written;  CLASS  the candidate's class is preserved.
"""

from __future__ import annotations

import ast

from ..astutil import U, view, stmt_index, compare_parts
from ..core import Ctx
from ..rules import refine, nonetest

IMG = "droplets.image_analysis"


def check_levels(ctx: Ctx):
    m = ctx.model
    fi = m.func(refine.QUAL)
    fv = view(m, fi)
    si = stmt_index(fv)
    site = refine.QUAL + ":levels"
    want = {"vmin": "np.min(data_mask)", "vmax": "np.max(data_mask)"}
    for nm, w in want.items():
        ok, where = False, fi
        for s in fv.statements():
            if isinstance(s, ast.Assign) and isinstance(s.targets[0], ast.Name) and s.targets[0].id == nm:
                where = s
                g = si.guards(s)
                okg = any(p and (cp := compare_parts(t)) and U(cp[0]) == nm and isinstance(cp[1], ast.Is) and isinstance(cp[2], ast.Constant) and cp[2].value is None for t, p in g)
                ok = U(s.value) in (w, w.replace("np.", "").replace("(data_mask)", "") and f"data_mask.{w[3:6]}()") and okg
        ctx.decide(ok, "LEVELS", f"{site}:{nm}", (fi, where), f"automatic {nm} = {w} (over the fitted region), only when `{nm} is None`",
                   f"automatic level `{nm}` is not {w} guarded by `{nm} is None`")
    # fitted region: dilated boolean image of the candidate; data_mask = phase_field.data[mask]
    okm = any(isinstance(s, ast.Assign) and U(s.targets[0]) == "data_mask" and U(s.value) == "phase_field.data[mask]" for s in fv.statements())
    okd = any(isinstance(s, ast.Assign) and U(s.targets[0]) == "mask" and "droplet._get_phase_field(phase_field.grid, dtype=bool)" in U(fv.expand(s.value, s, stop=("droplet", "mask")))
              for s in fv.statements())
    okdil = any(isinstance(s, ast.Assign) and U(s.targets[0]) == "mask" and "binary_dilation(mask" in U(s.value) for s in fv.statements())
    ctx.decide(okm and okd and okdil, "LEVELS", site + ":region", fi, "fit region = dilated boolean image of the candidate; image values taken there",
               "the fit region is not the dilated boolean image of the candidate applied to phase_field.data")
    # vrng = vmax - vmin
    okr = any(isinstance(s, ast.Assign) and U(s.targets[0]) == "vrng" and U(s.value) == "vmax - vmin" for s in fv.statements())
    ctx.decide(okr, "LEVELS", site + ":range", fi, "vrng = vmax − vmin", "the intensity range is not vmax − vmin")


def check(ctx: Ctx):
    ctx.explain(
        "Rules over refine_droplet and the data_bounds chain: LAYOUT (bounds indices vs dtype offsets, exact linear forms in the "
        "dimension and mode count), MASK/START/WRAP dominance rules on the CFG, PACK/MODEL/AFFINE/FEASIBLE over exact linear forms "
        "in (vmin, vmax), LEVELS, NONETEST, EFFECT (no write through the image), CLASS."
    )
    m = ctx.model
    refine.check_bounds_layout(ctx)
    refine.check_mask(ctx)
    refine.check_start(ctx)
    refine.check_pack(ctx, rules=("PACK", "MODEL", "AFFINE", "FEASIBLE"))
    check_levels(ctx)
    fi = m.func(refine.QUAL)
    nonetest.check(ctx, fi, "droplet.interface_width", "the candidate's interface width")
    ctx.analysed(fi)
    refine.check_wrap(ctx)
    refine.check_image_readonly(ctx)
    ctx.expect("LAYOUT", 6)
    ctx.expect("MASK", 2)
    ctx.expect("START", 2)
    ctx.expect("CLASS", 1)
    ctx.expect("PACK", 4)
    ctx.expect("MODEL", 2)
    ctx.expect("AFFINE", 2)
    ctx.expect("FEASIBLE", 2)
    ctx.expect("LEVELS", 4)
    ctx.expect("NONETEST", 1)
    ctx.expect("WRAP", 1)
    ctx.expect("EFFECT", 3)
    ctx.trust("scipy.optimize.least_squares returns a point inside the bounds whose cost is ≤ the cost at a feasible start vector",
              "GridBase.normalize_point wraps periodic axes into the box; boolean-mask indexing copies")
    ctx.assume("the numeric cost comparison and solver tolerance are not decided")
