"""C18 — detection depends on the image only through the documented threshold.

  SLICE      on the unrefined path the field's values are read only by the threshold
             expressions and by the single strict comparison that builds the mask;
  THRESH     each documented rule computes its documented reducer of phase_field.data
             (exact normal form: extrema = (min + max)/2 — an affine *point* —, mean,
             Otsu with 256 bins, numeric = float(threshold));
  EXHAUST    all documented rule names are dispatched;
  GUARDSHAPE the mask is `phase_field.data > threshold` (strict) on the field's grid;
  FILTER     the size filter remove_small(minimal_radius) is applied to the candidates
             before and to the final emulsion after refinement; it removes iff
             radius <= min_radius by a back-to-front loop (REMOVE);
  ORIENT/ALIGN  Otsu: every element-wise operation combines arrays of the same bin
             orientation; class-1 (cumulative from below) arrays are cut [:-1], class-2
             (cumulative from above) arrays [1:]; the result is a bin centre.
"""

from __future__ import annotations

import ast

from ..algebra import Converter, Expr, NotAlgebraic
from ..astutil import U, view, arg_or_kw, kwarg, names_in, stmt_index, compare_parts
from ..cfg import walk_no_nested
from ..core import Ctx
from ..model import dotted
from ..rules import collections as col
from . import c09

IMG = "droplets.image_analysis"
EM = "droplets.emulsions"


# ----------------------------------------------------------------------------- locate_droplets
def threshold_branches(fv):
    """{rule name or None: assignment stmt} from the if/elif chain on `threshold`"""
    out = {}
    for s in fv.statements():
        if isinstance(s, ast.If) and "threshold" in names_in(s.test) and any(isinstance(n, ast.Constant) and isinstance(n.value, str) for n in ast.walk(s.test)):
            cur = s
            while isinstance(cur, ast.If):
                names = [n.value for n in ast.walk(cur.test) if isinstance(n, ast.Constant) and isinstance(n.value, str)]
                asg = [x for x in cur.body if isinstance(x, ast.Assign) and U(x.targets[0]) == "threshold"]
                for nm in names:
                    out[nm] = asg[0] if asg else None
                if len(cur.orelse) == 1 and isinstance(cur.orelse[0], ast.If):
                    cur = cur.orelse[0]
                else:
                    asg = [x for x in cur.orelse if isinstance(x, ast.Assign) and U(x.targets[0]) == "threshold"]
                    out[None] = asg[0] if asg else None
                    break
            return s, out
    return None, out


def check_thresholds(ctx: Ctx):
    m = ctx.model
    fi = m.func(f"{IMG}.locate_droplets")
    fv = view(m, fi)
    site = fi.qualname
    field = fi.params[0]
    data = f"{field}.data"
    from ..astutil import value_cases, mini_eval

    # ---- no result is returned without the binary image: a shortcut ("the threshold is above every value", "the image is constant")
    # compares the field with something else than `data > threshold` and differs from it for special values (NaN cells, ties)
    loc_calls = [x for x in fv.calls() if (fv.callee(x) or "").endswith("locate_droplets_in_mask")]
    if loc_calls:
        si0 = stmt_index(fv)
        st_loc = si0.statement(loc_calls[0])
        early = [r_.stmt for r_ in fv.return_nodes() if isinstance(r_.stmt, ast.Return) and not fv.dominates(st_loc, r_.stmt)]
        ctx.decide(not early, "GUARDSHAPE", f"{site}:no-shortcut", (fi, early[0]) if early else fi, "every result is derived from the binary image `data > threshold`",
                   f"`{U(early[0])[:60] if early else ''}` returns before the binary image is formed (guards: {[U(t)[:60] for t, _p in si0.effective_guards(early[0])] if early else ''}): the "
                   "result is then decided by another comparison with the field's values than `data > threshold` — e.g. `threshold < data.max()` is False as soon as one cell is NaN, "
                   "although the remaining cells still exceed the threshold")

    # the mask comparison names the effective threshold; its value per requested rule is read off the paths
    # that reach the comparison (truth table over the five kinds of request), whatever the dispatch is spelled like
    masks = [c for c in fv.calls() if (fv.callee(c) or "").endswith("ScalarField") and len(c.args) >= 2]
    # the binary image is the comparison alone: a mask combined with further element-wise conditions on the field's values
    # (`& ~np.isclose(data, threshold)`, `& (data < cap)`) is another image — with an absolute tolerance it is not even invariant under rescaling
    for c_ in masks:
        mx_ = fv.expand(c_.args[1], c_, stop=(field, "threshold"), allow_mutated=True, depth=3)
        if isinstance(mx_, ast.Name):
            # built up over several statements (`above = data > t; above &= …`): the value on the path to the call
            try:
                vc_ = value_cases(fv, stmt_index(fv).statement(c_), mx_, stop=(field, "threshold"))
                if len(vc_) >= 1:
                    mx_ = vc_[0][1]
            except Exception:  # noqa: BLE001
                pass
        if isinstance(mx_, ast.BinOp) and isinstance(mx_.op, (ast.BitAnd, ast.BitOr, ast.BitXor)) and any(isinstance(x_, ast.Compare) and data in U(x_) for x_ in ast.walk(mx_)):
            ctx.violate("GUARDSHAPE", f"{site}:mask", (fi, c_), f"the binary image is `{U(mx_)[:90]}`: the comparison with the threshold is combined with another condition on the field's values, so the "
                        "located droplets are not those of the image of cells exceeding the threshold (cells within a tolerance of the threshold are dropped; with an absolute tolerance a rescaled "
                        "image loses all its droplets)")
    masks = [c for c in masks if isinstance(fv.expand(c.args[1], c, stop=(field, "threshold"), allow_mutated=True, depth=2), ast.Compare)]
    top = None
    br = {}
    tname = None
    if len(masks) == 1:
        cmpx = fv.expand(masks[0].args[1], masks[0], stop=(field, "threshold"), allow_mutated=True, depth=2)
        cp = compare_parts(cmpx)
        if cp is not None:
            other = cp[2] if U(cp[0]) == data else cp[0]
            if isinstance(other, ast.Name):
                tname = other.id
    if tname is None:
        # the comparison exists but the mask is modified before it becomes the binary image?
        for c_ in [c for c in fv.calls() if (fv.callee(c) or "").endswith("ScalarField") and len(c.args) >= 2 and isinstance(c.args[1], ast.Name)]:
            defs_ = [d for d in fv.defs_reaching(c_.args[1].id, c_) if d.stmt is not None]
            cmp_defs = [d for d in defs_ if isinstance(fv.value_of_def(d, c_.args[1].id), ast.Compare) and data in U(fv.value_of_def(d, c_.args[1].id))]
            mods_ = [d for d in defs_ if d not in cmp_defs]
            if cmp_defs and mods_:
                ctx.violate("GUARDSHAPE", f"{site}:mask", (fi, mods_[0].stmt),
                            f"`{U(mods_[0].stmt)[:80]}` modifies the binary image after the comparison with the threshold: cells exceeding the threshold are cleared "
                            "(e.g. pieces of a droplet cut by a periodic boundary that are individually below the size limit), so the located droplets are not those of the image of cells exceeding the threshold")
                ctx.undecided("THRESH", site, fi, "threshold used by the mask comparison not resolved (mask modified)")
                return
        ctx.undecided("THRESH", site, fi, "threshold used by the mask comparison not found")
        return
    st_mask = stmt_index(fv).statement(masks[0])
    top = st_mask
    cases = value_cases(fv, st_mask, ast.Name(id=tname, ctx=ast.Load()), stop=(field,))
    NUM = 0.37
    undecidable = None
    for req in ("extrema", "auto", "mean", "otsu", NUM):
        vals = {}
        for dec, val in cases:
            ok = True
            for ttxt, outcome in dec.items():
                try:
                    tnode = ast.parse(ttxt, mode="eval").body
                except SyntaxError:
                    continue
                if "threshold" not in names_in(tnode):
                    continue
                try:
                    if bool(mini_eval(tnode, {"threshold": req})) != outcome:
                        ok = False
                        break
                except ValueError:
                    undecidable = ttxt
            if ok:
                vals[U(val) if not isinstance(val, str) else val] = val
        key = None if req is NUM else req
        if len(vals) == 1:
            v = list(vals.values())[0]
            br[key] = v if not isinstance(v, str) else ast.parse(v, mode="eval").body
        else:
            br[key] = None if not vals else ("ambiguous", sorted(vals))
    if undecidable is not None:
        ctx.undecided("THRESH", site, (fi, top), f"dispatch test `{undecidable}` on the threshold request is not evaluable")
        return

    def hook(cv, call, name):
        # method reducers of the data: X.min() / np.min(X)
        if isinstance(call.func, ast.Attribute) and U(call.func.value) == data and call.func.attr in ("min", "max", "mean") and not call.args and not call.keywords:
            return Expr.atom(call.func.attr.upper())
        short = (name or "").split(".")[-1]
        if short in ("min", "max", "mean", "amin", "amax") and len(call.args) == 1 and U(call.args[0]) == data and not call.keywords:
            return Expr.atom({"amin": "MIN", "amax": "MAX"}.get(short, short.upper()))
        return None

    cv = Converter(resolve_dotted=lambda s: m.resolve(fv.mod, s) or s, call_hook=hook, opaque_calls=False)
    half = Expr.const(1) * Expr.const(2).inverse()
    want = {"extrema": (Expr.atom("MIN") + Expr.atom("MAX")) * half, "auto": (Expr.atom("MIN") + Expr.atom("MAX")) * half, "mean": Expr.atom("MEAN")}
    desc = {"extrema": "(min + max)/2", "auto": "(min + max)/2", "mean": "mean"}
    for nm in ("extrema", "auto", "mean"):
        v = br.get(nm)
        tag = f"{site}:threshold[{nm}]"
        if v is None or isinstance(v, tuple):
            ctx.violate("THRESH", tag, (fi, top), f"rule '{nm}' does not determine one threshold value ({v})")
            continue
        try:
            e = cv.conv(v)
            ctx.decide(e == want[nm], "THRESH", tag, (fi, v) if hasattr(v, "lineno") else (fi, top), f"threshold = {desc[nm]} of the field values (transforms like the intensities under x ↦ a·x + b)",
                       f"rule '{nm}' computes {e.show()} instead of {desc[nm]} of {data}: the threshold is not the documented one and does not follow affine changes of the intensities")
        except NotAlgebraic as exc:
            ctx.undecided("THRESH", tag, (fi, top), f"{exc}: {U(v)[:60]}")
    # the extrema are combined as floats: min() and max() of an integer image are scalars of the image's own dtype, and their
    # sum wraps around (int8: 100 + 120 = −36) before any conversion applied to the sum
    def _raw_reduction(x):
        if isinstance(x, ast.Call) and isinstance(x.func, ast.Attribute) and U(x.func.value) == data and x.func.attr in ("min", "max", "sum") and not x.args:
            return True
        if isinstance(x, ast.Call) and (U(x.func).split(".")[-1] in ("min", "max", "amin", "amax", "sum")) and len(x.args) == 1 and U(x.args[0]) == data:
            return True
        return False

    for nm in ("extrema", "auto"):
        v = br.get(nm)
        if v is None or isinstance(v, tuple) or isinstance(v, str):
            continue
        raw = [b for b in ast.walk(v) if isinstance(b, ast.BinOp) and isinstance(b.op, (ast.Add, ast.Sub, ast.Mult)) and _raw_reduction(b.left) and _raw_reduction(b.right)]
        ctx.decide(not raw, "THRESH", f"{site}:threshold[{nm}]:dtype", (fi, raw[0]) if raw else (fi, top), "minimum and maximum are converted to float before they are combined",
                   f"`{U(raw[0])[:70] if raw else ''}` adds the extreme values in the image's own dtype: for integer images the sum wraps around (int8 image with values 100/120: "
                   "100 + 120 = −36), so the threshold is not the midpoint of the extreme values and every cell is reported as one droplet")
    v = br.get("otsu")
    ok = v is not None and not isinstance(v, tuple) and isinstance(v, ast.Call) and (m.callee(fv.mod, v) or U(v.func)).endswith("threshold_otsu") and [U(a) for a in v.args] == [data] and not v.keywords
    ctx.decide(ok, "THRESH", f"{site}:threshold[otsu]", (fi, top), "threshold = threshold_otsu(field values) with the default 256 bins",
               f"rule 'otsu' is `{U(v) if v is not None and not isinstance(v, tuple) else v}`, not threshold_otsu({data}) with default bins")
    v = br.get(None)
    ok = v is not None and not isinstance(v, tuple) and U(v) == "float(threshold)"
    ctx.decide(ok, "THRESH", f"{site}:threshold[numeric]", (fi, top), "a numeric threshold is used as given",
               f"numeric thresholds are transformed: `{U(v) if v is not None and not isinstance(v, tuple) else v}`")
    # ---- GUARDSHAPE: mask
    ok = False
    if len(masks) == 1:
        c = masks[0]
        cp = compare_parts(cmpx)
        dt = kwarg(c, "dtype")
        ok = cp is not None and ((U(cp[0]) == data and isinstance(cp[1], ast.Gt) and U(cp[2]) == tname) or (U(cp[2]) == data and isinstance(cp[1], ast.Lt) and U(cp[0]) == tname))
        ok = ok and U(fv.expand(c.args[0], c, stop=(field,))) == f"{field}.grid" and dt is not None and U(dt) == "bool"
        loc = [x for x in fv.calls() if (fv.callee(x) or "").endswith("locate_droplets_in_mask")]
        ok = ok and len(loc) == 1 and len(loc[0].args) == 1
        if ok:
            a0 = fv.expand(loc[0].args[0], loc[0], stop=(field, tname), allow_mutated=True, depth=3)
            ok = a0 is c or U(a0) in (U(c), U(fv.expand(c, c, stop=(field, tname), allow_mutated=True, depth=3)))
    ctx.decide(ok, "GUARDSHAPE", f"{site}:mask", (fi, masks[0]) if masks else fi,
               "candidates = locate_droplets_in_mask(ScalarField(grid, data > threshold, dtype=bool)): a cell belongs to a droplet iff it strictly exceeds the threshold",
               f"the binary image is `{U(masks[0])[:80] if masks else 'not built'}`; it must be {data} > threshold (strict) on {field}.grid, after the threshold was determined")
    # ---- SLICE: other reads of the field's values on the unrefined path
    si = stmt_index(fv)
    allowed = set()
    feed = {tname}
    changed = True
    while changed:  # statements defining the threshold, transitively through temporaries
        changed = False
        for s_ in fv.statements():
            if isinstance(s_, (ast.Assign, ast.AnnAssign)) and s_.value is not None:
                t_ = s_.targets[0] if isinstance(s_, ast.Assign) else s_.target
                if isinstance(t_, ast.Name) and t_.id in feed:
                    allowed |= {id(x) for x in ast.walk(s_)}
                    for nm_ in names_in(s_.value):
                        if nm_ not in feed and nm_ != field and any(isinstance(q, (ast.Assign, ast.AnnAssign)) and isinstance((q.targets[0] if isinstance(q, ast.Assign) else q.target), ast.Name)
                                                                    and (q.targets[0] if isinstance(q, ast.Assign) else q.target).id == nm_ for q in fv.statements()):
                            feed.add(nm_)
                            changed = True
    if masks:
        allowed |= {id(x) for x in ast.walk(masks[0])}
        # temporaries between the comparison and the ScalarField call
        for s_ in fv.statements():
            if isinstance(s_, ast.Assign) and isinstance(s_.targets[0], ast.Name) and s_.targets[0].id in names_in(masks[0]) and s_.targets[0].id != field:
                allowed |= {id(x) for x in ast.walk(s_)}
    bad = []
    for n in fv.cfg.nodes:
        for root in fv._roots(n):
            for x in walk_no_nested(root):
                if isinstance(x, ast.Name) and x.id == field and isinstance(x.ctx, ast.Load) and id(x) not in allowed:
                    par = parent_attr(root, x)
                    if par in ("grid",):
                        continue
                    g = si.guards(x)
                    if any(U(t) == "refine" and p for t, p in g):
                        continue
                    if isinstance(n.stmt, ast.If) and "isinstance" in U(n.stmt.test) or (n.kind == "test" and "isinstance" in U(n.stmt)):
                        continue
                    bad.append((n.stmt, x, par))
    ctx.decide(not bad, "SLICE", site, (fi, bad[0][0]) if bad else fi,
               "without refinement the field's values are read only by the threshold rule and the strict comparison",
               f"`{U(bad[0][0])[:70] if bad else ''}` reads the field (`{field}.{bad[0][2] if bad else ''}`) outside the threshold rule and the mask comparison: the unrefined result depends on the image other than through the binary image")


def parent_attr(root, name_node):
    for x in ast.walk(root):
        if isinstance(x, ast.Attribute) and x.value is name_node:
            return x.attr
    return None


def check_filter(ctx: Ctx):
    m = ctx.model
    fi = m.func(f"{IMG}.locate_droplets")
    fv = view(m, fi)
    si = stmt_index(fv)
    site = fi.qualname + ":filter"
    calls = [c for c in fv.calls() if isinstance(c.func, ast.Attribute) and c.func.attr == "remove_small"]
    loc = [x for x in fv.calls() if (fv.callee(x) or "").endswith("locate_droplets_in_mask")]
    cand = None
    if loc:
        st = si.statement(loc[0])
        cand = U(st.targets[0]) if isinstance(st, ast.Assign) else None
    rets = [n.stmt for n in fv.return_nodes() if n.stmt.value is not None]
    final = U(rets[-1].value) if rets and isinstance(rets[-1].value, ast.Name) else None

    def guard_ok(c):
        g = [(U(t), p) for t, p in si.guards(c)]
        return g in ([], [("minimal_radius > -np.inf", True)])

    pre = [c for c in calls if U(c.func.value) == cand and [U(a) for a in c.args] == ["minimal_radius"] and guard_ok(c)]
    loops = [s for s in fv.statements() if isinstance(s, ast.For) and U(s.iter) == cand]
    ok_pre = len(pre) == 1 and bool(loops) and fv.dominates(top_if(si, pre[0]), loops[0])
    ctx.decide(ok_pre, "FILTER", site + ":before", (fi, pre[0]) if pre else fi, "candidates at or below the minimal radius are dropped before conversion/refinement",
               "candidates are not filtered with remove_small(minimal_radius) before they are converted and refined")
    if final is None:
        ctx.violate("FILTER", site + ":after", (fi, rets[-1]) if rets else fi,
                    f"the function returns `{U(rets[-1].value)[:50] if rets else '?'}` directly: the size filter is not applied to the final (possibly refined) droplets, so droplets whose fitted radius is at or below minimal_radius are returned")
        return
    post = [c for c in calls if U(c.func.value) == final and [U(a) for a in c.args] == ["minimal_radius"] and guard_ok(c)]
    refine_calls = [c for c in fv.calls() if (fv.callee(c) or "").endswith("refine_droplets")]
    ok_post = len(post) == 1 and all(fv.dominates(top_if(si, post[0]), r) for r in rets[-1:]) \
        and all(not fv.dominates(post[0], rc) for rc in refine_calls)
    ctx.decide(ok_post, "FILTER", site + ":after", (fi, post[0]) if post else (fi, rets[-1]),
               "the final emulsion is filtered with the same minimal radius after refinement, before it is returned",
               "the final emulsion is not filtered with remove_small(minimal_radius) after refinement: refined droplets at or below the minimal radius are returned")


def top_if(si, node):
    st = si.statement(node)
    anc = si.ancestors(st)
    return anc[-1][0] if anc else st


# ----------------------------------------------------------------------------- Otsu
class Ori:
    def __init__(self, orient, cum, sl=None):
        self.orient, self.cum, self.sl = orient, cum, sl  # orient F/R, cum none/low/high, sl = slice text applied last

    def __repr__(self):
        return f"({self.orient},{self.cum}{',' + self.sl if self.sl else ''})"


def check_otsu(ctx: Ctx):
    m = ctx.model
    fi = m.func(f"{IMG}.threshold_otsu")
    fv = view(m, fi)
    site = fi.qualname
    d = fi.default_of("nbins")
    ctx.decide(isinstance(d, ast.Constant) and d.value == 256, "THRESH", site + ":nbins", fi, "256 histogram bins by default", f"default number of bins is {U(d) if d is not None else None}, documented: 256")
    env: dict = {}
    problems = []
    hist = [s for s in fv.statements() if isinstance(s, ast.Assign) and isinstance(s.value, ast.Call) and (fv.callee(s.value) or "").endswith("numpy.histogram")]
    if len(hist) != 1 or not isinstance(hist[0].targets[0], ast.Tuple):
        ctx.undecided("ORIENT", site, fi, "histogram call not found")
        return
    h = hist[0]
    counts, edges = (U(e) for e in h.targets[0].elts)
    b = kwarg(h.value, "bins") or (h.value.args[1] if len(h.value.args) > 1 else None)
    if b is not None:
        # the bin count must be the caller's request itself (the parameter, at most through int()), not a value derived from the data
        b = fv.expand(b, h, stop=(fi.params[0],), allow_mutated=True)
        if isinstance(b, ast.Call) and U(b.func) == "int" and len(b.args) == 1:
            b = b.args[0]
        if isinstance(b, ast.Name) and not all(d is fv.cfg.entry for d in fv.defs_reaching(b.id, h)):
            b = None
    okh = b is not None and U(b) == "nbins" and U(h.value.args[0]) in (f"{fi.params[0]}.flat", f"{fi.params[0]}.ravel()", fi.params[0], f"{fi.params[0]}.flatten()")
    ctx.decide(okh, "THRESH", site + ":histogram", (fi, h), "histogram of all field values with nbins bins", f"histogram is `{U(h.value)}` with bins = `{U(kwarg(h.value, 'bins') or (h.value.args[1] if len(h.value.args) > 1 else None))}` as defined at that point: not the requested number of bins over all field values (the documented 256-bin histogram)")
    env[counts] = Ori("F", "none")
    env[edges] = Ori("F", "none")

    def ev(n, stmt):
        if isinstance(n, ast.Name):
            return env.get(n.id)
        if isinstance(n, ast.Constant):
            return "scalar"
        if isinstance(n, ast.Subscript):
            base = ev(n.value, stmt)
            if not isinstance(base, Ori):
                return base
            sl = U(n.slice)
            if sl == "::-1":
                return Ori("R" if base.orient == "F" else "F", base.cum, None)
            if sl in ("1:", ":-1"):
                return Ori(base.orient, base.cum, sl)
            return Ori(base.orient, base.cum, base.sl)
        if isinstance(n, ast.Call):
            name = (fv.callee(n) or "").split(".")[-1]
            if name == "cumsum" and n.args:
                a = ev(n.args[0], stmt)
                if isinstance(a, Ori):
                    if a.cum != "none":
                        problems.append((stmt, "cumulative sum of an already cumulative array"))
                    return Ori(a.orient, "low" if a.orient == "F" else "high")
                return a
            if name in ("float", "abs", "asarray", "sqrt") and n.args:
                return ev(n.args[0], stmt)
            return None
        if isinstance(n, ast.BinOp):
            l, r = ev(n.left, stmt), ev(n.right, stmt)
            if isinstance(n.op, ast.Pow):
                return l
            if isinstance(l, Ori) and isinstance(r, Ori):
                if l.orient != r.orient:
                    problems.append((stmt, f"`{U(n)[:70]}` combines an array in bin order with one in reversed bin order ({l} vs {r}): element i of one is paired with element n−1−i of the other"))
                    return None
                cums = {l.cum, r.cum}
                if cums == {"low", "high"}:
                    # threshold between bin i and i+1: low arrays cut [:-1], high arrays cut [1:]
                    lo, hi = (l, r) if l.cum == "low" else (r, l)
                    if lo.sl != ":-1" or hi.sl != "1:":
                        problems.append((stmt, f"`{U(n)[:70]}` pairs class-1 (from below) and class-2 (from above) quantities without the alignment [:-1] / [1:] (found {lo.sl} / {hi.sl})"))
                    return Ori(l.orient, "mixed", "aligned")
                if "mixed" in cums:
                    other = [x for x in (l, r) if x.cum != "mixed"]
                    for o in other:
                        want = ":-1" if o.cum == "low" else ("1:" if o.cum == "high" else o.sl)
                        if o.cum in ("low", "high") and o.sl != want:
                            problems.append((stmt, f"`{U(n)[:70]}`: {o.cum}-side array is not cut {want}"))
                    return Ori(l.orient, "mixed", "aligned")
                cum = l.cum if l.cum != "none" else r.cum
                if l.cum != "none" and r.cum != "none" and l.cum != r.cum:
                    problems.append((stmt, f"`{U(n)[:70]}` combines {l.cum} and {r.cum} cumulative arrays"))
                if l.sl != r.sl and l.cum == r.cum and l.cum != "none":
                    problems.append((stmt, f"`{U(n)[:70]}` combines differently cut arrays ({l.sl} vs {r.sl})"))
                return Ori(l.orient, cum, l.sl or r.sl)
            return l if isinstance(l, Ori) else r
        if isinstance(n, ast.UnaryOp):
            return ev(n.operand, stmt)
        return None

    order = [s for s in fv.statements() if isinstance(s, ast.Assign) and s is not h and isinstance(s.targets[0], ast.Name)]
    for s in order:
        v = ev(s.value, s)
        if isinstance(v, Ori):
            env[s.targets[0].id] = v
    if problems:
        s, msg = problems[0]
        ctx.violate("ORIENT", site, (fi, s), msg + " — the maximised quantity is no longer the between-class variance")
    else:
        ctx.hold("ORIENT", site, fi, f"all element-wise operations combine equally oriented, correctly cut arrays ({len(order)} assignments)")
    # bin centres and the result
    bc = [s for s in order if isinstance(s.value, ast.BinOp) and edges in names_in(s.value)]
    okc = False
    if len(bc) == 1:
        try:
            e = Converter().conv(bc[0].value)
            okc = e == (Expr.atom(f"{edges}[1:]") + Expr.atom(f"{edges}[:-1]")) * Expr.const(2).inverse()
        except NotAlgebraic:
            okc = False
    centers = U(bc[0].targets[0]) if bc else None
    ctx.decide(okc, "THRESH", site + ":centres", (fi, bc[0]) if bc else fi, "bin centres are the midpoints of consecutive edges (affine points)", "bin centres are not (edges[1:] + edges[:-1])/2")
    all_rets = [n.stmt for n in fv.return_nodes()]
    # returns inside an exception handler are the fallback for data whose range the histogram cannot resolve (judged below)
    in_handler = {id(x) for hnd in ast.walk(fi.node) if isinstance(hnd, ast.ExceptHandler) for x in ast.walk(hnd) if isinstance(x, ast.Return)}
    rets = [r for r in all_rets if id(r) not in in_handler]
    fallbacks = [r for r in all_rets if id(r) in in_handler]
    for r in fallbacks:
        okf = False
        detail = U(r.value)[:70] if r.value is not None else "None"
        tries = [t for t in ast.walk(fi.node) if isinstance(t, ast.Try) and any(x is r for hnd in t.handlers for x in ast.walk(hnd))]
        guarded_hist = bool(tries) and any(isinstance(c, ast.Call) and (fv.callee(c) or U(c.func)).endswith("histogram") for b_ in tries[0].body for c in ast.walk(b_)) \
            and all(hnd.type is not None and U(hnd.type) == "ValueError" for hnd in tries[0].handlers)
        if r.value is not None and guarded_hist:
            v = r.value
            if isinstance(v, ast.Call) and U(v.func) == "float" and len(v.args) == 1:
                v = v.args[0]
            data_p = fi.params[0]

            class _Red(ast.NodeTransformer):
                def visit_Call(self, n):
                    nm = (U(n.func)).split(".")[-1]
                    arg = n.args[0] if n.args else (n.func.value if isinstance(n.func, ast.Attribute) else None)
                    if nm in ("min", "amin", "max", "amax", "mean") and arg is not None and U(arg) in (data_p, f"{data_p}.flat") and len(n.args) <= 1 and not n.keywords:
                        return ast.Name(id={"min": "MIN", "amin": "MIN", "max": "MAX", "amax": "MAX", "mean": "MEAN"}[nm], ctx=ast.Load())
                    return self.generic_visit(n)

            import copy as _copy

            try:
                e = Converter().conv(_Red().visit(_copy.deepcopy(fv.expand(v, r, allow_mutated=True))))
                mid = (Expr.atom("MIN") + Expr.atom("MAX")) * Expr.const(2).inverse()
                okf = e == mid or e == Expr.atom("MEAN") or e == Expr.atom("MIN") or e == Expr.atom("MAX")
            except NotAlgebraic:
                okf = False
        ctx.decide(okf, "THRESH", site + ":fallback", (fi, r), "when the histogram cannot resolve the data range (ValueError) the result is a value of the data range itself (mid-range / mean): covariant under affine maps",
                   f"the fallback `{detail}` taken when the histogram fails is not a point of the data range (mid-range, mean, min or max of the data) reached only through the histogram's ValueError: "
                   "the threshold no longer follows an affine change of the intensities")
    okr = False
    if len(rets) == 1 and rets[0].value is not None:
        r = fv.expand(rets[0].value, rets[0], stop=tuple(env) + ((centers,) if centers else ()), allow_mutated=True)
        if isinstance(r, ast.Call) and U(r.func) == "float" and len(r.args) == 1:
            r = r.args[0]
        if isinstance(r, ast.Subscript) and U(r.value) == centers and isinstance(r.slice, ast.Call):
            c = r.slice
            nm = (fv.callee(c) or U(c.func)).split(".")[-1]
            var = None
            if nm == "argmax" and isinstance(c.func, ast.Attribute) and isinstance(c.func.value, ast.Name) and c.func.value.id in env and not c.args and not c.keywords:
                var = c.func.value.id  # V.argmax()
            elif nm == "argmax" and len(c.args) == 1 and isinstance(c.args[0], ast.Name) and not c.keywords:
                var = c.args[0].id  # np.argmax(V)
            okr = var is not None and isinstance(env.get(var), Ori) and env[var].cum == "mixed"
    ctx.decide(okr, "THRESH", site + ":result", (fi, rets[0]) if rets else fi, "returns the bin centre at the arg-max of the between-class variance",
               "the result is not the bin centre at the arg-max of the between-class variance array")
    # the maximised array is the between-class variance w1·w2·(m1 − m2)² in exact normal form over its four sliced operands: another
    # function of the same operands (|m1 − m2|, the fourth power, w1 + w2) has its maximum at another bin for skewed histograms
    try:
        vname = var if (len(rets) == 1 and rets[0].value is not None) else None
    except NameError:
        vname = None
    vdef = [s_ for s_ in fv.statements() if isinstance(s_, ast.Assign) and isinstance(s_.targets[0], ast.Name) and s_.targets[0].id == vname] if vname else []
    if len(vdef) == 1:
        vx = fv.expand(vdef[0].value, vdef[0], stop=tuple(env), allow_mutated=True)
        subs = []
        for x_ in ast.walk(vx):
            if isinstance(x_, ast.Subscript) and isinstance(x_.value, ast.Name) and U(x_) not in [U(y_) for y_ in subs]:
                subs.append(x_)
        diff = [b_ for b_ in ast.walk(vx) if isinstance(b_, ast.BinOp) and isinstance(b_.op, ast.Sub) and isinstance(b_.left, ast.Subscript) and isinstance(b_.right, ast.Subscript)]
        if len(subs) == 4 and len(diff) >= 1:
            c_, d_ = U(diff[0].left), U(diff[0].right)
            ab = [U(x_) for x_ in subs if U(x_) not in (c_, d_)]
            if len(ab) == 2:
                okv = False
                try:
                    got = Converter().conv(vx)
                    want = Expr.atom(ab[0]) * Expr.atom(ab[1]) * (Expr.atom(c_) - Expr.atom(d_)).power(2)
                    okv = got == want
                except NotAlgebraic:
                    okv = False
                ctx.decide(okv, "THRESH", site + ":variance", (fi, vdef[0]), "the maximised quantity is w1·w2·(m1 − m2)² (between-class variance)",
                           f"`{U(vdef[0])[:90]}` is not weight1·weight2·(mean1 − mean2)²: its arg-max is another bin for a skewed histogram (a small bright droplet over a broad "
                           "background), so the 'otsu' threshold is not the one that maximises the between-class variance and the detected droplets differ")


def check(ctx: Ctx):
    ctx.explain(
        "Backward-slice rule on locate_droplets (SLICE), exact normal forms of the threshold rules (THRESH), dispatch exhaustiveness, "
        "strict mask comparison, filter placement before/after refinement on the CFG (FILTER) and removal-loop shape (REMOVE), and an "
        "orientation/cut abstract interpretation of threshold_otsu (ORIENT)."
    )
    check_thresholds(ctx)
    c09.check_threshold_dispatch(ctx)
    check_filter(ctx)
    col.check_safe_removal(ctx, f"{EM}.Emulsion.remove_small", "radius", (ast.LtE,), "radius <= min_radius", param="min_radius")
    check_otsu(ctx)
    # the otsu rule is defined for every finite image: a histogram that cannot resolve the range must not abort the detection
    from ..rules import support as _sup18

    _sup18.compose(ctx, c09.check_otsu_total, keep=("TOTAL",))
    _sup18.compose(ctx, c09.check_histogram_total, keep=("TOTAL",))
    from ..rules import purity as _purity

    _purity.check_late_binding(ctx, ("droplets.image_analysis",))
    # the located droplets are a function of the field and the threshold alone: nothing on the way from the image to the
    # droplets may consult module-level state filled by earlier analyses (caches keyed too coarsely)
    sub_p = Ctx(ctx.model, ctx.prop, ctx.tier)
    _purity.check_stateless(sub_p, ["droplets.image_analysis.locate_droplets"])
    ctx.findings.extend(f for f in sub_p.findings if f.rule == "STATELESS" and (f.verdict == "violated" or f.site == "droplets.image_analysis.locate_droplets"))
    ctx.functions |= sub_p.functions
    from ..rules import support as _sup_r11

    _sup_r11.check_params_not_rebound(ctx, "droplets.image_analysis.refine_droplets", ("phase_field", "candidates", "kwargs"))
    from ..rules import support as _sup_r12b

    _sup_r12b.check_param_not_written(ctx, "droplets.image_analysis.threshold_otsu", "data")
    ctx.expect("STATELESS", 1)
    ctx.expect("LATEBIND", 1)
    ctx.expect("THRESH", 9)
    ctx.expect("EXHAUST", 3)
    ctx.expect("GUARDSHAPE", 2)
    ctx.expect("SLICE", 1)
    ctx.expect("FILTER", 2)
    ctx.expect("REMOVE", 1)
    ctx.expect("ORIENT", 1)
    ctx.trust("numpy.histogram returns counts and edges in increasing bin order; cumsum accumulates along increasing index")
    ctx.assume("invariance of the arg-max index under affine maps in floating point is not decided")
