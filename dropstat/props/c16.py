"""C16 — the structure factor is a normalised, symmetry-invariant power spectrum.

  DIM        unit inference with amplitude (A) and cell-count (N) dimensions: S has degree 0
             in both (constant factors and re-gridding leave it unchanged), wave numbers have
             unit 1/length (scale inversely with the physical size); coordinates of grid
             boundaries are never used as lengths (AFFINE: independent of the origin);
             smoothing widths and k_min share the unit of the wave numbers;
  RAWDATA    transform (orthonormal) and normalisation use the unmodified field values;
  INDEXAGREE wave-vector component i uses cell count and spacing of the same axis i for every
             axis; spectrum and wave numbers drop the zero mode identically;
  PASS       requested wave numbers are returned as given;
  ADDZERO    add_zero prepends exactly (0, 1), unconditionally.
"""

from __future__ import annotations

from ..core import Ctx
from ..rules import spectrum


def check(ctx: Ctx):
    ctx.explain("DIM abstract interpretation of get_structure_factor (units length/amplitude/count and coordinate-vs-length typing) and the structural rules RAWDATA, INDEXAGREE, PASS, ADDZERO.")
    spectrum.check_sf_units(ctx)
    spectrum.check_sf_structure(ctx)
    from ..rules import support

    support.check_sigma_float(ctx)
    from ..rules import purity

    purity.check_stateless(ctx, ["droplets.image_analysis.get_structure_factor"])
    spectrum.check_accumulator_dtype(ctx, ("droplets.image_analysis.get_structure_factor", "droplets.image_analysis.get_length_scale"))
    ctx.expect("DTYPE", 2)
    ctx.expect("STATELESS", 1)
    ctx.expect("DIM", 3)
    ctx.expect("RAWDATA", 4)
    ctx.expect("INDEXAGREE", 2)
    ctx.expect("PASS", 1)
    ctx.expect("ADDZERO", 1)
    ctx.expect("SMOOTHIN", 1)
    ctx.expect("PERMINV", 1)
    ctx.trust("numpy.fft.fftfreq(n, d) has unit 1/unit(d)", "fftn(norm='ortho') scales the amplitude by count^(1/2)", "SmoothData1D(x, y, sigma): sigma in units of x")
    ctx.assume("FFT theorems (Parseval's value, translation/reflection/permutation invariance) and non-negativity of |f|² are library facts, not decided")
