"""C19 — requested droplet model determines the class and shape of every result.

CLASSSEL: the per-candidate fragment of ``locate_droplets`` (from the candidate loop to
``droplets.append``) together with the promotion in ``refine_droplet`` is evaluated
abstractly over the complete finite configuration space

    grid family × dimension ∈ {Cartesian 1,2,3; polar 2; spherical 3; cylindrical 3}
    × modes ∈ {0, >0} × interface width ∈ {not given, 0, positive} × refine ∈ {off, on}

(108 configurations).  Supported subset of Python in the fragment: if/elif/else,
comparisons with constants, ``is (not) None``, ``isinstance`` on the grid or field,
``and/or/not``, class-name assignment, dict stores, ``from_droplet`` conversion, raise.
Anything else ⇒ analysis error (never a verdict).  Periodicity and the threshold rule are
shown irrelevant: no condition of the fragment reads them (SLICE).
LAYOUT makes every conversion constructible; LOCATORS: candidates are plain
SphericalDroplets; NONETEST: a supplied width 0 is stored, not mistaken for "unset".
"""

from __future__ import annotations

import ast
import itertools

from ..astutil import U, view, names_in, stmt_index, compare_parts
from ..core import Ctx
from ..model import AnalysisError, dotted
from ..rules import io, nonetest

IMG = "droplets.image_analysis"
DROP = "droplets.droplets"

FAMILIES = [("CartesianGrid", 1), ("CartesianGrid", 2), ("CartesianGrid", 3), ("PolarSymGrid", 2), ("SphericalSymGrid", 3), ("CylindricalSymGrid", 3)]
GRID_ISA = {
    "CartesianGrid": {"CartesianGrid", "GridBase"},
    "PolarSymGrid": {"PolarSymGrid", "SphericalSymGridBase", "GridBase"},
    "SphericalSymGrid": {"SphericalSymGrid", "SphericalSymGridBase", "GridBase"},
    "CylindricalSymGrid": {"CylindricalSymGrid", "GridBase"},
}
# py-pde contract (trusted base): number of axes, their names and the symmetric (suppressed) coordinates of every grid family
GRID_FACTS = {
    "CartesianGrid": lambda d: {"num_axes": d, "axes": list("xyz")[:d], "axes_symmetric": []},
    "PolarSymGrid": lambda d: {"num_axes": 1, "axes": ["r"], "axes_symmetric": ["φ"]},
    "SphericalSymGrid": lambda d: {"num_axes": 1, "axes": ["r"], "axes_symmetric": ["θ", "φ"]},
    "CylindricalSymGrid": lambda d: {"num_axes": 2, "axes": ["r", "z"], "axes_symmetric": ["φ"]},
}
DROPLET_CLASSES = ["SphericalDroplet", "DiffuseDroplet", "PerturbedDroplet2D", "PerturbedDroplet3D", "PerturbedDroplet3DAxisSym"]


class Unsupported(AnalysisError):
    pass


class DataBranch(Exception):
    """a branch of the selection fragment is decided by a measured quantity (candidate radius, grid spacing)"""


class Raised(Exception):
    def __init__(self, name):
        self.name = name


class Cls:
    """abstract class value"""

    def __init__(self, name):
        self.name = name

    def __eq__(self, o):
        return isinstance(o, Cls) and o.name == self.name

    def __hash__(self):
        return hash(self.name)


class Drop:
    """abstract droplet: class name + fields it was constructed with"""

    def __init__(self, cls, fields):
        self.cls, self.fields = cls, dict(fields)


class _Top:
    """a value that is not a function of the configuration (depends on the image, the grid's spacing, the candidate …)"""

    def __repr__(self):
        return "<data-dependent>"


TOP = _Top()


class Interp:
    def __init__(self, ctx, fi, env):
        self.ctx, self.fi, self.env = ctx, fi, dict(env)
        self.m = ctx.model
        self.out = []

    # expressions ------------------------------------------------------
    def ev(self, n):
        if isinstance(n, ast.Constant):
            return n.value
        if isinstance(n, ast.Name):
            if n.id in self.env:
                return self.env[n.id]
            if n.id in DROPLET_CLASSES or n.id in {c for s in GRID_ISA.values() for c in s} or n.id == "ScalarField":
                return Cls(n.id)
            # a module-level literal table (read afresh for every configuration; whether a call may have rewritten it is
            # the business of the STATELESS rule)
            for st_ in self.fi.module.tree.body:
                tg_ = st_.targets[0] if isinstance(st_, ast.Assign) and len(st_.targets) == 1 else (st_.target if isinstance(st_, ast.AnnAssign) else None)
                if isinstance(tg_, ast.Name) and tg_.id == n.id and isinstance(getattr(st_, "value", None), ast.Dict):
                    tbl = {}
                    for k_, v_ in zip(st_.value.keys, st_.value.values):
                        tbl[self.ev(k_)] = self.ev(v_)
                    self.env[n.id] = tbl
                    return tbl
            raise Unsupported(f"CLASSSEL: name `{n.id}` is not part of the configuration", rule="CLASSSEL")
        if isinstance(n, ast.JoinedStr):
            # f"PerturbedDroplet{dim}D": evaluable when every formatted value is a known number or string
            parts = []
            for v_ in n.values:
                if isinstance(v_, ast.Constant):
                    parts.append(str(v_.value))
                elif isinstance(v_, ast.FormattedValue) and v_.format_spec is None and v_.conversion == -1:
                    x_ = self.ev(v_.value)
                    if x_ is TOP or not isinstance(x_, (int, str)) or isinstance(x_, bool):
                        return TOP
                    parts.append(str(x_))
                else:
                    return TOP
            return "".join(parts)
        if isinstance(n, ast.Attribute):
            d = U(n)
            if d in self.env:
                return self.env[d]
            if n.attr == "_subclasses" and isinstance(n.value, ast.Name) and n.value.id in DROPLET_CLASSES:
                # the registry every droplet class enters under its own name (DropletBase.__init_subclass__, IOAGREE registry:key)
                return {c_: Cls(c_) for c_ in DROPLET_CLASSES}
            base = self.ev(n.value)
            if isinstance(base, Drop) and n.attr == "__class__":
                return Cls(base.cls)
            if isinstance(base, dict) and n.attr in base:
                return base[n.attr]
            if base is TOP or (isinstance(base, dict) and "__isa__" in base) or (isinstance(base, Drop) and n.attr != "__class__"):
                return TOP  # a measured quantity (grid spacing, candidate radius …): not part of the request
            raise Unsupported(f"CLASSSEL: attribute `{d}` not interpretable", rule="CLASSSEL")
        if isinstance(n, ast.Subscript) and isinstance(n.ctx, ast.Load):
            base = self.ev(n.value)
            key = self.ev(n.slice)
            if isinstance(base, dict) and key in base:
                return base[key]
            if isinstance(base, dict):
                raise Raised("KeyError")
            raise Unsupported(f"CLASSSEL: subscript `{U(n)[:50]}` not interpretable", rule="CLASSSEL")
        if isinstance(n, ast.Compare) and len(n.ops) == 1:
            l, r, op = self.ev(n.left), self.ev(n.comparators[0]), n.ops[0]
            if (l is TOP or r is TOP) and isinstance(op, (ast.Is, ast.IsNot)) and (l is None or r is None):
                return isinstance(op, ast.IsNot)  # a measured number is not None
            if l is TOP or r is TOP:
                raise DataBranch(U(n))
            if isinstance(op, ast.Is):
                return l is r if r is None else l == r
            if isinstance(op, ast.IsNot):
                return l is not r if r is None else l != r
            if isinstance(op, ast.Eq):
                return l == r
            if isinstance(op, ast.NotEq):
                return l != r
            if isinstance(op, ast.In):
                return l in r
            if isinstance(op, ast.NotIn):
                return l not in r
            if isinstance(l, (int, float)) and isinstance(r, (int, float)):
                if isinstance(op, ast.Gt):
                    return l > r
                if isinstance(op, ast.GtE):
                    return l >= r
                if isinstance(op, ast.Lt):
                    return l < r
                if isinstance(op, ast.LtE):
                    return l <= r
            raise Unsupported(f"CLASSSEL: comparison `{U(n)}` not interpretable", rule="CLASSSEL")
        if isinstance(n, ast.BoolOp):
            vals = [self.ev(v) for v in n.values]
            return all(vals) if isinstance(n.op, ast.And) else any(vals)
        if isinstance(n, ast.UnaryOp) and isinstance(n.op, ast.Not):
            return not self.ev(n.operand)
        if isinstance(n, ast.UnaryOp) and isinstance(n.op, ast.USub):
            v = self.ev(n.operand)
            if isinstance(v, (int, float)) and not isinstance(v, bool):
                return -v
            raise Unsupported(f"CLASSSEL: expression `{U(n)[:50]}` not interpretable", rule="CLASSSEL")
        if isinstance(n, ast.BinOp):
            return self.arith(n.op, self.ev(n.left), self.ev(n.right), n)
        if isinstance(n, ast.IfExp):
            return self.ev(n.body) if self.ev(n.test) else self.ev(n.orelse)
        if isinstance(n, (ast.List, ast.Tuple, ast.Set)):
            return [self.ev(e) for e in n.elts]
        if isinstance(n, ast.Dict) and not n.keys:
            return {}
        if isinstance(n, ast.Dict) and all(isinstance(k, ast.Constant) and isinstance(k.value, str) for k in n.keys):
            return {k.value: self.ev(v) for k, v in zip(n.keys, n.values)}
        if isinstance(n, ast.Call):
            f = dotted(n.func) or ""
            if f == "isinstance" and len(n.args) == 2:
                obj = self.ev(n.args[0])
                if obj is None or (isinstance(obj, (int, float, str)) and obj is not TOP):
                    # a plain Python value of the request (the width may be an int as well as a float)
                    PY = {"float": (float,), "int": (int,), "bool": (bool,), "complex": (complex,), "str": (str,), "numbers.Real": (int, float), "numbers.Number": (int, float, complex),
                          "numbers.Integral": (int,), "np.floating": (float,), "np.integer": (), "np.number": (float,), "type(None)": (type(None),), "NoneType": (type(None),)}
                    tn = [U(e) for e in n.args[1].elts] if isinstance(n.args[1], ast.Tuple) else [U(n.args[1])]
                    if all(t in PY for t in tn):
                        return isinstance(obj, tuple(x for t in tn for x in PY[t]))
                    raise Unsupported(f"CLASSSEL: isinstance `{U(n)[:50]}` not interpretable", rule="CLASSSEL")
                cls = self.ev(n.args[1])
                names = [c.name for c in (cls if isinstance(cls, list) else [cls])]
                if isinstance(obj, dict) and "__isa__" in obj:
                    return any(c in obj["__isa__"] for c in names)
                if isinstance(obj, Drop):
                    return any(c in self.droplet_mro(obj.cls) for c in names)
                raise Unsupported(f"CLASSSEL: isinstance on `{U(n.args[0])}`", rule="CLASSSEL")
            if f.endswith("np.zeros") or f.endswith("numpy.zeros") or f == "zeros":
                return ("zeros", self.ev(n.args[0]))
            if f in ("int", "float", "min", "max", "round", "abs", "len") and n.args and not n.keywords:
                vals = [self.ev(a) for a in n.args]
                if any(v is TOP for v in vals):
                    return TOP
                if all(isinstance(v, (int, float)) and not isinstance(v, bool) for v in vals):
                    return {"int": int, "float": float, "min": min, "max": max, "round": round, "abs": abs}.get(f, lambda *a: TOP)(*vals)
                return TOP
            if isinstance(n.func, ast.Attribute) and n.func.attr == "from_droplet":
                target = self.ev(n.func.value)
                src = self.ev(n.args[0])
                kw = {}
                for k in n.keywords:
                    if k.arg is None:
                        kw.update(self.ev(k.value))
                    else:
                        kw[k.arg] = self.ev(k.value)
                fields = dict(src.fields)
                fields.update(kw)
                return Drop(target.name, fields)
            # a public function of the package applied to request values (spherical_index_lm(modes), …): its result is some
            # function of the request that this interpreter does not evaluate — never *equal by construction* to a requested value
            try:
                callee_ = view(self.m, self.fi).callee(n)
            except Exception:  # noqa: BLE001
                callee_ = None
            if (callee_ or "").startswith("droplets.") and not (callee_ or "").split(".")[-1].startswith("_"):
                return TOP
            # an element-wise numpy function of a measured quantity is a measured quantity
            if (f.startswith("np.") or f.startswith("numpy.")) and f.split(".")[-1] in ("minimum", "maximum", "clip", "fmin", "fmax", "round", "abs", "sqrt", "floor", "ceil") and n.args and not n.keywords:
                vals = [self.ev(a) for a in n.args]
                if any(v is TOP for v in vals):
                    return TOP
                if all(isinstance(v, (int, float)) and not isinstance(v, bool) for v in vals) and f.split(".")[-1] in ("minimum", "maximum", "fmin", "fmax"):
                    return (min if f.split(".")[-1] in ("minimum", "fmin") else max)(*vals)
            raise Unsupported(f"CLASSSEL: call `{U(n)[:50]}` not interpretable", rule="CLASSSEL")
        raise Unsupported(f"CLASSSEL: expression `{U(n)[:50]}` not interpretable", rule="CLASSSEL")

    def arith(self, op, l, r, n):
        num = lambda v: isinstance(v, (int, float)) and not isinstance(v, bool)
        if (l is TOP and (num(r) or r is TOP)) or (r is TOP and num(l)):
            return TOP
        if num(l) and num(r):
            try:
                if isinstance(op, ast.Add):
                    return l + r
                if isinstance(op, ast.Sub):
                    return l - r
                if isinstance(op, ast.Mult):
                    return l * r
                if isinstance(op, ast.FloorDiv):
                    return l // r
                if isinstance(op, ast.Mod):
                    return l % r
                if isinstance(op, ast.Div):
                    return l / r
                if isinstance(op, ast.Pow):
                    return l ** r
            except ZeroDivisionError:
                raise Raised("ZeroDivisionError")
        raise Unsupported(f"CLASSSEL: arithmetic `{U(n)[:50]}` not interpretable", rule="CLASSSEL")

    def droplet_mro(self, cname):
        ci = self.m.cls(cname)
        return {c.name for c in self.m.mro(ci)}

    # statements --------------------------------------------------------
    def run(self, stmts):
        for s in stmts:
            if isinstance(s, ast.Expr) and isinstance(s.value, ast.Constant):
                continue
            if isinstance(s, ast.If):
                self.run(s.body if self.ev(s.test) else s.orelse)
            elif isinstance(s, (ast.Assign, ast.AnnAssign)):
                t = s.targets[0] if isinstance(s, ast.Assign) else s.target
                v = self.ev(s.value)
                if isinstance(t, ast.Name):
                    self.env[t.id] = v
                elif isinstance(t, ast.Subscript) and isinstance(t.value, ast.Name) and isinstance(self.env.get(t.value.id), dict):
                    self.env[t.value.id][self.ev(t.slice)] = v
                elif isinstance(t, (ast.Tuple, ast.List)) and all(isinstance(e_, ast.Name) for e_ in t.elts) and (v is TOP or (isinstance(v, tuple) and len(v) == len(t.elts))):
                    for k_, e_ in enumerate(t.elts):
                        self.env[e_.id] = TOP if v is TOP else v[k_]
                else:
                    raise Unsupported(f"CLASSSEL: store `{U(t)}` not interpretable", rule="CLASSSEL")
            elif isinstance(s, ast.AugAssign) and isinstance(s.target, ast.Name) and s.target.id in self.env:
                self.env[s.target.id] = self.arith(s.op, self.env[s.target.id], self.ev(s.value), s)
            elif isinstance(s, ast.Pass):
                continue
            elif isinstance(s, ast.Expr) and isinstance(s.value, ast.Call) and (U(s.value.func).startswith(("_logger.", "logger.", "logging.", "warnings.warn")) or U(s.value.func) == "print"):
                continue  # diagnostics do not take part in the selection
            elif isinstance(s, ast.Raise):
                exc = s.exc
                raise Raised(dotted(exc.func) if isinstance(exc, ast.Call) else dotted(exc))
            elif isinstance(s, ast.Expr) and isinstance(s.value, ast.Call) and isinstance(s.value.func, ast.Attribute) and s.value.func.attr == "append":
                self.out.append(self.ev(s.value.args[0]))
            else:
                raise Unsupported(f"CLASSSEL: statement `{U(s)[:60]}` is outside the supported subset", rule="CLASSSEL")


def check_from_droplet_contract(ctx):
    """The class selection is interpreted with the contract "X.from_droplet(src, **kw) = X(fields of src, overridden by kw)".
    The contract itself is checked here against DropletBase.from_droplet: the keyword arguments are merged *after* the source's
    fields (they win); merged the other way round, a supplied width is replaced by the NaN width of the source droplet."""
    m = ctx.model
    fi = m.func("droplets.droplets.DropletBase.from_droplet")
    fv = view(m, fi)
    src = fi.params[1] if len(fi.params) > 1 else "droplet"
    kw = fi.kwarg or "kwargs"
    rets = [r.stmt for r in fv.return_nodes() if r.stmt.value is not None]
    ok, shown = False, ""
    if len(rets) == 1 and isinstance(rets[0].value, ast.Call) and U(rets[0].value.func) == "cls" and len(rets[0].value.keywords) == 1 and rets[0].value.keywords[0].arg is None and not rets[0].value.args:
        d = rets[0].value.keywords[0].value
        shown = U(d)
        if isinstance(d, ast.Name):
            # args = src._args; args.update(kwargs)
            defs = [s_ for s_ in fv.statements() if isinstance(s_, ast.Assign) and U(s_.targets[0]) == d.id]
            upd = [c for c in fv.calls() if isinstance(c.func, ast.Attribute) and c.func.attr == "update" and U(c.func.value) == d.id]
            defs = defs or [s_ for s_ in fv.statements() if isinstance(s_, ast.AnnAssign) and s_.value is not None and U(s_.target) == d.id]
            base_ok = len(defs) == 1 and U(defs[0].value) in (f"{src}._args", f"dict({src}._args)", f"{src}._args.copy()")
            ok = base_ok and len(upd) == 1 and [U(a) for a in upd[0].args] == [kw] and fv.dominates(defs[0], upd[0]) and fv.dominates(upd[0], rets[0])
            if base_ok and not upd:
                # the same merge as a loop: for k, v in kwargs.items(): args[k] = v
                for lp_ in [x for x in fv.statements() if isinstance(x, ast.For)]:
                    if U(lp_.iter) == f"{kw}.items()" and isinstance(lp_.target, ast.Tuple) and len(lp_.target.elts) == 2 and len(lp_.body) == 1 and isinstance(lp_.body[0], ast.Assign):
                        b_ = lp_.body[0]
                        if U(b_.targets[0]) == f"{d.id}[{U(lp_.target.elts[0])}]" and U(b_.value) == U(lp_.target.elts[1]) and fv.dominates(defs[0], lp_) and fv.dominates(lp_, rets[0]):
                            ok = True
                            upd = [lp_]
            shown = f"{U(defs[0].value) if defs else '?'} updated by {[U(c) for c in upd]}"
        elif isinstance(d, ast.Dict) and all(k is None for k in d.keys) and len(d.values) == 2:
            ok = [U(v) for v in d.values] == [f"{src}._args", kw]
        elif isinstance(d, ast.Call) and U(d.func) == "dict" and len(d.args) == 1 and len(d.keywords) == 1 and d.keywords[0].arg is None:
            ok = U(d.args[0]) == f"{src}._args" and U(d.keywords[0].value) == kw
    ctx.decide(ok, "CLASSSEL", fi.qualname + ":override", (fi, rets[0]) if rets else fi, "from_droplet(src, **kw) = cls(fields of src overridden by kw)",
               f"from_droplet builds its arguments as `{shown[:80]}`: the keyword arguments do not take precedence over the source droplet's fields, so `X.from_droplet(d, interface_width=w)` keeps d's "
               "(unset) width — a supplied interface width is lost whenever the candidate is already diffuse")


def expected(family, dim, modes, width, refine):
    if modes > 0 and dim not in (2, 3):
        return ("ValueError",)
    if modes > 0:
        cls = "PerturbedDroplet2D" if dim == 2 else ("PerturbedDroplet3DAxisSym" if family == "CylindricalSymGrid" else "PerturbedDroplet3D")
    elif width is not None or refine:
        cls = "DiffuseDroplet"
    else:
        cls = "SphericalDroplet"
    return (cls, modes if modes > 0 else None, width)


def check_classsel(ctx: Ctx):
    m = ctx.model
    fi = m.func(f"{IMG}.locate_droplets")
    fv = view(m, fi)
    site = fi.qualname + ":class-selection"
    loc = [c for c in fv.calls() if (fv.callee(c) or "").endswith("locate_droplets_in_mask")]
    st = stmt_index(fv).statement(loc[0]) if loc else None
    cand = U(st.targets[0]) if isinstance(st, ast.Assign) else None
    loops = [s for s in fv.statements() if isinstance(s, ast.For) and U(s.iter) == cand and isinstance(s.target, ast.Name)]
    if not loops:
        # the conversion written as a comprehension over the candidates: X = [ELT for d in candidates] ≡ X = []; for d …: X.append(ELT)
        for s in fv.statements():
            v = s.value if isinstance(s, (ast.Assign, ast.AnnAssign)) else None
            tg = (s.targets[0] if isinstance(s, ast.Assign) and len(s.targets) == 1 else getattr(s, "target", None)) if v is not None else None
            if isinstance(v, ast.ListComp) and len(v.generators) == 1 and not v.generators[0].ifs and U(v.generators[0].iter) == cand \
                    and isinstance(v.generators[0].target, ast.Name) and isinstance(tg, ast.Name):
                app = ast.Expr(value=ast.Call(func=ast.Attribute(value=ast.Name(id=tg.id, ctx=ast.Load()), attr="append", ctx=ast.Load()), args=[v.elt], keywords=[]))
                synth = ast.For(target=v.generators[0].target, iter=v.generators[0].iter, body=[app], orelse=[])
                ast.copy_location(synth, s)
                ast.fix_missing_locations(synth)
                synth._stmt = s
                loops.append(synth)
    if len(loops) != 1:
        raise AnalysisError("candidate loop of locate_droplets not found", rule="CLASSSEL")
    lp = loops[0]
    cand_top = None
    for s_ in fi.node.body:
        if st is not None and (s_ is st or any(x is st for x in ast.walk(s_))):
            cand_top = s_
    lp_stmt = getattr(lp, "_stmt", lp)  # the statement of the function that performs the conversion
    dv = lp.target.id
    field = fi.params[0]
    # the early validity checks (statements before the threshold dispatch that only read the configuration)
    pre = [s for s in fi.node.body if isinstance(s, ast.If) and s.body and isinstance(s.body[0], ast.Raise) and "modes" in names_in(s.test)]
    dim_def = [s for s in fi.node.body if isinstance(s, ast.Assign) and U(s.targets[0]) == "dim"]
    ok_dim = len(dim_def) == 1 and U(dim_def[0].value) == f"{field}.grid.dim"
    ctx.decide(ok_dim, "CLASSSEL", site + ":dim", (fi, dim_def[0]) if dim_def else fi, "dim is the grid's space dimension", "`dim` is not phase_field.grid.dim")
    # names read by the fragment: must all be configuration variables (SLICE)
    read = set()
    for s in lp.body:
        read |= names_in(s)
    # statements between the candidates and the conversion that define what the conversion reads (a selection hoisted out
    # of the loop: `droplet_class = …` once for all candidates) belong to the fragment
    hoisted = []
    if cand_top is not None:
        needed = set(read) - {dv}
        between = []
        seen_c = False
        for s_ in fi.node.body:
            if s_ is lp_stmt or any(x is lp_stmt for x in ast.walk(s_)):
                break
            if seen_c:
                between.append(s_)
            if s_ is cand_top:
                seen_c = True
        for s_ in reversed(between):
            st_names = {x.id for x in ast.walk(s_) if isinstance(x, ast.Name) and isinstance(x.ctx, ast.Store)}
            st_names |= {x.value.id for x in ast.walk(s_) if isinstance(x, ast.Subscript) and isinstance(x.ctx, ast.Store) and isinstance(x.value, ast.Name)}
            if isinstance(s_, (ast.Assign, ast.AnnAssign, ast.AugAssign, ast.If)) and (st_names & needed) and cand not in st_names:
                hoisted.insert(0, s_)
                needed |= names_in(s_)
        for s_ in hoisted:
            read |= names_in(s_)
    banned = {"threshold", "refine", "refine_args", "minimal_radius", "num_processes"}
    foreign = read & banned
    for x in ast.walk(lp):
        if isinstance(x, ast.Attribute) and x.attr in ("periodic", "data") and field in names_in(x):
            foreign.add(U(x))
    ctx.decide(not foreign, "SLICE", site, (fi, lp), "class selection reads only (dimension, grid family, modes, interface width): periodicity, threshold rule, refinement flag and the image values are irrelevant",
               f"class selection also reads {sorted(foreign)}: the class of the result would depend on settings the request does not mention")
    # refine promotion
    rf = m.func(f"{IMG}.refine_droplet")
    prom = [s for s in rf.node.body if isinstance(s, ast.If) and "isinstance" in U(s.test) and "DiffuseDroplet" in U(s.test)]
    wdef = [s for s in rf.node.body if isinstance(s, ast.If) and "interface_width" in U(s.test) and "None" in U(s.test)]
    CFG_NAMES = {"modes", "interface_width", "dim"}
    prefix_cfg = []

    def _stores(st_):
        return {x.id for x in ast.walk(st_) if isinstance(x, ast.Name) and isinstance(x.ctx, ast.Store)}

    def _collect(block):
        for s_ in block:
            if s_ is lp_stmt or any(x is lp_stmt for x in ast.walk(s_)):
                break
            if s_ in pre or s_ in dim_def or s_ in hoisted:
                continue
            if isinstance(s_, (ast.FunctionDef, ast.ClassDef, ast.Import, ast.ImportFrom)):
                continue
            if _stores(s_) & CFG_NAMES:
                prefix_cfg.append(s_)

    _collect(fi.node.body)
    n_cfg, bad = 0, []
    samples = []
    # mode counts: 0, the smallest request (1), typical ones, and the neighbours of every integer literal the function compares
    # or combines with a configuration variable (boundary values of whatever threshold the code uses)
    lits = set()
    for n_ in ast.walk(fi.node):
        if isinstance(n_, ast.Compare) and (names_in(n_) & CFG_NAMES):
            for c_ in [n_.left] + list(n_.comparators):
                if isinstance(c_, ast.Constant) and isinstance(c_.value, int) and not isinstance(c_.value, bool) and 0 <= c_.value <= 16:
                    lits.update({c_.value - 1, c_.value, c_.value + 1})
    mode_values = tuple(sorted({0, 1, 2, 3} | {v for v in lits if 0 <= v <= 17}))
    width_values = (None, 0.0, 1.5, 1)
    for (family, dim), modes, width, refine in itertools.product(FAMILIES, mode_values, width_values, (False, True)):
        n_cfg += 1
        grid = {"__isa__": GRID_ISA[family], "dim": dim, **GRID_FACTS[family](dim)}
        env = {
            "interface_width": width, "modes": modes, "dim": dim, "refine": refine, field: {"__isa__": {"ScalarField"}, "grid": grid}, f"{field}.grid": grid,
            dv: Drop("SphericalDroplet", {"position": "p", "radius": "r"}), "droplets": [],
        }
        want = expected(family, dim, modes, width, refine)
        got = None
        try:
            it = Interp(ctx, fi, env)
            it.run(pre)
            # statements between the entry and the candidate loop that rebind a configuration variable (modes,
            # interface_width, dim) take part in the selection: `modes = 0 on symmetric grids`, `width = max(width, dx)` …
            for s_pre in prefix_cfg:
                it.run([s_pre])
            it.run(hoisted)
            it.run(lp.body)
            if len(it.out) != 1:
                got = ("stores", len(it.out))
            else:
                d = it.out[0]
                if not isinstance(d, Drop):
                    got = ("not-a-droplet",)
                else:
                    if refine:
                        it2 = Interp(ctx, rf, {"droplet": d, rf.params[0]: env[field], f"{rf.params[0]}.grid": grid})
                        it2.env["droplet.interface_width"] = d.fields.get("interface_width")
                        it2.run(prom)
                        d = it2.env["droplet"]
                    amp = d.fields.get("amplitudes")
                    n_amp = amp[1] if isinstance(amp, tuple) and amp[0] == "zeros" else (None if amp is None else "?")
                    if n_amp is TOP:
                        n_amp = "<data-dependent>"
                    w = d.fields.get("interface_width")
                    if w is TOP:
                        w = "<data-dependent>"
                    got = (d.cls, n_amp, w)
                    # constructible: fields ⊆ constructor params of the class
                    fields, params, stored, init = io.class_layout(ctx, d.cls)
                    extra = set(d.fields) - set(params)
                    if extra:
                        got = ("TypeError", d.cls, tuple(sorted(extra)))
        except Raised as r:
            got = (r.name,)
        except DataBranch as db:
            # one class and one layout per result: what a droplet is converted to may not depend on what was measured for it
            got = (f"decided per droplet by `{db}` (a measured quantity, not part of the request)",)
        except Unsupported:
            if not foreign:
                raise
            # the fragment reads something outside the request (reported by SLICE): its outcome is not a function of the request
            got = ("depends on " + ", ".join(sorted(foreign)),)
        if want[0] == "ValueError":
            ok = got == ("ValueError",)
        elif refine:
            ok = got is not None and got[0] == want[0] and got[1] == want[1]  # width is fitted when refining
        else:
            ok = got == want
        if not ok:
            bad.append(((family, dim, modes, width, refine), want, got))
        if len(samples) < 12:
            samples.append({"config": [family, dim, modes, width, refine], "result": list(got) if got else None})
    ctx.extra["configurations"] = n_cfg
    ctx.extra["config_samples"] = samples
    if bad:
        cfg, want, got = bad[0]
        ctx.violate("CLASSSEL", site, (fi, lp_stmt),
                    f"{len(bad)} of {n_cfg} configurations give the wrong result; e.g. (grid={cfg[0]}, dim={cfg[1]}, modes={cfg[2]}, interface_width={cfg[3]}, refine={cfg[4]}): "
                    f"expected {want} (class, amplitudes, width) but the code yields {got}")
    else:
        ctx.hold("CLASSSEL", site, (fi, lp), f"all {n_cfg} configurations yield the class, amplitude count and carried width the request implies")
    ctx.exhaustive = True
    # every result passes the class selection: no return of locate_droplets hands out the candidates (or anything derived
    # from them) without going through the conversion loop
    cand_st = st
    esc = []
    for rn in fv.return_nodes():
        r = rn.stmt
        if r.value is None or cand_st is None or not fv.dominates(cand_st, r):
            continue
        if fv.dominates(lp_stmt, r):
            continue
        val = fv.expand(r.value, r, stop=(cand, field), allow_mutated=True)
        if cand in names_in(val):
            esc.append(r)
    ctx.decide(not esc, "CLASSSEL", site + ":all-paths", (fi, esc[0]) if esc else (fi, lp), "every path that returns located droplets passes the class-selection loop",
               f"`{U(esc[0])[:70] if esc else ''}` returns the candidates without passing the class selection: on that path a supplied interface width / requested modes are ignored and plain SphericalDroplets are returned")
    # refine_droplet: no return before the promotion
    rfv = view(m, rf)
    early = []
    if len(prom) == 1:
        for rn in rfv.return_nodes():
            r = rn.stmt
            if r.value is not None and not rfv.dominates(prom[0], r):
                early.append(r)
    ctx.decide(not early, "CLASSSEL", rf.qualname + ":all-paths", (rf, early[0]) if early else rf, "every return of refine_droplet is preceded by the promotion to DiffuseDroplet",
               f"`{U(early[0])[:60] if early else ''}` returns before the candidate is promoted: with refinement on, such a droplet stays a SphericalDroplet and the results of one call no longer share one class")
    # … and returns the promoted object: a name that was bound to the candidate *before* the promotion (`candidate = droplet` kept "in case
    # the fit fails") still refers to the unpromoted SphericalDroplet
    if len(prom) == 1:
        dparam = rf.params[1] if len(rf.params) > 1 else "droplet"
        stale = []
        for rn in rfv.return_nodes():
            r = rn.stmt
            if r.value is None or not isinstance(r.value, ast.Name) or r.value.id == dparam:
                continue
            for d_ in rfv.defs_reaching(r.value.id, r):
                v_ = rfv.value_of_def(d_, r.value.id) if d_.stmt is not None else None
                if isinstance(v_, ast.Name) and v_.id == dparam and d_.stmt is not None and not rfv.dominates(prom[0], d_.stmt):
                    stale.append(r)
        ctx.decide(not stale, "CLASSSEL", rf.qualname + ":returns-promoted", (rf, stale[0]) if stale else rf, "every return hands out the promoted droplet",
                   f"`{U(stale[0])[:50] if stale else ''}` returns a name bound to the candidate before its promotion: on that path (e.g. a fit that did not converge) a SphericalDroplet is returned "
                   "although refinement is on, and the droplets of one result no longer share one class and layout")
    # promotion shape
    okp = len(prom) == 1 and U(prom[0].test) == "not isinstance(droplet, DiffuseDroplet)"
    ctx.decide(okp, "CLASSSEL", rf.qualname + ":promotion", (rf, prom[0]) if prom else rf, "refinement promotes exactly the non-diffuse candidates", "refine_droplet does not promote exactly the non-DiffuseDroplet candidates")
    # one layout per result: the fragment has no condition on loop-variant values other than the candidate's class
    variant = {dv}
    conds = [s.test for s in ast.walk(lp) if isinstance(s, ast.If)]
    def _class_test(c):
        cp = compare_parts(c)
        return cp is not None and isinstance(cp[1], (ast.Eq, ast.NotEq, ast.Is, ast.IsNot)) and any(U(x) in (f"{dv}.__class__", f"type({dv})") for x in (cp[0], cp[2]))

    dep = [c for c in conds if names_in(c) & variant and not _class_test(c)]
    ctx.decide(not dep, "CLASSSEL", site + ":uniform", (fi, lp), "no branch depends on an individual candidate: all results of one call share one class and data layout",
               f"class selection depends on the individual candidate: `{U(dep[0]) if dep else ''}`")


def check_locators(ctx: Ctx):
    m = ctx.model
    n = 0
    for fi in m.all_functions():
        if fi.module.name != IMG or not fi.name.startswith("_locate_droplets_in_mask"):
            continue
        for c in ast.walk(fi.node):
            if isinstance(c, ast.Call):
                d = dotted(c.func) or ""
                head = d.split(".")[0]
                if head in DROPLET_CLASSES:
                    n += 1
                    ctx.decide(head == "SphericalDroplet", "LOCATORS", f"{fi.qualname}:{d}", (fi, c), "candidates are plain SphericalDroplets",
                               f"a locator constructs `{d}`: class selection assumes SphericalDroplet candidates")
    return n


def check(ctx: Ctx):
    m = ctx.model
    check_from_droplet_contract(ctx)
    ctx.explain(
        "CLASSSEL: exhaustive abstract evaluation of the class-selection fragment of locate_droplets and the promotion of refine_droplet over "
        "all 108 configurations, compared with the table of the property; SLICE: the fragment reads only configuration variables; LAYOUT: "
        "dtype fields = constructor parameters for every class (conversions constructible); LOCATORS; NONETEST on the width setter."
    )
    check_classsel(ctx)
    # the selection is a function of the request alone: no module-level table that a call may have rewritten
    from ..rules import purity

    sub_p = Ctx(ctx.model, ctx.prop, ctx.tier)
    purity.check_stateless(sub_p, [f"{IMG}.locate_droplets"])
    ctx.findings.extend(f for f in sub_p.findings if f.rule == "STATELESS" and (f.verdict == "violated" or f.site == f"{IMG}.locate_droplets"))
    ctx.functions |= sub_p.functions
    from ..rules import purity as _pur

    _pur.check_mutable_defaults(ctx, ("droplets.image_analysis", "droplets.emulsions", "droplets.droplets", "droplets.droplet_tracks", "droplets.trackers"))
    from ..rules import support as _sup_r12

    _sup_r12.check_flag_tests(ctx, ("droplets.image_analysis.locate_droplets", "droplets.image_analysis.refine_droplet"))
    ctx.expect("MUTDEFAULT", 5)
    ctx.expect("STATELESS", 1)
    check_locators(ctx)
    from ..rules import support as _sup19

    _sup19.check_result_layout(ctx)
    # the class of a refined result is the class refine_droplet returns, with one process or many: both arms of
    # refine_droplets hand out the callee's own results
    from . import c15 as _c15

    sub_s = Ctx(ctx.model, ctx.prop, ctx.tier)
    for fi_, ifn_ in _c15.discover_splits(ctx.model):
        if fi_.qualname == f"{IMG}.refine_droplets":
            _c15.check_split(sub_s, fi_, ifn_)
    ctx.findings.extend(f for f in sub_s.findings if f.rule == "PARMAP")
    ctx.functions |= sub_s.functions
    ctx.expect("PARMAP", 6)
    io.check_layouts(ctx)
    setter = m.func(f"{DROP}.DiffuseDroplet.interface_width@setter")
    nonetest.check(ctx, setter, setter.params[1], "the interface width being set")
    # Emulsion.data forms one table: covered by the uniform-class rule above and io.check_one_class
    io.check_one_class(ctx)
    ctx.expect("CLASSSEL", 6)
    ctx.expect("SLICE", 1)
    ctx.expect("LOCATORS", 5)
    ctx.expect("LAYOUT", 5)
    ctx.expect("NONETEST", 1)
    ctx.trust("py-pde grid class hierarchy: PolarSymGrid, SphericalSymGrid ⊂ SphericalSymGridBase; CylindricalSymGrid and CartesianGrid are separate families")
    ctx.assume("values fitted by refinement (width, amplitudes) are not decided, only class and layout")
