"""C15 — results do not depend on the number of worker processes or on scheduling.

PARMAP: the parallel branch obtains results from an order-preserving ``Executor.map``
consumed in order; serial and parallel branches apply the same callee with the same
fixed arguments over the same iterable with the same filter; PURE: no randomness,
clock, environment or global mutable state reachable from the analysis entry points.
"""

from __future__ import annotations

import ast

from ..astutil import U, view, arg_or_kw, kwarg, stmt_index, names_in, loop_as_comprehension
from ..callgraph import CallGraph
from ..cfg import walk_no_nested

IMG = "droplets.image_analysis"
from ..core import Ctx
from ..model import dotted

UNORDERED = {"as_completed", "imap_unordered", "map_async", "apply_async", "wait", "submit", "imap", "starmap_async"}
REORDER = {"sorted", "reversed", "set", "frozenset", "shuffle", "permutation"}
PASS_ITER = {"pde.tools.output.display_progress", "display_progress", "iter", "list", "tuple", "tqdm.tqdm"}
EXECUTORS = {"concurrent.futures.ProcessPoolExecutor", "concurrent.futures.ThreadPoolExecutor",
             "concurrent.futures.process.ProcessPoolExecutor", "concurrent.futures.thread.ThreadPoolExecutor"}

ENTRY = [
    "droplets.image_analysis.locate_droplets",
    "droplets.image_analysis.refine_droplets",
    "droplets.image_analysis.refine_droplet",
    "droplets.emulsions.EmulsionTimeCourse.from_storage",
]

IMPURE_PREFIX = ("numpy.random", "random.", "time.", "datetime.", "uuid.", "secrets.", "os.urandom", "os.getpid",
                 "os.environ", "os.getenv", "threading.", "multiprocessing.current_process")
IMPURE_BUILTINS = {"id", "hash", "input"}


def discover_splits(model):
    """Functions with a ``num_processes`` parameter and a test on it."""
    out = []
    for fi in model.all_functions():
        if "num_processes" in fi.all_params:
            for n in ast.walk(fi.node):
                if isinstance(n, ast.If) and "num_processes" in names_in(n.test):
                    out.append((fi, n))
                    break
    return out


def forwarders(model):
    out = []
    for fi in model.all_functions():
        if "num_processes" in fi.all_params:
            out.append(fi)
    return out


def strip_iter(model, mod, it):
    """Remove order-preserving wrappers around an iterable."""
    while isinstance(it, ast.Call):
        name = model.callee(mod, it) or ""
        if (name in PASS_ITER or name.split(".")[-1] in ("display_progress",)) and it.args:
            it = it.args[0]
        else:
            break
    return it


class CallSpec:
    """T(*fixed, <item>, **kw) normal form"""

    def __init__(self, target, fixed, kws, star):
        self.target, self.fixed, self.kws, self.star = target, fixed, kws, star

    def key(self):
        return (self.target, tuple(self.fixed), tuple(sorted(self.kws.items())), tuple(sorted(self.star)))

    def __str__(self):
        kw = [f"{k}={v}" for k, v in sorted(self.kws.items())] + [f"**{s}" for s in sorted(self.star)]
        return f"{self.target}({', '.join(list(self.fixed) + ['<item>'] + kw)})"


def spec_from_partial(model, fv, call: ast.Call):
    """functools.partial(T, *fixed, **kw) → CallSpec"""
    name = model.callee(fv.mod, call) or ""
    if not name.endswith("partial") or not call.args:
        return None
    t = model.resolve(fv.mod, dotted(call.args[0])) or U(call.args[0])
    fixed = [U(a) for a in call.args[1:]]
    kws = {k.arg: U(k.value) for k in call.keywords if k.arg}
    star = [U(k.value) for k in call.keywords if k.arg is None]
    return CallSpec(t, fixed, kws, star)


def spec_from_call(model, fv, call: ast.Call, item: str):
    t = model.callee(fv.mod, call) or U(call.func)
    base = None
    if isinstance(call.func, ast.Name):
        # a local name bound once to functools.partial(T, *fixed, **kw): the call applies T(*fixed, *args, **kw, **kwargs)
        for st_ in fv.statements():
            if isinstance(st_, (ast.Assign, ast.AnnAssign)) and st_.value is not None and isinstance(st_.value, ast.Call):
                tg_ = st_.targets[0] if isinstance(st_, ast.Assign) else st_.target
                if isinstance(tg_, ast.Name) and tg_.id == call.func.id:
                    base = spec_from_partial(model, fv, st_.value) if base is None else False
    if base:
        inner = spec_from_call_plain(base.target, call, item)
        if inner is None or set(inner.kws) & set(base.kws):
            return None
        return CallSpec(base.target, list(base.fixed) + list(inner.fixed), {**base.kws, **inner.kws}, list(base.star) + list(inner.star))
    return spec_from_call_plain(t, call, item)


def spec_from_call_plain(t, call: ast.Call, item: str):
    fixed = []
    seen_item = False
    for a in call.args:
        if isinstance(a, ast.Name) and a.id == item:
            seen_item = True
            break
        fixed.append(U(a))
    if not seen_item:
        return None
    # nothing positional may follow the item
    idx = len(fixed)
    if len(call.args) != idx + 1:
        return None
    kws = {k.arg: U(k.value) for k in call.keywords if k.arg}
    star = [U(k.value) for k in call.keywords if k.arg is None]
    return CallSpec(t, fixed, kws, star)


def comp_parts(comp):
    """(elt, target name, iter, [ifs]) of a single-generator comprehension"""
    if isinstance(comp, (ast.ListComp, ast.GeneratorExp)) and len(comp.generators) == 1:
        g = comp.generators[0]
        if isinstance(g.target, ast.Name):
            return comp.elt, g.target.id, g.iter, list(g.ifs)
    return None


def norm_filter(test, result_name):
    class R(ast.NodeTransformer):
        def visit_Name(self, n):
            return ast.Name(id="_", ctx=n.ctx) if n.id == result_name else n

    import copy

    return U(R().visit(copy.deepcopy(test)))



def _block_statements(body):
    """statements of an arm in order, looking through with-blocks"""
    for s in body:
        yield s
        if isinstance(s, (ast.With, ast.AsyncWith)):
            yield from _block_statements(s.body)


RETURNED = "<returned>"


def arm_result(fv, arm_body, want_name=None, only=None, pre=()):
    """(result name, value expression, statement) for an arm: either a plain assignment or an
    empty-list initialisation followed by an appending loop (returned as a comprehension).
    Names that merely alias another expression of the arm are expanded."""
    import copy

    stmts = list(_block_statements(arm_body))
    alias = {}
    inits = {}
    for s in pre:  # an empty result list created before the branch and filled by both arms
        if isinstance(s, (ast.Assign, ast.AnnAssign)) and s.value is not None and isinstance(s.value, ast.List) and not s.value.elts:
            tg = s.targets[0] if isinstance(s, ast.Assign) else s.target
            if isinstance(tg, ast.Name):
                inits[tg.id] = s
    for s in stmts:
        if isinstance(s, (ast.Assign, ast.AnnAssign)):
            tg = s.targets[0] if isinstance(s, ast.Assign) else s.target
            if isinstance(tg, ast.Name) and s.value is not None:
                if isinstance(s.value, ast.List) and not s.value.elts:
                    inits[tg.id] = s
                else:
                    alias[tg.id] = s
        elif isinstance(s, ast.Return) and s.value is not None and not isinstance(s.value, (ast.Name, ast.Constant)):
            # the arm returns its result directly: the value of a pseudo variable
            alias[RETURNED] = ast.copy_location(ast.Assign(targets=[ast.Name(id=RETURNED, ctx=ast.Store())], value=s.value, lineno=s.lineno), s)
        elif isinstance(s, ast.For):
            for r in list(inits):
                comp = loop_as_comprehension(s, r)
                if comp is not None:
                    alias[r] = ast.copy_location(ast.Assign(targets=[ast.Name(id=r, ctx=ast.Store())], value=comp, lineno=s.lineno), s)

    def expand(e, depth=4):
        class Sub(ast.NodeTransformer):
            def visit_Name(self, n):
                if isinstance(n.ctx, ast.Load) and n.id in alias and depth > 0 and n.id != want_name:
                    v = alias[n.id].value
                    if isinstance(v, (ast.Call, ast.GeneratorExp, ast.ListComp)) and (only is None or only(v)):
                        return expand(copy.deepcopy(v), depth - 1)
                return n

        return Sub().visit(e)

    out = []
    for name, s in alias.items():
        if want_name is not None and name != want_name:
            continue
        out.append((name, expand(copy.deepcopy(s.value)), s))
    return out


def analyse_serial(model, fv, value):
    """value: comprehension/generator/list(...) over ITER applying T. Returns
    (spec, iter_expr, filters) or None."""
    if isinstance(value, ast.Call) and (dotted(value.func) in ("list", "tuple")) and value.args:
        value = value.args[0]
    cp = comp_parts(value)
    if cp is None:
        return None
    elt, item, it, ifs = cp
    # a filtering pass over a lazily mapped sequence: [r for r in (T(x) for x in ITER) if pred(r)]
    if isinstance(elt, ast.Name) and elt.id == item and isinstance(it, (ast.GeneratorExp, ast.ListComp)) and not any(isinstance(n, ast.NamedExpr) for t in ifs for n in ast.walk(t)):
        inner = analyse_serial(model, fv, it)
        if inner is None:
            return None
        spec_i, it_i, filters_i = inner
        return spec_i, it_i, sorted(list(filters_i) + [norm_filter(t, item) for t in ifs])
    filters = []
    call = None
    res_name = None
    # walrus in a filter: (r := T(...)) <pred>
    for t in ifs:
        w = [n for n in ast.walk(t) if isinstance(n, ast.NamedExpr)]
        if w and isinstance(w[0].value, ast.Call):
            call = w[0].value
            res_name = w[0].target.id

            class Rep(ast.NodeTransformer):
                def visit_NamedExpr(self, n):
                    return ast.Name(id=res_name, ctx=ast.Load())

            import copy

            filters.append(norm_filter(Rep().visit(copy.deepcopy(t)), res_name))
        else:
            filters.append(("item:" + U(t)) if res_name is None else norm_filter(t, res_name))
    if call is None and isinstance(elt, ast.Name) and elt.id == item:
        # [x for x in ITER if T(x) …]: the callee runs in a filter, the *item* is collected
        inner_calls = [c_ for t in ifs for c_ in ast.walk(t) if isinstance(c_, ast.Call) and item in names_in(c_) and not (isinstance(c_.func, ast.Name) and c_.func.id in ("isinstance", "len", "bool"))]
        if inner_calls:
            return ("collects-item", inner_calls[0], it)
    if call is None:
        if isinstance(elt, ast.Call):
            call = elt
            # filters that repeat the applied call (loop temporaries substituted) refer to the result
            txt = U(call)
            import copy as _copy

            class RepCall(ast.NodeTransformer):
                def visit_Call(self, n):
                    if U(n) == txt:
                        return ast.Name(id="_", ctx=ast.Load())
                    return self.generic_visit(n)

            filters = [U(RepCall().visit(_copy.deepcopy(t))) if txt in U(t) else f for t, f in zip(ifs, filters)]
        else:
            return None
    else:
        if not (isinstance(elt, ast.Name) and elt.id == res_name):
            return None
    spec = spec_from_call(model, fv, call, item)
    if spec is None:
        return None
    return spec, it, sorted(filters)


def analyse_serial_generator(ctx, model, fi, fv, value, site):
    """serial arm written as a local generator function (or any local function with one loop over the items): the items
    must be analysed independently of one another — the callee's other arguments may not be rebound or mutated inside the loop
    (a value carried from one item to the next makes the serial result differ from the parallel one, which cannot carry it)"""
    if not (isinstance(value, ast.Call) and isinstance(value.func, ast.Name) and not value.args and not value.keywords):
        return None
    g = [x for x in model.all_functions() if x.parent is fi and x.name == value.func.id]
    if len(g) != 1 or isinstance(g[0].node, ast.Lambda):
        return None
    g = g[0]
    loops = [n for n in g.node.body if isinstance(n, ast.For)]
    if len(loops) != 1 or not isinstance(loops[0].target, ast.Name):
        return None
    lp = loops[0]
    item = lp.target.id
    yields = [n for n in ast.walk(lp) if isinstance(n, (ast.Yield,))]
    if len(yields) != 1 or yields[0].value is None:
        return None
    gv = view(model, g)
    yv = yields[0].value
    call = yv if isinstance(yv, ast.Call) else None
    if isinstance(yv, ast.Name):
        defs = [s_ for s_ in ast.walk(lp) if isinstance(s_, ast.Assign) and len(s_.targets) == 1 and isinstance(s_.targets[0], ast.Name) and s_.targets[0].id == yv.id]
        if len(defs) == 1 and isinstance(defs[0].value, ast.Call):
            call = defs[0].value
    if call is None:
        return None
    # loop-carried state: names (other than the item) read by the call that are written inside the loop
    body_nodes = [n for st_ in lp.body for n in ast.walk(st_)]
    carried = []
    for nm in sorted(names_in(call) - {item}):
        for n in body_nodes:
            if isinstance(n, ast.Name) and n.id == nm and isinstance(n.ctx, ast.Store):
                carried.append((nm, n))
            if isinstance(n, (ast.Subscript, ast.Attribute)) and isinstance(n.ctx, ast.Store):
                root = n
                while isinstance(root, (ast.Subscript, ast.Attribute)):
                    root = root.value
                if isinstance(root, ast.Name) and root.id == nm:
                    carried.append((nm, n))
            if isinstance(n, ast.Call) and isinstance(n.func, ast.Attribute) and n.func.attr in ("update", "setdefault", "append", "pop", "clear", "extend") and isinstance(n.func.value, ast.Name) and n.func.value.id == nm:
                carried.append((nm, n))
    if carried:
        nm, n = carried[0]
        ctx.violate("PARMAP", site + ":same-callee", (g, n), f"the serial branch changes `{nm}` inside the loop over the items and passes it to the per-item call `{U(call)[:70]}`: "
                    "a frame's analysis depends on the frames analysed before it, which the parallel branch (independent workers) cannot reproduce")
        return "violated"
    # resolve a loop-invariant `args = dict(kwargs)` style alias of the keyword dictionary
    spec = spec_from_call(model, gv, call, item)
    if spec is None:
        return None
    pre_alias = {}
    for st_ in g.node.body:
        if st_ is lp:
            break
        if isinstance(st_, ast.Assign) and len(st_.targets) == 1 and isinstance(st_.targets[0], ast.Name):
            v = st_.value
            if isinstance(v, ast.Call) and U(v.func) == "dict" and len(v.args) == 1 and not v.keywords:
                pre_alias[st_.targets[0].id] = U(v.args[0])
            elif isinstance(v, ast.Name):
                pre_alias[st_.targets[0].id] = v.id
    spec = CallSpec(spec.target, [pre_alias.get(x, x) for x in spec.fixed], {k: pre_alias.get(v, v) for k, v in spec.kws.items()}, [pre_alias.get(x, x) for x in spec.star])
    return spec, lp.iter, []


def analyse_parallel(ctx, model, fv, fi, arm_body, site, pre=()):
    """Find executor.map in the parallel arm. Returns (spec, iter, filters, node) or
    records a violation and returns None."""
    calls = []
    for s in arm_body:
        for n in ast.walk(s):
            if isinstance(n, ast.Call):
                calls.append(n)
    # executor objects: names bound by `with Executor(...) as name`
    execs = set()
    for s in arm_body:
        for n in ast.walk(s):
            if isinstance(n, ast.With):
                for it in n.items:
                    if isinstance(it.context_expr, ast.Call):
                        nm = model.callee(fv.mod, it.context_expr) or ""
                        if nm in EXECUTORS or nm.endswith("PoolExecutor") or nm.endswith(".Pool"):
                            if isinstance(it.optional_vars, ast.Name):
                                execs.add(it.optional_vars.id)
    bad = []
    maps = []
    for c in calls:
        f = c.func
        last = f.attr if isinstance(f, ast.Attribute) else (f.id if isinstance(f, ast.Name) else "")
        if last in UNORDERED:
            bad.append((c, f"results obtained through `{last}` arrive in completion order / are not an ordered map"))
        if isinstance(f, ast.Attribute) and f.attr == "map" and isinstance(f.value, ast.Name) and f.value.id in execs:
            maps.append(c)
    if bad:
        c, why = bad[0]
        ctx.violate("PARMAP", site + ":ordered-map", (fi, c), why)
        return None
    if len(maps) != 1:
        ctx.violate("PARMAP", site + ":ordered-map", fi, f"parallel branch must obtain its results from exactly one Executor.map call; found {len(maps)} (executors: {sorted(execs) or 'none'})")
        return None
    mp = maps[0]
    if len(mp.args) != 2 or any(k.arg not in ("chunksize", "timeout") for k in mp.keywords):
        ctx.violate("PARMAP", site + ":ordered-map", (fi, mp), f"unexpected Executor.map arguments: {U(mp)}")
        return None
    ctx.hold("PARMAP", site + ":ordered-map", (fi, mp), "results come from Executor.map (yields in input order for every completion schedule)")
    # consumption: list(map) / identity comprehension / appending loop over the map (possibly through a temporary)
    si = stmt_index(fv)
    stmt = si.statement(mp)
    consumer_ok, filters, res = False, [], None
    mp_txt = U(mp)
    for name, v, st in arm_result(fv, arm_body, only=lambda val: mp_txt in U(val), pre=pre):
        if mp_txt not in U(v):
            continue
        if isinstance(v, ast.Call) and dotted(v.func) in ("list", "tuple") and len(v.args) == 1 and U(v.args[0]) == mp_txt:
            consumer_ok, res, stmt = True, name, st
        else:
            cp = comp_parts(v) if isinstance(v, ast.ListComp) else None
            if cp is not None and U(cp[2]) == mp_txt:
                elt, item, _, ifs = cp
                if isinstance(elt, ast.Name) and elt.id == item:
                    consumer_ok, res, stmt = True, name, st
                    filters = sorted(norm_filter(t, item) for t in ifs)
    if not consumer_ok:
        ctx.violate("PARMAP", site + ":consumed-in-order", (fi, stmt if stmt is not None else mp),
                    f"the mapped results are not consumed in order by list(...), an identity comprehension or an appending loop: {U(stmt)[:120] if stmt is not None else ''}")
        return None
    ctx.hold("PARMAP", site + ":consumed-in-order", (fi, stmt), "consumed by list()/identity comprehension without reordering")
    # callable
    fn = mp.args[0]
    spec = None
    if isinstance(fn, ast.Name):
        r = fv.single_def_value(fn.id, mp)
        if r is not None:
            v = r[0]
            if isinstance(v, ast.Call):
                spec = spec_from_partial(model, fv, v)
        if spec is None:
            t = model.resolve(fv.mod, fn.id)
            if t in model.functions:
                spec = CallSpec(t, [], {}, [])
    elif isinstance(fn, ast.Call):
        spec = spec_from_partial(model, fv, fn)
    if spec is None:
        ctx.undecided("PARMAP", site + ":same-callee", (fi, mp), f"mapped callable not recognised: {U(fn)}")
        return None
    return spec, mp.args[1], filters, mp, res



DICT_MUTATORS = {"setdefault", "update", "pop", "popitem", "clear", "append", "extend", "insert", "remove", "sort", "reverse", "add", "discard", "__setitem__", "__delitem__"}


def check_shared(ctx: Ctx, callee_q: str, n_fixed: int, site: str):
    """SHARED: the per-item callee T(*fixed, item, **kw) receives the *same* fixed/keyword objects for
    every item in the serial arm and pickled copies in the workers.  A write into such an object is
    invisible to later items in parallel runs but visible in serial runs, unless what is written does
    not depend on the item (idempotent defaults).  Decided by a flow-insensitive taint closure from
    the item parameter to every mutation of another parameter's object."""
    m = ctx.model
    if callee_q not in m.functions:
        ctx.undecided("SHARED", site, None, f"callee {callee_q} is outside the repository")
        return
    fi = m.func(callee_q)
    fv = view(m, fi)
    ctx.analysed(fi)
    a = fi.node.args
    pos = [x.arg for x in a.posonlyargs + a.args]
    if n_fixed >= len(pos):
        ctx.undecided("SHARED", site, fi, "item parameter not identified")
        return
    item = pos[n_fixed]
    shared = [p for p in pos + [x.arg for x in a.kwonlyargs] if p != item]
    tainted = {item}
    changed = True
    assigns = []
    for n in walk_no_nested(fi.node):
        if isinstance(n, ast.Assign):
            assigns.append((n.targets, n.value))
        elif isinstance(n, ast.AnnAssign) and n.value is not None:
            assigns.append(([n.target], n.value))
        elif isinstance(n, ast.AugAssign):
            assigns.append(([n.target], n.value))
        elif isinstance(n, (ast.For, ast.comprehension)):
            assigns.append(([n.target], n.iter))
        elif isinstance(n, ast.NamedExpr):
            assigns.append(([n.target], n.value))
        elif isinstance(n, ast.withitem) and n.optional_vars is not None:
            assigns.append(([n.optional_vars], n.context_expr))
    while changed:
        changed = False
        for targets, value in assigns:
            if names_in(value) & tainted:
                for t in targets:
                    base = t
                    while isinstance(base, (ast.Attribute, ast.Subscript, ast.Starred)):
                        base = base.value
                    for x in ([base] if isinstance(base, ast.Name) else [y for y in ast.walk(t) if isinstance(y, ast.Name) and isinstance(y.ctx, ast.Store)]):
                        if x.id not in tainted and x.id not in shared:
                            tainted.add(x.id)
                            changed = True
    n_mut = 0
    for node in fv.cfg.nodes:
        for root in fv._roots(node):
            for n in walk_no_nested(root):
                target = val = None
                if isinstance(n, ast.Call) and isinstance(n.func, ast.Attribute) and n.func.attr in DICT_MUTATORS and isinstance(n.func.value, ast.Name) and n.func.value.id in shared:
                    target, val = n.func.value.id, n
                elif isinstance(n, ast.Subscript) and isinstance(n.ctx, (ast.Store, ast.Del)) and isinstance(n.value, ast.Name) and n.value.id in shared:
                    target, val = n.value.id, node.stmt
                if target is None:
                    continue
                # does the caller's object reach here?  (a rebinding such as `p = dict(p)` ends sharing)
                defs = fv.IN[node].get(target, frozenset())
                if fv.cfg.entry not in defs:
                    continue
                n_mut += 1
                msite = f"{site}:{target}@{getattr(n, 'lineno', 0) - fi.node.lineno}"
                msite = f"{site}:{target}.{n.func.attr if isinstance(n, ast.Call) else 'store'}"
                removes = isinstance(n, ast.Call) and n.func.attr in ("pop", "popitem", "clear", "remove", "discard")
                dep = names_in(val) & tainted
                if removes:
                    ctx.violate("SHARED", msite, (fi, n), f"`{U(n)[:60]}` removes entries from the caller's `{target}`, which the serial loop passes to every item: "
                                "the first item sees a different object than later ones, while each worker process gets a pristine copy")
                elif dep:
                    ctx.violate("SHARED", msite, (fi, n), f"`{U(val)[:70]}` writes a value derived from the item ({sorted(dep)}) into the caller's `{target}`: in a serial run the "
                                "entry written for the first item is seen by all later items, in parallel runs every task starts from a pickled pristine copy — results differ")
                else:
                    ctx.hold("SHARED", msite, (fi, n), f"write into the shared `{target}` does not depend on the item (`{item}`): idempotent across items")
    if not n_mut:
        ctx.hold("SHARED", site + ":none", fi, f"{fi.name} does not write into objects it shares with other items")


def check_workers(ctx: Ctx, fi, parallel_body, site):
    """the pool size is None for 'auto' and the requested number otherwise (any positive number,
    including more workers than items, and an empty item list, must work)"""
    m = ctx.model
    fv = view(m, fi)
    from ..astutil import value_cases, truth_of

    ex = None
    for s in parallel_body:
        for n in ast.walk(s):
            if isinstance(n, ast.With):
                for it in n.items:
                    if isinstance(it.context_expr, ast.Call) and ((m.callee(fv.mod, it.context_expr) or "").endswith("PoolExecutor")):
                        ex = (n, it.context_expr)
    if ex is None:
        ctx.undecided("PARMAP", site + ":workers", fi, "executor construction not found")
        return
    w, call = ex
    arg = kwarg(call, "max_workers") or (call.args[0] if call.args else None)
    if arg is None:
        ctx.hold("PARMAP", site + ":workers", (fi, call), "default pool size")
        return
    vals = set()
    for dec, v in value_cases(fv, w, arg):
        vals.add((truth_of(dec, "num_processes == 'auto'"), U(v)))
    ok = vals == {(True, "None"), (False, "num_processes")}
    if ok:
        ctx.hold("PARMAP", site + ":workers", (fi, call), "pool size: None for 'auto', otherwise exactly the requested number")
    elif any("len(" in v or ".size" in v for _, v in vals):
        ctx.violate("PARMAP", site + ":workers", (fi, call), f"pool size {sorted(vals, key=str)} is derived from the number of items: an empty item list gives max_workers=0, "
                    "for which ProcessPoolExecutor raises ValueError, while the serial branch returns an empty list")
    else:
        ctx.undecided("PARMAP", site + ":workers", (fi, call), f"pool size {sorted(vals, key=str)} not recognised")


def check_split(ctx: Ctx, fi, ifnode):
    model = ctx.model
    fv = view(model, fi)
    site = fi.qualname
    test = ifnode.test
    serial_body = parallel_body = None
    if isinstance(test, ast.Compare) and len(test.ops) == 1 and isinstance(test.left, ast.Name) and test.left.id == "num_processes":
        c = test.comparators[0]
        if isinstance(c, ast.Constant) and c.value == 1:
            if isinstance(test.ops[0], ast.Eq):
                serial_body, parallel_body = ifnode.body, ifnode.orelse
            elif isinstance(test.ops[0], ast.NotEq):
                serial_body, parallel_body = ifnode.orelse, ifnode.body
    # guard-clause form: `if num_processes == 1: …; return r` followed by the parallel code
    from ..normalize import always_exits

    blk_p = stmt_index(fv).parent.get(id(ifnode))
    block = fi.node.body if blk_p is None or blk_p[0] is None else getattr(blk_p[0], blk_p[1])
    pos = [i for i, x in enumerate(block) if x is ifnode]
    pre = list(block[:pos[0]]) if pos else []
    rest = list(block[pos[0] + 1:]) if pos else []
    if serial_body is not None and not parallel_body and always_exits(serial_body) and rest:
        parallel_body = rest
    elif parallel_body is not None and not serial_body and always_exits(parallel_body) and rest:
        serial_body = rest
    if serial_body is None or not parallel_body:
        ctx.undecided("PARMAP", site + ":split", (fi, ifnode), f"serial/parallel split not recognised: {U(test)}")
        return
    par = analyse_parallel(ctx, model, fv, fi, parallel_body, site, pre=pre)
    if par is None:
        return
    pspec, piter, pfilters, mp, pres = par
    check_workers(ctx, fi, parallel_body, site)
    check_shared(ctx, pspec.target, len(pspec.fixed), site + ":shared")
    # serial: assignment to the same result variable
    sres = arm_result(fv, serial_body, want_name=pres, pre=pre, only=lambda val: isinstance(val, (ast.GeneratorExp, ast.ListComp)) or (isinstance(val, ast.Call) and dotted(val.func) in ("list", "tuple", "display_progress")))
    if not sres:
        # one arm returns its result directly, the other through the variable that the common tail returns
        only_ = lambda val: isinstance(val, (ast.GeneratorExp, ast.ListComp)) or (isinstance(val, ast.Call) and dotted(val.func) in ("list", "tuple", "display_progress"))
        tail_names = {rn.stmt.value.id for rn in fv.return_nodes() if isinstance(rn.stmt.value, ast.Name)}
        if pres == RETURNED and len(tail_names) == 1:
            sres = arm_result(fv, serial_body, want_name=next(iter(tail_names)), pre=pre, only=only_)
        elif pres in tail_names:
            sres = arm_result(fv, serial_body, want_name=RETURNED, pre=pre, only=only_)
    if not sres:
        ctx.violate("PARMAP", site + ":same-result", (fi, ifnode), f"the serial branch does not assign the result variable `{pres}` that the parallel branch assigns")
        return
    _, svalue, sassign = sres[-1]
    ctx.hold("PARMAP", site + ":same-result", (fi, sassign), f"both branches assign `{pres}`, consumed by the common tail")
    ser = analyse_serial(model, fv, svalue)
    if ser is None:
        gen = analyse_serial_generator(ctx, model, fi, fv, svalue, site)
        if gen == "violated":
            return
        ser = gen
    if ser is not None and ser[0] == "collects-item":
        ctx.violate("PARMAP", site + ":same-callee", (fi, ser[1]), f"the serial branch evaluates `{U(ser[1])[:60]}` only as a test and collects the *items* themselves (relying on in-place modification), "
                    "while the parallel branch collects the objects the workers return: items that the callee converts or copies (e.g. SphericalDroplet candidates, which refine_droplet turns into new "
                    "DiffuseDroplets) come back unrefined serially and refined in parallel")
        return
    if ser is None:
        # the callee applied to every item only for its side effect, the *item* being collected instead of the returned object?
        tshort = pspec.target.split(".")[-1]
        discarded = [x for st_ in serial_body for x in ast.walk(st_) if isinstance(x, ast.Expr) and isinstance(x.value, ast.Call) and (fv.callee(x.value) or U(x.value.func)).split(".")[-1] == tshort]
        if discarded:
            ctx.violate("PARMAP", site + ":same-callee", (fi, discarded[0]), f"the serial branch calls `{U(discarded[0].value)[:60]}` and throws its result away (it collects the items, relying on in-place modification), "
                        "while the parallel branch collects the objects the workers return: items that the callee converts or copies (e.g. SphericalDroplet candidates) come back unrefined serially "
                        "and refined in parallel")
            return
        ctx.undecided("PARMAP", site + ":same-callee", (fi, sassign), f"serial branch not recognised as applying the callee per item: {U(svalue)[:100]}")
        return
    sspec, siter, sfilters = ser
    ctx.decide(sspec.key() == pspec.key(), "PARMAP", site + ":same-callee", (fi, mp),
               f"serial and parallel apply {pspec}", f"serial applies {sspec} but parallel applies {pspec}")
    check_independent_items(ctx, fi, fv, piter, site)
    a, b = strip_iter(model, fv.mod, siter), strip_iter(model, fv.mod, piter)
    ctx.decide(U(a) == U(b), "PARMAP", site + ":same-iterable", (fi, mp), f"both iterate over {U(a)} in order",
               f"serial iterates {U(siter)} but parallel maps over {U(piter)}")
    for it in (siter, piter):
        for n in ast.walk(it):
            if isinstance(n, ast.Call) and (dotted(n.func) or "").split(".")[-1] in REORDER:
                ctx.violate("PARMAP", site + ":same-iterable", (fi, n), f"iterable is reordered by {U(n.func)}")
            if isinstance(n, ast.Subscript) and isinstance(n.slice, ast.Slice) and n.slice.step is not None:
                ctx.violate("PARMAP", site + ":same-iterable", (fi, n), f"iterable is re-strided: {U(n)}")
    ctx.decide(sfilters == pfilters, "PARMAP", site + ":same-filter", (fi, mp), f"same result filter {pfilters or '(none)'}",
               f"serial filter {sfilters} differs from parallel filter {pfilters}")
    # tail: result variable flows to the return without reordering
    for rn in fv.return_nodes():
        v = rn.stmt.value
        if v is None:
            continue
        for n in ast.walk(v):
            if isinstance(n, ast.Call) and (dotted(n.func) or "").split(".")[-1] in REORDER and pres in names_in(n):
                ctx.violate("PARMAP", site + ":tail", (fi, n), f"result is reordered before it is returned: {U(n)}")
    # no statement between the split and the return reorders/mutates the result
    for s in fv.statements():
        for n in walk_no_nested(s):
            if isinstance(n, ast.Call) and isinstance(n.func, ast.Attribute) and n.func.attr in ("sort", "reverse") and isinstance(n.func.value, ast.Name) and n.func.value.id == pres:
                ctx.violate("PARMAP", site + ":tail", (fi, n), f"result list is reordered in place: {U(n)}")
    ctx.hold("PARMAP", site + ":tail", fi, "no reordering between the branches and the return")


def check_failure_propagates(ctx: Ctx, rule="PARMAP"):
    """A failure inside a split function reaches the caller.  The serial branch works on the caller's objects (droplets are
    refined in place), the parallel branch on pickled copies: a handler that swallows the failure and carries on with "the
    candidates" continues with partly modified objects in one case and untouched ones in the other."""
    from ..astutil import stmt_index as _si
    from ..normalize import always_exits

    m = ctx.model
    split_names = {fi.qualname for fi, _ in discover_splits(m)}
    n = 0
    for g in m.all_functions():
        if not g.qualname.startswith("droplets."):
            continue
        gv = view(m, g)
        si = None
        for c in gv.calls():
            callee = gv.callee(c) or ""
            if callee not in split_names:
                continue
            si = si or _si(gv)
            swallowed = None
            for node_, fld in si.ancestors(c):
                if isinstance(node_, ast.Try) and fld == "body":
                    for h in node_.handlers:
                        if not (h.body and isinstance(h.body[-1], ast.Raise)):
                            swallowed = h
            n += 1
            ctx.decide(swallowed is None, rule, f"{g.qualname}:failure-propagates[{callee.split('.')[-1]}]", (g, swallowed if swallowed is not None else c),
                       f"a failure of {callee.split('.')[-1]} propagates to the caller",
                       f"`except {U(swallowed.type) if swallowed is not None and swallowed.type is not None else ''}` swallows a failure of {callee.split('.')[-1]} and execution continues with the objects handed to it: "
                       "the serial branch has already modified them in place up to the failing item, the parallel branch worked on copies — the result depends on the process count")
    return n


def check_independent_items(ctx: Ctx, fi, fv, it_expr, site, rule="PARMAP"):
    """Executor.map draws its items eagerly and pickles them later (feeder thread): every item must be an object of its own.
    A generator that yields one object and modifies it between yields hands every task the state of a later item."""
    m = ctx.model
    it = it_expr
    while isinstance(it, ast.Call) and (dotted(it.func) or "").split(".")[-1] in ("display_progress", "iter", "list", "tuple") and it.args:
        it = it.args[0]
    if not (isinstance(it, ast.Call) and isinstance(it.func, ast.Name)):
        return
    cands = [g for g in m.all_functions() if g.name == it.func.id and (g.parent is fi or (g.parent is None and g.module is fi.module and g.cls is None))]
    if len(cands) != 1 or isinstance(cands[0].node, ast.Lambda):
        return
    g = cands[0]
    ys = [y for y in ast.walk(g.node) if isinstance(y, ast.Yield) and y.value is not None]
    if not ys:
        return
    bad = None
    for y in ys:
        if not isinstance(y.value, ast.Name):
            continue
        nm = y.value.id
        for s_ in ast.walk(g.node):
            tg = s_.targets if isinstance(s_, ast.Assign) else ([s_.target] if isinstance(s_, ast.AugAssign) else [])
            for t in tg:
                root = t
                while isinstance(root, (ast.Attribute, ast.Subscript)):
                    root = root.value
                if isinstance(t, (ast.Attribute, ast.Subscript)) and isinstance(root, ast.Name) and root.id == nm:
                    bad = bad or (s_, nm)
            if isinstance(s_, ast.Call) and isinstance(s_.func, ast.Attribute) and isinstance(s_.func.value, ast.Name) and s_.func.value.id == nm and s_.func.attr in ("fill", "update", "set_data", "__setitem__"):
                bad = bad or (s_, nm)
    ctx.decide(bad is None, rule, site + ":independent-items", (g, bad[0]) if bad else g, "every mapped item is an object of its own",
               f"`{U(bad[0])[:60] if bad else ''}` modifies the object `{bad[1] if bad else ''}` that {g.name}() has already yielded: Executor.map draws the items ahead of pickling them, so parallel tasks "
               "receive the state of a later frame while the lazy serial branch sees each frame in turn")


def check_argument_containers(ctx: Ctx, rule="EFFECT"):
    """The analysis functions do not modify dictionaries or lists that the caller passed in (refine_args, least_squares_params,
    kwargs …).  In a serial run every task sees the object the caller owns — entries written for one call are still there in the
    next — while every parallel task works on a pickled copy: the result of a repeated call then depends on the process count."""
    m = ctx.model
    n = 0
    MUT = {"setdefault", "update", "pop", "popitem", "clear", "append", "extend", "insert", "remove", "sort", "reverse"}
    for q in (f"{IMG}.refine_droplet", f"{IMG}.refine_droplets", f"{IMG}.locate_droplets", "droplets.emulsions.EmulsionTimeCourse.from_storage"):
        if not m.has_func(q):
            continue
        fi = m.func(q)
        fv = view(m, fi)
        params = set(fi.all_params) - {"self", "cls"}
        bad = None
        for s_ in fv.statements():
            sites = []
            for x in walk_no_nested(s_):
                if isinstance(x, ast.Call) and isinstance(x.func, ast.Attribute) and x.func.attr in MUT and isinstance(x.func.value, ast.Name) and x.func.value.id in params:
                    sites.append((x.func.value.id, x))
            tg = s_.targets if isinstance(s_, ast.Assign) else ([s_.target] if isinstance(s_, ast.AugAssign) else (s_.targets if isinstance(s_, ast.Delete) else []))
            for t_ in tg:
                if isinstance(t_, ast.Subscript) and isinstance(t_.value, ast.Name) and t_.value.id in params:
                    sites.append((t_.value.id, s_))
            for nm, node_ in sites:
                # still (possibly) the caller's object here?
                defs = fv.defs_reaching(nm, fv.node_of(s_))
                if any(d_ is fv.cfg.entry for d_ in defs):
                    bad = bad or (node_, nm)
        n += 1
        ctx.decide(bad is None, rule, f"{q}:argument-containers", (fi, bad[0]) if bad else fi, "no dictionary or list received from the caller is modified",
                   f"`{U(bad[0])[:60] if bad else ''}` modifies `{bad[1] if bad else ''}`, an object the caller passed in: serial runs (and repeated calls) see the entries left behind by earlier calls while every parallel "
                   "task gets a fresh copy, e.g. refine_args={'tolerance': 1e-2, 'least_squares_params': d} followed by the same call with tolerance 1e-12 gives another radius with one process than with two")
    return n


def check_pickle_writable(ctx: Ctx, rule="PICKLE"):
    """Candidates cross the process boundary by pickling.  The droplet classes keep their state in one numpy record; a record
    pickled on its own comes back as a scalar that silently discards item assignments (contract of numpy.record), so every
    setter of the restored droplet would be a no-op in the worker while it works in the serial branch.  The root class must
    therefore restore the record as a view into an array (its own __getstate__/__setstate__ or __reduce__), or no worker-side
    function may write through a droplet it received."""
    m = ctx.model
    base = m.cls("DropletBase")
    restore = [base.methods.get(n_) for n_ in ("__setstate__", "__reduce__", "__reduce_ex__", "__getnewargs_ex__")]
    restore = [r_[0] for r_ in restore if r_]
    array_backed = False
    for fi in restore:
        txt = U(fi.node)
        if any(k in txt for k in ("recarray", "np.array(", "from_data", "np.rec.", "view(")):
            array_backed = True
    # writes through the per-item parameter in the functions that run in workers
    writes = []
    for q in ("droplets.image_analysis.refine_droplet",):
        if not m.has_func(q):
            continue
        fi = m.func(q)
        item = fi.params[1] if len(fi.params) > 1 else None
        for s_ in ast.walk(fi.node):
            if isinstance(s_, ast.Assign) and isinstance(s_.targets[0], ast.Attribute) and isinstance(s_.targets[0].value, ast.Name) and s_.targets[0].value.id == item and s_.targets[0].attr != "data":
                writes.append((fi, s_))
    ok = array_backed or not writes
    ctx.decide(ok, rule, base.qualname + ":restore", restore[0] if restore else ((writes[0][0], writes[0][1]) if writes else base.node),
               "a droplet restored from a pickle keeps its record as a view into an array: setters work in worker processes as they do serially",
               f"`{U(writes[0][1])[:60] if writes else ''}` assigns through a setter of a droplet that a worker process received by pickling, but DropletBase does not restore its numpy record as an "
               "array view: the assignment is silently lost in the worker (the default interface width stays None → TypeError) while the serial branch applies it")


def check_forwarding(ctx: Ctx):
    """Every caller of a function with ``num_processes`` passes its own value on."""
    model = ctx.model
    targets = {fi.qualname: fi for fi in forwarders(model)}
    splitters = {id(fi.node) for fi, _ in discover_splits(model)}
    for fi in model.all_functions():
        if "num_processes" not in fi.all_params:
            continue
        if id(fi.node) in splitters:
            continue  # uses its worker budget itself (one level of parallelism)
        fv = view(model, fi)
        for c in fv.calls(nested=True):
            name = model.callee(fv.mod, c) or ""
            callee = None
            if name in targets:
                callee = targets[name]
            elif isinstance(c.func, ast.Attribute) and c.func.attr in {t.name for t in targets.values()}:
                cands = [t for t in targets.values() if t.name == c.func.attr and t.cls is not None]
                base = dotted(c.func.value) or ""
                cands = [t for t in cands if t.cls.name == base.split(".")[-1] or base in ("cls", "self")]
                if len(cands) == 1:
                    callee = cands[0]
            if callee is None or callee is fi and False:
                continue
            v = kwarg(c, "num_processes")
            if v is None:
                # options collected in a dict and passed with **
                from ..astutil import call_bindings

                bnd_, _un = call_bindings(view(model, fi), c, callee)
                v = bnd_.get("num_processes")
            site = f"{fi.qualname}→{callee.qualname}"
            ok = isinstance(v, ast.Name) and v.id == "num_processes"
            ctx.decide(ok, "FORWARD", site, (fi, c), "num_processes=num_processes",
                       f"num_processes is not forwarded unchanged: {U(v) if v is not None else 'argument missing (callee default is used)'}")


def check_pure(ctx: Ctx):
    model = ctx.model
    cg = CallGraph(model)
    for e in ENTRY:
        model.func(e)
    reach = cg.reachable(ENTRY)
    ctx.extra["call_graph"] = {"functions_reachable": len(reach), "entry_points": ENTRY,
                               "unresolved_attribute_calls": sum(len(cg.unresolved.get(q, [])) for q in reach)}
    n_ok = 0
    # module-level state: names bound at module level to a stateful object (random generator, iterator/counter) or to a
    # mutable container.  Using the former, or mutating the latter, from the analysis makes results depend on the history
    # of the process (and differ between forked workers)
    from ..astutil import MUTATORS

    mod_state: dict = {}
    for mod in model.modules.values():
        for st in mod.tree.body:
            tgt = None
            if isinstance(st, ast.Assign) and len(st.targets) == 1 and isinstance(st.targets[0], ast.Name):
                tgt, val = st.targets[0].id, st.value
            elif isinstance(st, ast.AnnAssign) and isinstance(st.target, ast.Name) and st.value is not None:
                tgt, val = st.target.id, st.value
            if tgt is None:
                continue
            kind = None
            if isinstance(val, ast.Call):
                nm = model.callee(mod, val) or dotted(val.func) or ""
                if nm.startswith("numpy.random") or nm.startswith("random.") or nm.endswith("default_rng") or nm.endswith("RandomState") or nm.endswith("Generator"):
                    kind = "random generator"
                elif nm in ("itertools.count", "itertools.cycle", "iter"):
                    kind = "iterator"
                elif nm in ("list", "dict", "set", "collections.defaultdict", "collections.deque", "collections.OrderedDict", "collections.Counter"):
                    kind = "container"
            elif isinstance(val, (ast.List, ast.Dict, ast.Set, ast.ListComp, ast.DictComp, ast.SetComp)):
                kind = "container"
            if kind:
                mod_state[(mod.name, tgt)] = kind
    for q in sorted(reach):
        for fi in model.functions.get(q, []):
            ctx.analysed(fi)
            bad = None
            local_stores = {x.id for x in ast.walk(fi.node) if isinstance(x, ast.Name) and isinstance(x.ctx, ast.Store)} | set(fi.all_params)
            for n in ast.walk(fi.node):
                if isinstance(n, ast.Name) and isinstance(n.ctx, ast.Load) and n.id not in local_stores:
                    kind = mod_state.get((fi.module.name, n.id))
                    if kind in ("random generator", "iterator"):
                        bad = (n, f"uses the module-level {kind} `{n.id}`, whose state advances with every call in the process")
                        break
                if isinstance(n, ast.Call) and isinstance(n.func, ast.Attribute) and n.func.attr in MUTATORS and isinstance(n.func.value, ast.Name) \
                        and n.func.value.id not in local_stores and mod_state.get((fi.module.name, n.func.value.id)) == "container":
                    bad = (n, f"mutates the module-level container `{n.func.value.id}`")
                    break
            a = fi.node.args
            for d in ([] if bad else list(a.defaults) + [x for x in a.kw_defaults if x is not None]):
                if isinstance(d, (ast.List, ast.Dict, ast.Set)) or (isinstance(d, ast.Call) and dotted(d.func) in ("list", "dict", "set")):
                    bad = (d, "has a mutable default argument (state shared between calls)")
            for n in ast.walk(fi.node):
                if bad:
                    break
                if isinstance(n, ast.Call):
                    name = model.callee(fi.module, n) or ""
                    raw = dotted(n.func) or ""
                    if any(name.startswith(p) or name == p.rstrip(".") for p in IMPURE_PREFIX) or (isinstance(n.func, ast.Name) and n.func.id in IMPURE_BUILTINS and n.func.id not in fi.all_params):
                        bad = (n, f"calls {name or raw}")
                        break
                    if raw.endswith("default_rng") or ".random." in ("." + name + "."):
                        bad = (n, f"calls {name or raw}")
                        break
                elif isinstance(n, ast.Attribute):
                    d = dotted(n)
                    if d:
                        r = model.resolve(fi.module, d) or ""
                        if r.startswith("os.environ") or r.startswith("numpy.random"):
                            bad = (n, f"reads {r}")
                            break
                elif isinstance(n, (ast.Global, ast.Nonlocal)) and isinstance(n, ast.Global):
                    bad = (n, f"declares global {', '.join(n.names)}")
                    break
                elif isinstance(n, (ast.Assign, ast.AugAssign)):
                    tg = n.targets if isinstance(n, ast.Assign) else [n.target]
                    for t in tg:
                        base = t
                        while isinstance(base, (ast.Attribute, ast.Subscript)):
                            base = base.value
                        if isinstance(t, (ast.Attribute, ast.Subscript)) and isinstance(base, ast.Name):
                            r = model.resolve(fi.module, base.id) or ""
                            is_local = base.id in fi.all_params or base.id in ("self", "cls") or any(
                                isinstance(x, ast.Name) and x.id == base.id and isinstance(x.ctx, ast.Store) for x in ast.walk(fi.node))
                            if not is_local and (r in model.classes or r.startswith(model.PACKAGE + ".") or base.id in fi.module.imports or base.id[:1].isupper()):
                                bad = (n, f"writes module/class-level state {U(t)}")
                    if bad:
                        break
            if bad:
                ctx.violate("PURE", fi.qualname, (fi, bad[0]), f"{bad[1]} — reachable from the analysis entry points, so repeated/parallel runs may differ")
            else:
                n_ok += 1
                ctx.hold("PURE", fi.qualname, fi, "no RNG/clock/environment/global-state access")


FIXTURE_BAD = '''
import functools
from concurrent.futures import ProcessPoolExecutor, as_completed
def refine_droplet(phase_field, droplet, **kwargs): return droplet
def refine_droplets(phase_field, candidates, *, num_processes=1, **kwargs):
    if num_processes == 1:
        droplets = [drop for candidate in candidates if (drop := refine_droplet(phase_field, candidate, **kwargs)) is not None]
    else:
        _refine_one = functools.partial(refine_droplet, phase_field, **kwargs)
        with ProcessPoolExecutor(max_workers=num_processes) as executor:
            futures = [executor.submit(_refine_one, c) for c in candidates]
            droplets = [f.result() for f in as_completed(futures)]
    return droplets
'''


def check_fixture(ctx: Ctx):
    """Zero-expected rule: a tiny positive example must be flagged on every run."""
    from ..model import Model

    fm = Model({"fixture/as_completed.py": FIXTURE_BAD}, root="fixture")
    fctx = Ctx(fm, ctx.prop)
    for fi, ifn in discover_splits(fm):
        check_split(fctx, fi, ifn)
    flagged = any(f.rule == "PARMAP" and f.verdict == "violated" for f in fctx.findings)
    if not flagged:
        from ..model import AnalysisError

        raise AnalysisError("PARMAP fixture (as_completed loop) was not flagged — rule is blind", "PARMAP")
    ctx.info("PARMAP", "fixture:as_completed", None, "positive example flagged (rule is live)")


def check(ctx: Ctx):
    ctx.explain(
        "PARMAP: in every function that branches on num_processes the parallel arm takes its results from one "
        "Executor.map (order-preserving by contract) consumed by list()/identity comprehension; the mapped "
        "functools.partial(T, *fixed, **kw) and the serial arm's per-item call have the same callee, fixed arguments, "
        "keywords, iterable (modulo order-preserving wrappers) and result filter; both arms assign the same variable. "
        "FORWARD: callers pass num_processes on unchanged. PURE: over the call graph reachable from the analysis "
        "entry points no RNG, clock, environment access, `global` or module/class-level state write occurs."
    )
    from ..rules import support as _sup15

    _sup15.check_serial_test(ctx, ("droplets.image_analysis.refine_droplets", "droplets.emulsions.EmulsionTimeCourse.from_storage"))
    _sup15.check_callee_once(ctx, "droplets.image_analysis.refine_droplets", "refine_droplet")
    splits = discover_splits(ctx.model)
    for fi, ifn in splits:
        check_split(ctx, fi, ifn)
    check_forwarding(ctx)
    check_pickle_writable(ctx)
    check_failure_propagates(ctx)
    check_argument_containers(ctx)
    # a task may not write to the image or to anything reached from it (the grid and its class-level tables are shared by all
    # tasks of a serial run but copied for every parallel task)
    from ..rules import refine as _refine

    _refine.check_image_readonly(ctx)
    from ..rules import iteronce

    for q in ENTRY:
        for fi in ctx.model.funcs(q):
            iteronce.check_function(ctx, fi)
    check_pure(ctx)
    check_fixture(ctx)
    from ..rules import purity as _pur

    # module-level containers reached through a local alias and modified in place (`settings = DEFAULTS; settings |= …`)
    _pur.check_stateless(ctx, list(ENTRY))
    _pur.check_mutable_defaults(ctx, ("droplets.image_analysis", "droplets.emulsions", "droplets.droplets", "droplets.droplet_tracks", "droplets.trackers"))
    from ..rules import support as _sup_r11

    _sup_r11.check_params_not_rebound(ctx, "droplets.image_analysis.refine_droplets", ("phase_field", "candidates", "kwargs"))
    ctx.expect("MUTDEFAULT", 5)
    ctx.expect("PARMAP", 16)
    ctx.expect("EFFECT", 7)
    ctx.expect("SHARED", 2)
    ctx.expect("PICKLE", 1)
    ctx.expect("FORWARD", 2)
    ctx.expect("ITER-ONCE", 1)
    ctx.expect("PURE", 40)
    ctx.trust("concurrent.futures.Executor.map yields results in the order of its input iterable irrespective of completion order",
              "pde.tools.output.display_progress yields the items of its argument in order")
    ctx.assume("bit-identical pickling round trip of droplets/fields between processes is a library contract")
