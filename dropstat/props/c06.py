"""C06 — tracking neither loses, duplicates nor alters droplets.

  PATHCOUNT  every path through the per-droplet loop of the overlap matcher stores the
             droplet exactly once; in the distance matcher link + bookkeeping +
             invalidation happen together and the final loop starts a track for exactly
             the unmatched droplet indices;
  INDEX      row index ↔ alive track, column index ↔ frame droplet ↔ matched set (a fresh set per frame);
  CONT       the overlap test reads each alive track's *current* last droplet inside the
             per-droplet loop (a track extended in this frame no longer matches the old one);
  TIME       every store is stamped with the frame's own time from time_course.items();
  FLOW       every frame reaches the matcher; alive set computed from t_last before
             matching; t_last updated on every path (gap-free tracks);
  OWN        tracks store copies (droplets unchanged, input unmodified);
  NONETEST   an explicit time 0 is not mistaken for "no time";  PAIR times/droplets;
  EFFECT     nothing is written through the time course;
  EMPTY      frames without droplets do not reach cdist;
  METRIC/STRICT  the overlap predicate and the distance matrix use the selected (periodic) metric and nothing else.
"""

from __future__ import annotations

from ..core import Ctx
from ..rules import empty, tracking


def check(ctx: Ctx):
    ctx.explain(
        "CFG path counting of store actions per loop iteration in both matchers (PATHCOUNT), index-role agreement between the "
        "distance matrix, the alive tracks, the frame's droplets and the matched set (INDEX), dataflow of the frame time into every "
        "store (TIME), dominance/all-paths rules on the frame loop (FLOW), copy-on-append (OWN), identity test of the optional time "
        "(NONETEST), effect rule on the input (EFFECT) and emptiness guard before cdist (EMPTY)."
    )
    tracking.check_overlap_matcher(ctx, rules=("PATHCOUNT", "TIME", "CONT"))
    tracking.check_distance_matcher(ctx, rules=("PATHCOUNT", "TIME", "INDEX", "GREEDY"))
    tracking.check_no_early_exit(ctx)
    tracking.check_main_loop(ctx)
    tracking.check_track_append(ctx)
    tracking.check_input_untouched(ctx)
    empty.check_cdist(ctx)
    # "at most one droplet per frame in a track" needs the overlap predicate to be the documented one: two droplets of
    # one frame that do not overlap must not both overlap-match through a wrong metric (e.g. a hand-written wrap of non-periodic axes)
    from . import c07
    c07.check_overlaps(ctx)
    c07.check_matcher_metric(ctx)
    from ..rules import collections as _colx

    _colx.check_list_appends(ctx)
    from ..rules import support

    support.check_track_accessors(ctx)
    from ..rules import support as _sup_r12

    _sup_r12.check_loop_targets_not_rebound(ctx, "droplets.droplet_tracks.DropletTrackList.from_emulsion_time_course", "time_course", "EFFECT", "frame-as-given",
                                            "the tracks then hold other droplets (wrapped, filtered or re-ordered copies) than the frames of the time course, or the droplets carry another time")
    ctx.expect("ACCESSOR", 4)
    ctx.expect("METRIC", 4)
    ctx.expect("STRICT", 1)
    ctx.expect("PATHCOUNT", 3)
    ctx.expect("INDEX", 4)
    ctx.expect("CONT", 1)
    ctx.expect("TIME", 6)
    ctx.expect("FLOW", 3)
    ctx.expect("OWN", 2)
    ctx.expect("NONETEST", 1)
    ctx.expect("PAIR", 1)
    ctx.expect("EFFECT", 1)
    ctx.expect("EMPTY", 2)
    ctx.trust("list.append / zip / enumerate semantics", "numpy.unravel_index(argmin(D), D.shape) returns (row, column)")
    ctx.assume("'at most one droplet per frame per track' under the non-overlap precondition is a run-time fact beyond the invalidation rule")
