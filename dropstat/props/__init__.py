"""Registry: property id -> check(ctx)."""

from __future__ import annotations

import importlib

CLAIMED = ["C01", "C03", "C04", "C06", "C07", "C08", "C09", "C10", "C11", "C12",
           "C13", "C14", "C15", "C16", "C17", "C18", "C19", "C20"]


class _Lazy(dict):
    def __missing__(self, key):
        if key not in CLAIMED:
            raise KeyError(key)
        mod = importlib.import_module(f"dropstat.props.{key.lower()}")
        self[key] = mod.check
        return mod.check

    def __contains__(self, key):
        return key in CLAIMED


REGISTRY = _Lazy()
