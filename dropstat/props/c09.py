"""C09 — analysis never aborts on valid input and returns finite droplets.

Crash-freedom necessary conditions, each for an input class the property names:
  EMPTY     zero labels / no on-axis cluster / empty frames are answered before the
            empty-intolerant measurements (center_of_mass, transform, cdist, argmin);
  ARITY     rendering passes each perturbed class as many angles as it accepts;
  DIV0      the angle computation cannot divide by a zero distance;
  DIMGUARD  droplet/grid dimension mismatch raises the documented ValueError;
  EXHAUST   grid-family, threshold-rule and mode/dimension dispatches are exhaustive
            and raise the documented errors;
  FEASIBLE  the start vector of the intensity fit lies inside its bounds;
  SIGNAL    the internal spanning-droplet signal cannot escape the public entry points.
"""

from __future__ import annotations

import ast

from ..astutil import U, view, names_in, stmt_index, compare_parts, branch_table, flat_tests, const_strings, arg_or_kw
from ..core import Ctx
from ..model import dotted
from ..rules import empty, refine, render

IMG = "droplets.image_analysis"
DROP = "droplets.droplets"


def check_grid_dispatch(ctx: Ctx):
    m = ctx.model
    fi = m.func(f"{IMG}.locate_droplets_in_mask")
    fv = view(m, fi)
    site = fi.qualname
    table, default = branch_table(fi.node.body)
    if not table:
        ctx.undecided("EXHAUST", site, fi, "no dispatch on the grid")
        return
    want = {"CartesianGrid": "_locate_droplets_in_mask_cartesian", "SphericalSymGridBase": "_locate_droplets_in_mask_spherical",
            "CylindricalSymGrid": "_locate_droplets_in_mask_cylindrical"}
    got = {}
    tail = list(default)
    for test, body in table:
        if not (isinstance(test, ast.Call) and dotted(test.func) == "isinstance" and len(test.args) == 2):
            continue
        subj = U(fv.expand(test.args[0], test, allow_mutated=True))
        if subj != f"{fi.params[0]}.grid":
            continue
        cls = U(test.args[1])
        rets = [x for b_ in body for x in ast.walk(b_) if isinstance(x, ast.Return) and isinstance(x.value, ast.Call)]
        forms = {(dotted(r_.value.func), tuple(U(fv.expand(a, r_, allow_mutated=True)) for a in r_.value.args)) for r_ in rets}
        if len(forms) > 1:
            # several locators for one grid family: the anchored one is by-passed for some grids of the family
            other_ = sorted(f_[0] or "?" for f_ in forms if f_[0] != want.get(cls))
            got[cls] = (f"{want.get(cls)} | {', '.join(other_)}", [])
        elif rets:
            got[cls] = (dotted(rets[-1].value.func), [U(fv.expand(a, rets[-1], allow_mutated=True)) for a in rets[-1].value.args])
        elif body and isinstance(body[-1], ast.Raise):
            got[cls] = ("raise", [])
    for cls, fn in want.items():
        ok = cls in got and got[cls][0] == fn and got[cls][1] == [fi.params[0]]
        ctx.decide(ok, "EXHAUST", f"{site}:{cls}", fi, f"{cls} → {fn}(mask)",
                   f"grids of family {cls} are not dispatched to {fn}(mask) (found {got.get(cls)})")
        if ok and not m.has_func(f"{IMG}.{fn}"):
            ctx.violate("EXHAUST", f"{site}:{cls}", fi, f"{fn} does not exist")
    # everything else raises: the default tail ends in a raise, as does every further branch of the table
    other = [body for test, body in table if not (isinstance(test, ast.Call) and U(test.args[1]) in want)]
    tail_ok = bool(tail) and isinstance(tail[-1], ast.Raise) and all(b and isinstance(b[-1], ast.Raise) for b in other)
    ctx.decide(bool(tail_ok), "EXHAUST", f"{site}:other", fi, "unsupported grids raise explicitly",
               "a grid of an unsupported family falls through the dispatch and returns None instead of raising")


def threshold_table(fv, fi):
    """[(set of rule names, body)], default body — from the dispatch on the threshold rule"""
    from ..cfg import body_statements

    for s in body_statements(fi.node.body):
        if isinstance(s, ast.If) and "threshold" in names_in(s.test) and const_strings(s.test):
            # find the statement list that contains s
            si = stmt_index(fv)
            p = si.parent.get(id(s))
            block = fi.node.body if p is None or p[0] is None else getattr(p[0], p[1])
            idx = [i for i, x in enumerate(block) if x is s][0]
            table, default = branch_table(block[idx:])
            out = []
            for test, body in table:
                names = set(const_strings(test))
                if names and "threshold" in names_in(test):
                    out.append((names, body))
                else:
                    default = None
                    break
            return s, out, default
    return None, [], None


def check_threshold_dispatch(ctx: Ctx):
    m = ctx.model
    fi = m.func(f"{IMG}.locate_droplets")
    fv = view(m, fi)
    site = fi.qualname
    top, table, default = threshold_table(fv, fi)
    names = set()
    for ns, body in table:
        names |= ns
    has_else_float = bool(default) and any(isinstance(x, (ast.Assign, ast.Return)) and x.value is not None and U(x.value) == "float(threshold)" for x in default)
    want = {"auto", "extrema", "mean", "otsu"}
    if top is None:
        ctx.undecided("EXHAUST", site + ":threshold", fi, "threshold dispatch not found")
    else:
        ctx.decide(names == want and has_else_float, "EXHAUST", site + ":threshold", (fi, top),
                   "threshold rules 'auto', 'extrema', 'mean', 'otsu' and the numeric fall-through are all handled",
                   f"threshold dispatch handles {sorted(names)} (numeric fall-through: {has_else_float}); documented rules are {sorted(want)}: an undocumented omission reaches float('<name>') and raises ValueError")
    # documented errors
    ok_modes = False
    ok_type = False
    for s in fv.statements():
        if isinstance(s, ast.If) and s.body and isinstance(s.body[0], ast.Raise):
            exc = s.body[0].exc
            en = dotted(exc.func) if isinstance(exc, ast.Call) else dotted(exc)
            parts = {U(t).replace("(2, 3)", "[2, 3]").replace("{2, 3}", "[2, 3]") for t, p in flat_tests(s.test) if p}
            if parts == {"modes > 0", "dim not in [2, 3]"} and en == "ValueError":
                ok_modes = True
            if U(s.test) == f"not isinstance({fi.params[0]}, ScalarField)" and en == "TypeError":
                ok_type = True
    ctx.decide(ok_modes, "EXHAUST", site + ":modes", fi, "perturbation modes outside 2d/3d raise the documented ValueError",
               "requesting perturbation modes in a dimension other than 2 or 3 does not raise the documented ValueError up front")
    ctx.decide(ok_type, "EXHAUST", site + ":type", fi, "non-scalar input raises TypeError", "input that is not a ScalarField is not rejected with TypeError")


def check_signal(ctx: Ctx):
    """_SpanningDropletSignal: every call of the raising helper is inside a try that
    catches it, or passes an image of the grid's own shape, for which the raise condition
    `slices[k].stop > grid.shape[k]` (same axis k on both sides) is infeasible"""
    m = ctx.model
    helper = m.func(f"{IMG}._locate_droplets_in_mask_cylindrical_single")
    hv = view(m, helper)
    raises = [s for s in hv.statements() if isinstance(s, ast.Raise) and s.exc is not None and "_SpanningDropletSignal" in U(s.exc)]
    site = helper.qualname + ":signal"
    if not raises:
        ctx.info("SIGNAL", site, helper, "helper does not raise the spanning-droplet signal")
        return
    si = stmt_index(hv)
    # condition shape
    cond_ok = False
    import re
    from ..astutil import canon_tests

    for test, pol in si.effective_guards(raises[0]):
        ex = hv.expand(test, raises[0], allow_mutated=True)
        for txt, p in canon_tests(ex, pol):
            # canonical spelling of `cluster[k].stop > grid.shape[k]` is `grid.shape[k] < cluster[k].stop`
            mm = re.fullmatch(r"(\w+)\.shape\[(\d+)\] < (.+)\[(\d+)\]\.stop", txt)
            if mm and p:
                cond_ok = mm.group(2) == mm.group(4)
    ctx.decide(cond_ok, "SIGNAL", site + ":condition", (helper, raises[0]),
               "signal is raised only when a cluster is longer than the grid along the same axis (impossible for an image of the grid's own shape)",
               "the spanning-droplet test compares the cluster extent along one axis with the grid size along another axis: an ordinary droplet on an unpadded image can trigger the internal signal, which escapes locate_droplets as a RuntimeError")
    # callers
    for fi in m.all_functions():
        if fi.module.name != IMG:
            continue
        fv = view(m, fi)
        fsi = stmt_index(fv)
        for k, c in enumerate(x for x in fv.calls() if (fv.callee(x) or "") == helper.qualname):
            tag = f"{fi.qualname}:call{k}"
            caught = False
            for parent, fld in fsi.ancestors(c):
                if isinstance(parent, ast.Try) and fld == "body":
                    for h in parent.handlers:
                        if h.type is not None and U(h.type) in ("_SpanningDropletSignal", "RuntimeError", "Exception", "BaseException"):
                            caught = True
            from ..astutil import call_bindings as _cb

            binds, unres = _cb(fv, c, helper)
            vals = sorted(U(v) for v in binds.values())
            own_shape = not unres and len(vals) == 2 and any(v in (f"{fi.params[0]}.data", "mask.data") for v in vals) and any(v.endswith("grid") for v in vals)
            ctx.decide(caught or (own_shape and cond_ok), "SIGNAL", tag, (fi, c),
                       "signal caught by the caller" if caught else "called with the grid's own image: the signal cannot be raised",
                       f"`{U(c)[:70]}` can raise the internal _SpanningDropletSignal, which is not caught here")


def check_otsu_total(ctx: Ctx):
    """threshold_otsu on a constant (or single-valued) image: every between-class variance is
    0·NaN = NaN; numpy.argmax answers NaN-only input (index of the first NaN), the nan-skipping
    variants raise ValueError('All-NaN slice encountered')"""
    m = ctx.model
    fi = m.func(f"{IMG}.threshold_otsu")
    fv = view(m, fi)
    sel = [c for c in fv.calls() if (fv.callee(c) or U(c.func)).split(".")[-1] in ("argmax", "argmin", "nanargmax", "nanargmin", "max", "nanmax")]
    sel = [c for c in sel if (fv.callee(c) or U(c.func)).split(".")[-1].endswith(("argmax", "argmin"))]
    site = fi.qualname + ":selection"
    if not sel:
        ctx.undecided("TOTAL", site, fi, "no arg-max selection found")
        return
    bad = [c for c in sel if (fv.callee(c) or U(c.func)).split(".")[-1].startswith("nan")]
    ctx.decide(not bad, "TOTAL", site, (fi, (bad or sel)[0]),
               "the bin is selected with a NaN-tolerant arg-max (a constant image makes every variance NaN; argmax still answers)",
               f"`{U(bad[0])[:60] if bad else ''}` raises ValueError('All-NaN slice encountered') for a constant image, where every between-class variance is 0·NaN: locate_droplets(..., threshold='otsu') aborts on a valid field")


def check_histogram_total(ctx: Ctx):
    """numpy.histogram(x, bins=n) with an integer bin count raises ValueError('Too many bins for data range') when the range
    of x is finite but narrower than n representable steps at the magnitude of x (1000 + 1e-13·noise): a finite field.  Every
    such call in the analysis code sits in a `try` that handles ValueError (or the data is centred before binning)."""
    m = ctx.model
    n = 0
    for fi in m.all_functions():
        if fi.module.name != IMG:
            continue
        fv = view(m, fi)
        si = stmt_index(fv)
        for c in fv.calls():
            if (fv.callee(c) or U(c.func)) not in ("numpy.histogram", "np.histogram"):
                continue
            n += 1
            bins = arg_or_kw(c, 1, "bins")
            rng = arg_or_kw(c, 2, "range")
            x = arg_or_kw(c, 0, "a")
            handled = False
            for node_, fld in si.ancestors(c):
                if isinstance(node_, ast.Try) and fld == "body":
                    if True:
                        for h in node_.handlers:
                            names_ = [U(h.type)] if h.type is not None and not isinstance(h.type, ast.Tuple) else ([U(e) for e in h.type.elts] if h.type is not None else ["BaseException"])
                            if any(nm in ("ValueError", "Exception", "BaseException") for nm in names_):
                                handled = True
            # data centred on one of its own values first: the magnitude that limits the resolution is the range itself
            centred = False
            if x is not None:
                xe = fv.expand(x, c, allow_mutated=True)
                for b_ in ast.walk(xe):
                    if isinstance(b_, ast.BinOp) and isinstance(b_.op, ast.Sub) and isinstance(b_.right, ast.Call) and (U(b_.right.func).split(".")[-1] in ("min", "max", "mean", "nanmin", "nanmax", "median")):
                        centred = True
            fixed_edges = bins is not None and isinstance(fv.expand(bins, c), (ast.List, ast.Tuple))
            const_range = rng is not None and isinstance(rng, (ast.Tuple, ast.List)) and all(isinstance(e_, ast.Constant) or (isinstance(e_, ast.UnaryOp) and isinstance(e_.operand, ast.Constant)) for e_ in rng.elts)
            ctx.decide(handled or centred or fixed_edges or const_range, "TOTAL", f"{fi.qualname}:histogram", (fi, c),
                       "a data range too narrow for the requested bins is handled (ValueError caught / data centred / explicit edges)",
                       f"`{U(c)[:70]}` raises ValueError('Too many bins for data range') for a finite image whose range is below the float resolution of its offset "
                       "(e.g. 1000 + 1e-13·noise with threshold='otsu'): locate_droplets aborts on a valid field")
    return n


def check_axis_constraint(ctx: Ctx):
    """An axisymmetric droplet is valid anywhere on the symmetry (z) axis: its consistency check constrains exactly the two
    transverse coordinates (x, y) of the centre and leaves the axial one free.  A check that includes position[2] rejects
    every valid droplet away from z = 0 (rendering, locating with modes on cylindrical grids and tracking then abort)."""
    m = ctx.model
    q = f"{DROP}.PerturbedDroplet3DAxisSym.check_data"
    if not m.has_func(q):
        return 0
    fi = m.func(q)
    fv = view(m, fi)
    si = stmt_index(fv)
    n = 0
    for r in [s_ for s_ in fv.statements() if isinstance(s_, ast.Raise)]:
        sel = set()
        seen = False
        for t, _p in si.effective_guards(r):
            ext_ = fv.expand(t, t)
            sub_values = {id(p_.value) for p_ in ast.walk(ext_) if isinstance(p_, ast.Subscript)}
            for sub in ast.walk(ext_):
                if isinstance(sub, ast.Subscript) and U(sub.value) in ("self.position", "self.data['position']", 'self.data["position"]'):
                    seen = True
                    sl = sub.slice
                    try:
                        if isinstance(sl, ast.Slice):
                            lo = ast.literal_eval(sl.lower) if sl.lower is not None else None
                            hi = ast.literal_eval(sl.upper) if sl.upper is not None else None
                            stp = ast.literal_eval(sl.step) if sl.step is not None else None
                            sel |= set(range(3)[slice(lo, hi, stp)])
                        else:
                            sel.add(range(3)[ast.literal_eval(sl)])
                    except (ValueError, IndexError, TypeError):
                        sel.add("?")
                elif isinstance(sub, ast.Attribute) and U(sub) == "self.position" and id(sub) not in sub_values:
                    seen = True
                    sel |= {0, 1, 2}
        if not seen:
            continue
        n += 1
        ctx.decide(sel == {0, 1}, "DIMGUARD", f"{fi.qualname}:on-axis", (fi, r), "the on-axis check constrains the transverse coordinates x, y only",
                   f"the on-axis check constrains the coordinates {sorted(map(str, sel))} of the centre instead of [0, 1] (x and y): valid droplets on the z axis away from the origin are rejected with "
                   "ValueError (or off-axis droplets are accepted)")
    return n


def check_kw_merge(ctx: Ctx):
    """`dict(k=v, **user)` raises TypeError('got multiple values for keyword argument') as soon as the user's dictionary names k
    as well; defaults are merged with `user.setdefault(k, v)` or `{k: v, **user}`.  (refine_droplet merges its `tolerance` into
    the caller's least_squares_params, which documents ftol / xtol / gtol as valid entries.)"""
    m = ctx.model
    n = 0
    for fi in m.all_functions():
        if fi.module.name != IMG:
            continue
        params = set(fi.all_params)
        bad = None
        for c in ast.walk(fi.node):
            if isinstance(c, ast.Call) and U(c.func) == "dict" and any(k.arg is None for k in c.keywords) and any(k.arg is not None for k in c.keywords):
                stars = [k.value for k in c.keywords if k.arg is None]
                if any(isinstance(x, ast.Name) and x.id in params for s_ in stars for x in ast.walk(s_)):
                    bad = c
        if fi.name == "refine_droplet":
            n += 1
            ctx.decide(bad is None, "TOTAL", f"{fi.qualname}:kw-merge", (fi, bad) if bad is not None else fi, "defaults are merged into the caller's option dictionary without raising for keys it already has",
                       f"`{U(bad)[:70] if bad is not None else ''}` raises TypeError (multiple values for a keyword) when the caller's dictionary names one of the explicitly given keys, "
                       "e.g. refine_args={'tolerance': 1e-3, 'least_squares_params': {'xtol': 1e-6}}: a documented option combination aborts")
        elif bad is not None:
            ctx.violate("TOTAL", f"{fi.qualname}:kw-merge", (fi, bad), f"`{U(bad)[:70]}` raises TypeError when the caller's dictionary names one of the explicitly given keys")
    return n


def check_threshold_usage(ctx: Ctx):
    """The threshold option is `float | "auto" | "extrema" | "mean" | "otsu"`: outside locate_droplets' own dispatch (which
    converts it) it may only be stored and forwarded.  Comparing it with field values or doing arithmetic on it raises
    (numpy UFuncTypeError / TypeError) as soon as a rule name is configured."""
    m = ctx.model
    n = 0
    for fi in m.all_functions():
        if fi.module.name not in ("droplets.trackers", "droplets.emulsions", "droplets.droplet_tracks"):
            continue
        fv = view(m, fi)
        si = stmt_index(fv)
        uses = [x for x in ast.walk(fi.node) if isinstance(x, ast.Attribute) and x.attr == "threshold" and isinstance(x.value, ast.Name) and x.value.id == "self" and isinstance(x.ctx, ast.Load)]
        uses += [x for x in ast.walk(fi.node) if isinstance(x, ast.Name) and x.id == "threshold" and isinstance(x.ctx, ast.Load) and "threshold" in fi.all_params]
        if not uses:
            continue
        par = {}
        for p_ in ast.walk(fi.node):
            for ch in ast.iter_child_nodes(p_):
                par[id(ch)] = p_
        bad = None
        for u in uses:
            p_ = par.get(id(u))
            if isinstance(p_, (ast.Compare, ast.BinOp, ast.UnaryOp)) and not (isinstance(p_, ast.Compare) and all(isinstance(o, (ast.Is, ast.IsNot, ast.Eq, ast.NotEq, ast.In, ast.NotIn)) for o in p_.ops)):
                st_ = si.statement(u)
                guarded = st_ is not None and any("isinstance" in U(t_) and "threshold" in U(t_) for t_, _p in si.effective_guards(st_))
                if not guarded:
                    bad = (u, p_)
        n += 1
        ctx.decide(bad is None, "TOTAL", f"{fi.qualname}:threshold", (fi, bad[1]) if bad else fi, "the threshold option is only stored and forwarded",
                   f"`{U(bad[1])[:70] if bad else ''}` orders/combines the threshold option with numbers: the option may be a rule name ('auto', 'extrema', 'mean', 'otsu'), for which this "
                   "raises inside the tracker callback and aborts the simulation")
    return n


def check(ctx: Ctx):
    ctx.explain(
        "EMPTY typestate rules at every ndimage.label caller, at filtered index lists and at the cdist call of the distance matcher; "
        "ARITY/DIV0/DIMGUARD over the rendering code; EXHAUST over the grid-family, threshold and mode dispatches; FEASIBLE start "
        "vector of the intensity fit (exact linear forms in vmin, vmax); SIGNAL containment of the internal spanning-droplet exception."
    )
    n1 = empty.check_label_callers(ctx)
    n2 = empty.check_filtered_indices(ctx)
    n3 = empty.check_cdist(ctx)
    empty.check_optional_dim(ctx)
    empty.check_slice_stop_index(ctx)
    empty.check_unbound(ctx)
    empty.check_amplitude_reductions(ctx)
    # optional sequence arguments of the collection constructors (documented as lists or arrays) are tested with `is None`:
    # the truth value of an array with more than one element raises ValueError, an empty list is not "unset"
    from ..rules import nonetest as _nonetest

    for q_, names_ in (("droplets.emulsions.EmulsionTimeCourse.__init__", ("times", "emulsions")), ("droplets.droplet_tracks.DropletTrack.__init__", ("times",))):
        if ctx.model.has_func(q_):
            for nm_ in names_:
                _nonetest.check(ctx, ctx.model.func(q_), nm_, f"the optional argument `{nm_}` (a list or an array)")
    # not armed: `if droplets:` in DropletTrack.__init__ — the argument is documented as a list of droplets and the test only skips an empty loop
    # the time course keeps its own *list* of times: storing the caller's sequence (an array has no append, a shared list grows with
    # the other owner) makes a later append() raise or leaves times and frames unequal
    from ..rules import collections as _col_r12, support as _sup_r12

    _sup_r12.compose(ctx, _col_r12.check_fresh_derivations, keep=("FRESH",), site_filter=lambda s: "EmulsionTimeCourse.__init__" in s)
    _sup_r12.check_arrays_not_filtered(ctx, "droplets.image_analysis.threshold_otsu")
    ctx.expect("NONETEST", 3)
    ctx.expect("UNBOUND", 1)
    from ..rules import purity as _pur

    _pur.check_mutable_defaults(ctx, ("droplets.image_analysis", "droplets.emulsions", "droplets.droplets", "droplets.droplet_tracks", "droplets.trackers"))
    ctx.expect("MUTDEFAULT", 5)
    ctx.expect("BOUNDS", 4)
    # the size filter runs on every located emulsion: its removal loop must not invalidate the indices it still has to visit
    from ..rules import collections as col_

    col_.check_safe_removal(ctx, "droplets.emulsions.Emulsion.remove_small", "radius", (ast.LtE,), "radius <= min_radius", param="min_radius")
    ctx.expect("REMOVE", 1)
    # the enumeration of boundary cells in the periodic merge must stay inside every transverse axis (IndexError otherwise)
    from ..rules import locate

    sub0 = Ctx(ctx.model, ctx.prop, ctx.tier)
    locate.check_merge(sub0)
    ctx.findings.extend(f for f in sub0.findings if f.rule == "MERGE" and f.site.endswith(":boundary"))
    ctx.functions |= sub0.functions
    ctx.expect("MERGE", 1)
    for cname in render.RENDERERS:
        render.check_renderer(ctx, cname, rules=("DIMGUARD", "WIDTH"))
    render.check_polar(ctx, rules=("DIV0",))
    render.check_arity(ctx)
    check_grid_dispatch(ctx)
    from ..rules import support

    # automatic intensity levels: defined for an empty fit region and converted to float (a bare min/max over an empty region
    # raises, levels in the image's own dtype make the bounds wrap around)
    from . import c04 as _c04

    support.compose(ctx, _c04.check_levels, keep=("LEVELS",), site_filter=lambda s_: s_.endswith(":empty-region") or s_.endswith(":dtype"))
    ctx.expect("LEVELS", 2)
    support.check_none_arithmetic(ctx, (f"{IMG}.refine_droplets", "droplets.emulsions.EmulsionTimeCourse.from_storage"))
    support.check_elementwise_shape_methods(ctx)
    support.check_scalar_wrapper(ctx)
    ctx.expect("WRAP", 1)
    check_threshold_dispatch(ctx)
    refine.check_pack(ctx, rules=("PACK", "FEASIBLE", "STRICT"))
    # the fit starts from the candidate's own parameters: every valid parameter value (radius 0, interface width 0, amplitudes
    # in [-1, 1]) must lie inside the bounds table, otherwise least_squares raises `Initial guess is outside of provided bounds`
    refine.check_bounds_layout(ctx)
    ctx.expect("LAYOUT", 6)
    check_signal(ctx)
    # the documented error for perturbation modes (only 2d/3d) is decided on the *space* dimension: symmetric grids have fewer
    # axes than dimensions, so a test on the number of axes raises for valid requests (modes > 0 on polar/spherical/cylindrical grids)
    ld = ctx.model.func(f"{IMG}.locate_droplets")
    ldv = view(ctx.model, ld)
    guards_dim = [s_ for s_ in ldv.statements() if isinstance(s_, ast.If) and s_.body and isinstance(s_.body[0], ast.Raise) and "modes" in names_in(s_.test)]
    okd = False
    where_ = ld
    if len(guards_dim) == 1:
        t_ = ldv.expand(guards_dim[0].test, guards_dim[0], stop=(ld.params[0], "modes"))
        where_ = (ld, guards_dim[0])
        okd = f"{ld.params[0]}.grid.dim" in U(t_) and "num_axes" not in U(t_) and "ndim" not in U(t_) and "len(" not in U(t_)
    ctx.decide(okd, "EXHAUST", ld.qualname + ":modes-dim", where_, "the modes/dimension validity test reads the grid's space dimension (grid.dim)",
               f"the validity test for perturbation modes is `{U(ldv.expand(guards_dim[0].test, guards_dim[0], stop=(ld.params[0], 'modes')))[:80] if guards_dim else '?'}`: it must be decided on the space dimension "
               "phase_field.grid.dim; on symmetric grids (fewer axes than dimensions) another quantity raises the documented error for valid requests or builds droplets of the wrong dimension")
    check_otsu_total(ctx)
    check_histogram_total(ctx)
    check_kw_merge(ctx)
    check_axis_constraint(ctx)
    check_threshold_usage(ctx)
    from . import c07

    # METRIC: points are Cartesian; grid.distance must be told so (non-Cartesian grids raise otherwise)
    sub = Ctx(ctx.model, ctx.prop, ctx.tier)
    c07.check_overlaps(sub)
    ctx.findings.extend(f for f in sub.findings if f.rule == "METRIC")
    ctx.functions |= sub.functions
    # INDEX: the distance matrix is indexed (track, droplet) — rows from the alive tracks, columns from the frame's droplets.
    # A transposed matrix indexes past the shorter list as soon as the two counts differ (a droplet dissolves or nucleates)
    from ..rules import tracking

    sub2 = Ctx(ctx.model, ctx.prop, ctx.tier)
    tracking.check_distance_matcher(sub2, rules=("INDEX",))
    ctx.findings.extend(f for f in sub2.findings if f.rule == "INDEX")
    ctx.functions |= sub2.functions
    ctx.expect("INDEX", 4)
    ctx.expect("METRIC", 2)
    ctx.expect("WIDTH", 4)
    ctx.expect("TOTAL", 5)
    ctx.expect("EMPTY", 10)
    ctx.expect("ARITY", 3)
    ctx.expect("DIV0", 1)
    ctx.expect("DIMGUARD", 4)
    ctx.expect("EXHAUST", 8)
    ctx.expect("FEASIBLE", 2)
    ctx.expect("SIGNAL", 3)
    ctx.trust("scipy.ndimage.center_of_mass / cdist / argmin raise on empty operands", "least_squares raises for an infeasible start vector")
    ctx.assume("absence of all exceptions and finiteness of fitted values are not decided")
