"""C08 — saving and loading returns an equal object.

IOAGREE over the five writer and five reader functions: attribute keys read ⊆ written on
every writer path, empty sentinel, payload shape, zero-padded sequence keys read through
sorted(), class name ↔ registry ↔ constructor, time column of tracks (name, position,
64-bit float), one class per dataset, exact equality; LAYOUT: dtype fields = constructor
parameters = stored fields for every droplet class.
"""

from __future__ import annotations

import ast

from ..core import Ctx
from ..rules import io

EM = io.EM
TR = io.TR


def _width_setter(m):
    return m.func("droplets.droplets.DiffuseDroplet.interface_width@setter")


def check(ctx: Ctx):
    ctx.explain("Writer/reader table agreement (IOAGREE) and dtype/constructor layout agreement (LAYOUT); see module docstring.")
    io.check_dataset_pair(ctx, f"{EM}.Emulsion._write_hdf_dataset", f"{EM}.Emulsion._from_hdf_dataset", "Emulsion")
    io.check_dataset_pair(ctx, f"{TR}.DropletTrack._write_hdf_dataset", f"{TR}.DropletTrack._from_hdf_dataset", "DropletTrack")
    io.check_registry(ctx)
    io.check_one_class(ctx)
    io.check_track_one_layout(ctx)
    io.check_file_modes(ctx)
    io.check_no_cached_state(ctx)
    io.check_writers_propagate(ctx)
    io.check_readers_total(ctx)
    io.check_sequence_keys(ctx, f"{EM}.EmulsionTimeCourse.to_file", f"{EM}.EmulsionTimeCourse.from_file", "_write_hdf_dataset", "EmulsionTimeCourse")
    io.check_sequence_keys(ctx, f"{TR}.DropletTrackList.to_file", f"{TR}.DropletTrackList.from_file", "_write_hdf_dataset", "DropletTrackList")
    io.check_timecourse_time(ctx)
    io.check_pair_iteration(ctx)
    m = ctx.model
    io.check_time_column(ctx)
    # readers rebuild collections through append(..., time=stored): 0.0 is a valid stored time, NaN a valid stored width,
    # and the default copy of a stored frame keeps every member
    from ..rules import nonetest, collections as col

    nonetest.check(ctx, m.func(f"{TR}.DropletTrack.append"), "time", "the time stamp")
    nonetest.check(ctx, m.func(f"{EM}.EmulsionTimeCourse.append"), "time", "the time stamp")
    io.check_nan_width(ctx)
    # … and every stored frame / row comes back as one new member: append adds exactly one member per call
    col.check_pair_methods(ctx)
    from ..rules import tracking

    tracking.check_track_append(ctx, rules=("PAIR",))
    # writers iterate their frames once: a pre-flight loop over a one-shot `items()` iterator leaves nothing for the write loop
    from ..rules import iteronce as _iteronce

    for q_ in ("droplets.emulsions.EmulsionTimeCourse.to_file", "droplets.droplet_tracks.DropletTrackList.to_file", "droplets.droplet_tracks.DropletTrack.to_file", "droplets.emulsions.Emulsion.to_file"):
        if ctx.model.has_func(q_):
            _iteronce.check_local_iterators(ctx, ctx.model.func(q_))
            _iteronce.check_function(ctx, ctx.model.func(q_))
    ctx.expect("PAIR", 5)
    col.check_copy_total(ctx)
    ctx.expect("NONETEST", 3)
    ctx.expect("COPYALL", 2)
    io.check_exact_eq(ctx)
    from ..rules import support

    # the constructor's own list of times: a shared list lets times and members drift apart before writing (zip truncates)
    support.compose(ctx, col.check_fresh_derivations, keep=("FRESH",), site_filter=lambda s: "EmulsionTimeCourse.__init__" in s)
    support.check_field_types(ctx)
    support.check_writers_total(ctx, (f"{EM}.Emulsion.to_file", f"{EM}.EmulsionTimeCourse.to_file", f"{TR}.DropletTrack.to_file", f"{TR}.DropletTrackList.to_file"))
    nonetest.check(ctx, _width_setter(m), "value", "the interface width")
    io.check_layouts(ctx)
    ctx.expect("IOAGREE", 52)
    ctx.expect("LAYOUT", 5)
    ctx.trust("h5py / NumPy store and load structured arrays bit-exactly", "a 6-digit zero-padded key preserves order for up to 10^6 members")
    ctx.assume("partial files after an exception in a later member are not analysed")
