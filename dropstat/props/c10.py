"""C10 — overlap removal leaves a separated subset and distance queries agree.

  EFFECT      remove_overlapping mutates the emulsion only by pop(index);
  PAIR        pop(k) is paired with deleting row k and column k of the cached matrix;
  GUARDSHAPE  diagonal neutralised, global closest pair, strict `< min_distance` test with
              break otherwise, tie-break never removes a strictly larger droplet;
  METRIC      surface distances in the supplied grid's metric; the pairwise matrix uses
              the Euclidean norm only for grid None;
  SYMM/SURFACE symmetric zero-diagonal construction; entry = centre distance − (r_i + r_j);
  STRICT      overlaps ⇔ distance < r1 + r2, in the same metric;
  NEIGHBOR    nearest-neighbour distances from the second KD-tree hit;
  RANDOM      random emulsions are drawn inside the requested region and radius range.
"""

from __future__ import annotations

from ..core import Ctx
from ..rules import collections as col
from . import c07


def check(ctx: Ctx):
    ctx.explain(
        "Shape rules over Emulsion.remove_overlapping (pop-only effect, lock-step list/matrix updates, comparison polarity at the "
        "tie-break and at the closeness test, loop exit), get_pairwise_distances (metric selection, symmetric construction, exact "
        "normal form of the subtracted radii), SphericalDroplet.overlaps (strictness and metric), get_neighbor_distances and from_random."
    )
    col.check_remove_overlapping(ctx)
    from ..rules import support as _sup_r11

    _sup_r11.check_no_override(ctx, "SphericalDroplet", "overlaps")
    # distance queries are recomputed from the members' current data: nothing is memoised on the (mutable) emulsion
    from ..rules import io as _io_r12

    _io_r12.check_no_cached_state(ctx, rule="STATELESS")
    ctx.expect("OVERRIDE", 1)
    col.check_pairwise(ctx)
    c07.check_overlaps(ctx)
    col.check_neighbor(ctx)
    col.check_from_random(ctx)
    from ..rules import support

    support.check_field_types(ctx)
    support.check_inverse_permutation(ctx)
    ctx.expect("INVPERM", 1)
    ctx.expect("LAYOUT", 3)
    ctx.expect("EFFECT", 1)
    ctx.expect("PAIR", 1)
    ctx.expect("GUARDSHAPE", 4)
    ctx.expect("METRIC", 4)
    ctx.expect("SYMM", 1)
    ctx.expect("SURFACE", 1)
    ctx.expect("STRICT", 1)
    ctx.expect("NEIGHBOR", 2)
    ctx.expect("RANDOM", 2)
    ctx.trust("numpy.delete / argmin / unravel_index / fill_diagonal semantics", "KD-tree query(points, 2) returns each point itself first",
              "numpy.random.Generator.uniform(low, high) stays inside [low, high)")
    ctx.assume("the separation theorem itself (no remaining pair closer than min_distance) follows from the loop shape and is not re-proved numerically")
