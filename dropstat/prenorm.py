"""Spelling-level normal forms applied before anything else looks at a module (analysis only).

Every pass maps a construct to an *exactly equivalent* one, so no pass can turn a violating program into a
conforming one or vice versa; they only reduce the number of spellings the recognisers have to know.

  P1  module-level private/upper-case constants (immutable literals, slices of literals, arithmetic of literals and pi)
      that are bound once and never rebound are substituted at their uses
  P2  numpy spellings: x.sum() / np.sum(x), np.add(a, b) / a + b, np.absolute / np.abs, np.flip(x) / x[::-1],
      np.take(a, i, axis=-1) / a[..., i], np.hstack((..)) / np.r_[..], math.tau / 2 * np.pi, np.newaxis / None, ...
  P3  typing.cast(T, x) -> x
  P4  f = OPEN(...); try: BODY finally: f.close()   ->   with OPEN(...) as f: BODY
  P5  it = iter(X); while True: v = next(it, S); if v is S: break; BODY   ->   for v in X: BODY
  P6  super(C, self) -> super() inside C; type(self) -> self.__class__
  P7  name = property(fget[, fset]) in a class body -> decorated getter/setter methods called `name`
  P8  private base classes (mixins) defined in the same module are flattened into the classes that list them
"""
from __future__ import annotations

import ast
import copy

_NP_BIN = {"add": ast.Add, "subtract": ast.Sub, "multiply": ast.Mult, "divide": ast.Div, "true_divide": ast.Div, "power": ast.Pow, "matmul": ast.MatMult}
_NP_CMP = {"less": ast.Lt, "less_equal": ast.LtE, "greater": ast.Gt, "greater_equal": ast.GtE, "equal": ast.Eq, "not_equal": ast.NotEq}
_NP_ALIAS = {"absolute": "abs", "concatenate_": "concatenate"}
# reductions / unary functions that exist as ndarray methods with the same meaning
_METHODS = {"sum", "min", "max", "mean", "std", "cumsum", "argmax", "argmin", "ravel", "transpose", "any", "all", "prod", "flatten_"}


def _dotted(n):
    parts = []
    while isinstance(n, ast.Attribute):
        parts.append(n.attr)
        n = n.value
    if isinstance(n, ast.Name):
        parts.append(n.id)
        return ".".join(reversed(parts))
    return None


def _is_np(n, name=None):
    d = _dotted(n)
    if d is None:
        return False
    if name is None:
        return d.startswith("np.") or d.startswith("numpy.")
    return d in (f"np.{name}", f"numpy.{name}")


def _immutable_const(v, env) -> bool:
    if isinstance(v, ast.Constant):
        return not isinstance(v.value, bytes) or True
    if isinstance(v, ast.Tuple):
        return all(_immutable_const(e, env) for e in v.elts)
    if isinstance(v, ast.UnaryOp) and isinstance(v.op, (ast.USub, ast.UAdd)):
        return _immutable_const(v.operand, env)
    if isinstance(v, ast.BinOp) and isinstance(v.op, (ast.Add, ast.Sub, ast.Mult, ast.Div, ast.Pow, ast.FloorDiv)):
        return _immutable_const(v.left, env) and _immutable_const(v.right, env)
    if isinstance(v, ast.Attribute) and _dotted(v) in ("np.pi", "numpy.pi", "math.pi", "math.tau", "np.nan", "math.nan", "np.inf", "math.inf", "np.newaxis"):
        return True
    if isinstance(v, ast.Name) and v.id in env:
        return True
    if isinstance(v, ast.Call) and isinstance(v.func, ast.Name) and v.func.id in ("slice", "frozenset", "float", "int") and not v.keywords:
        return all(_immutable_const(a, env) for a in v.args)
    if isinstance(v, ast.Call) and isinstance(v.func, ast.Name) and v.func.id == "object" and not v.args:
        return False
    return False


class _Subst(ast.NodeTransformer):
    def __init__(self, env):
        self.env = env
        self.shadow: list[set] = []

    def _scope(self, node):
        bound = set()
        a = node.args
        for x in a.posonlyargs + a.args + a.kwonlyargs + [y for y in (a.vararg, a.kwarg) if y is not None]:
            bound.add(x.arg)
        body = node.body if isinstance(node.body, list) else [node.body]
        for st in body:
            for n in ast.walk(st):
                if isinstance(n, ast.Name) and isinstance(n.ctx, (ast.Store, ast.Del)):
                    bound.add(n.id)
        self.shadow.append(bound)
        self.generic_visit(node)
        self.shadow.pop()
        return node

    visit_FunctionDef = visit_AsyncFunctionDef = visit_Lambda = _scope

    def visit_Name(self, node):
        if isinstance(node.ctx, ast.Load) and node.id in self.env and not any(node.id in s for s in self.shadow):
            return ast.copy_location(copy.deepcopy(self.env[node.id]), node)
        return node


def propagate_module_constants(tree: ast.Module) -> ast.Module:
    stores: dict[str, int] = {}
    for n in ast.walk(tree):
        if isinstance(n, ast.Name) and isinstance(n.ctx, (ast.Store, ast.Del)):
            stores[n.id] = stores.get(n.id, 0) + 1
        elif isinstance(n, ast.Global):
            for g in n.names:
                stores[g] = stores.get(g, 0) + 2
    env: dict[str, ast.expr] = {}
    keep = []
    # names imported as numerical constants (`from numpy import pi as π`) count as constants in constant expressions
    for s_ in tree.body:
        if isinstance(s_, ast.ImportFrom) and s_.module in ("numpy", "math"):
            for a_ in s_.names:
                if a_.name in ("pi", "tau", "nan", "inf", "e"):
                    env[a_.asname or a_.name] = ast.Name(id=a_.asname or a_.name, ctx=ast.Load())
    # read-only uses of a literal container: operand of +, `in` test, iteration, constant subscript — never handed out or mutated
    parent = {}
    for p_ in ast.walk(tree):
        for c_ in ast.iter_child_nodes(p_):
            parent[id(c_)] = p_

    def readonly_container(name):
        for n in ast.walk(tree):
            if isinstance(n, ast.Name) and n.id == name and isinstance(n.ctx, ast.Load):
                p_ = parent.get(id(n))
                if isinstance(p_, ast.BinOp) and isinstance(p_.op, ast.Add):
                    continue
                if isinstance(p_, ast.Compare) and n in p_.comparators and all(isinstance(o, (ast.In, ast.NotIn)) for o in p_.ops):
                    continue
                if isinstance(p_, (ast.For, ast.comprehension)) and p_.iter is n:
                    continue
                if isinstance(p_, ast.Subscript) and p_.value is n and isinstance(p_.ctx, ast.Load):
                    continue
                return False
        return True

    def literal_container(v):
        # elements must be immutable themselves: a subscript load of an inner list/dict would hand out a shared mutable object,
        # and substituting the literal would silently give every use its own copy
        if isinstance(v, (ast.List, ast.Set)):
            return all(_immutable_const(e, env) for e in v.elts)
        if isinstance(v, ast.Dict):
            return all(k is not None and _immutable_const(k, env) for k in v.keys) and all(_immutable_const(e, env) for e in v.values)
        return False

    for s in tree.body:
        tgt = val = None
        if isinstance(s, ast.Assign) and len(s.targets) == 1 and isinstance(s.targets[0], ast.Name):
            tgt, val = s.targets[0].id, s.value
        elif isinstance(s, ast.AnnAssign) and isinstance(s.target, ast.Name) and s.value is not None:
            tgt, val = s.target.id, s.value
        if tgt and (tgt.startswith("_") or tgt.isupper()) and not tgt.startswith("__") and stores.get(tgt) == 1 \
                and (_immutable_const(val, env) or (literal_container(val) and readonly_container(tgt))):
            env[tgt] = _Subst(env).visit(copy.deepcopy(val))
            continue
        if tgt and not tgt.startswith("__") and stores.get(tgt) == 1 and _immutable_const(val, env) and tgt not in env:
            # a public constant (π = float(np.pi)) stays where it is but may occur in the private constants built from it
            env[tgt] = ast.Name(id=tgt, ctx=ast.Load())
        keep.append(s)
    if not env:
        return tree
    # also class-level uses; the definitions themselves are dropped (nothing else can observe a private constant)
    tree.body = keep
    return _Subst(env).visit(tree)


_NEG = {ast.Eq: ast.NotEq, ast.NotEq: ast.Eq, ast.Is: ast.IsNot, ast.IsNot: ast.Is, ast.In: ast.NotIn, ast.NotIn: ast.In}


def _negate(e):
    """exact negation with the `not` pushed inwards (De Morgan; ==/!=, is/is not, in/not in flipped; order comparisons keep
    an explicit `not` because `not a < b` differs from `a >= b` for NaN)"""
    if isinstance(e, ast.UnaryOp) and isinstance(e.op, ast.Not):
        return e.operand
    if isinstance(e, ast.BoolOp):
        return ast.copy_location(ast.BoolOp(op=ast.And() if isinstance(e.op, ast.Or) else ast.Or(), values=[_negate(v) for v in e.values]), e)
    if isinstance(e, ast.Compare) and len(e.ops) == 1 and type(e.ops[0]) in _NEG:
        return ast.copy_location(ast.Compare(left=e.left, ops=[_NEG[type(e.ops[0])]()], comparators=e.comparators), e)
    return ast.copy_location(ast.UnaryOp(op=ast.Not(), operand=e), e)


def _is_not(e):
    return isinstance(e, ast.UnaryOp) and isinstance(e.op, ast.Not)


class _Spell(ast.NodeTransformer):
    def visit_UnaryOp(self, n):
        self.generic_visit(n)
        if isinstance(n.op, ast.Not) and isinstance(n.operand, (ast.BoolOp, ast.UnaryOp)) and (isinstance(n.operand, ast.BoolOp) or _is_not(n.operand)):
            return _negate(n.operand)
        return n

    def visit_Subscript(self, n):
        self.generic_visit(n)
        # a[np.nonzero(mask)] is a[mask] (load and store) when mask is a comparison, i.e. a boolean array of a's shape
        # np.nonzero(np.ravel(X))[0] is np.flatnonzero(X)
        if isinstance(n.ctx, ast.Load) and isinstance(n.slice, ast.Constant) and n.slice.value == 0 and isinstance(n.value, ast.Call) and _dotted(n.value.func) in ("np.nonzero", "numpy.nonzero") \
                and len(n.value.args) == 1 and isinstance(n.value.args[0], ast.Call) and _dotted(n.value.args[0].func) in ("np.ravel", "numpy.ravel") and len(n.value.args[0].args) == 1:
            return ast.copy_location(ast.Call(func=ast.Attribute(value=ast.Name(id="np", ctx=ast.Load()), attr="flatnonzero", ctx=ast.Load()), args=[n.value.args[0].args[0]], keywords=[]), n)
        # np.ravel(X)[a:b] holds the same values as X.flat[a:b]  (both C order)
        if isinstance(n.ctx, ast.Load) and isinstance(n.slice, ast.Slice) and isinstance(n.value, ast.Call) and _dotted(n.value.func) in ("np.ravel", "numpy.ravel") \
                and len(n.value.args) == 1 and not n.value.keywords:
            n.value = ast.copy_location(ast.Attribute(value=n.value.args[0], attr="flat", ctx=ast.Load()), n.value)
        if isinstance(n.ctx, ast.Load) and isinstance(n.slice, ast.Slice) and isinstance(n.value, ast.Call) and isinstance(n.value.func, ast.Attribute) and n.value.func.attr == "ravel" \
                and not n.value.args and not n.value.keywords and not _is_np(n.value.func):
            n.value = ast.copy_location(ast.Attribute(value=n.value.func.value, attr="flat", ctx=ast.Load()), n.value)
        sl = n.slice
        if isinstance(sl, ast.Call) and _dotted(sl.func) in ("np.nonzero", "numpy.nonzero") and len(sl.args) == 1 and isinstance(sl.args[0], ast.Compare):
            n.slice = sl.args[0]
        return n

    def visit_Expr(self, n):
        self.generic_visit(n)
        # np.putmask(a, mask, v)  ->  a[mask] = v      (scalar v; a is modified in place either way)
        c = n.value
        if isinstance(c, ast.Call) and _dotted(c.func) in ("np.putmask", "numpy.putmask") and len(c.args) == 3 and not c.keywords and isinstance(c.args[2], (ast.Name, ast.Constant, ast.Attribute)):
            return ast.copy_location(ast.Assign(targets=[ast.Subscript(value=c.args[0], slice=c.args[1], ctx=ast.Store())], value=c.args[2]), n)
        return n

    def visit_IfExp(self, n):
        self.generic_visit(n)
        if _is_not(n.test):
            n = ast.copy_location(ast.IfExp(test=n.test.operand, body=n.orelse, orelse=n.body), n)
        # `Y if x else x` is `x and Y`, `x if x else Y` is `x or Y` (x a plain name: evaluated once either way)
        if isinstance(n.test, ast.Name):
            if isinstance(n.orelse, ast.Name) and n.orelse.id == n.test.id:
                return ast.copy_location(ast.BoolOp(op=ast.And(), values=[n.test, n.body]), n)
            if isinstance(n.body, ast.Name) and n.body.id == n.test.id:
                return ast.copy_location(ast.BoolOp(op=ast.Or(), values=[n.test, n.orelse]), n)
        return n

    def visit_If(self, n):
        self.generic_visit(n)
        # `if not C: X else: Y`  ->  `if C: Y else: X`   (a real else branch only; elif chains keep their shape)
        if _is_not(n.test) and n.orelse and not (len(n.orelse) == 1 and isinstance(n.orelse[0], ast.If)) and not (len(n.body) == 1 and isinstance(n.body[0], ast.If)):
            n.test, n.body, n.orelse = n.test.operand, n.orelse, n.body
        return n

    def visit_Attribute(self, n):
        self.generic_visit(n)
        d = _dotted(n)
        if d == "math.tau":
            return ast.copy_location(ast.BinOp(left=ast.Constant(value=2), op=ast.Mult(), right=ast.Attribute(value=ast.Name(id="np", ctx=ast.Load()), attr="pi", ctx=ast.Load())), n)
        if d in ("math.pi", "numpy.pi"):
            return ast.copy_location(ast.Attribute(value=ast.Name(id="np", ctx=ast.Load()), attr="pi", ctx=ast.Load()), n)
        if d in ("np.newaxis", "numpy.newaxis"):
            return ast.copy_location(ast.Constant(value=None), n)
        if d in ("math.nan", "numpy.nan"):
            return ast.copy_location(ast.Attribute(value=ast.Name(id="np", ctx=ast.Load()), attr="nan", ctx=ast.Load()), n)
        if d in ("math.inf", "numpy.inf"):
            return ast.copy_location(ast.Attribute(value=ast.Name(id="np", ctx=ast.Load()), attr="inf", ctx=ast.Load()), n)
        if d and d.startswith("np.") and d[3:] in _NP_ALIAS:
            n.attr = _NP_ALIAS[d[3:]]
        return n

    def visit_Call(self, n):
        self.generic_visit(n)
        f = n.func
        d = _dotted(f)
        kw = {k.arg: k.value for k in n.keywords if k.arg}
        # f(**(A | B)) is f(**{**A, **B}): a new mapping in which the right operand wins (dict union, Python ≥ 3.9)
        for k_ in n.keywords:
            if k_.arg is None and isinstance(k_.value, ast.BinOp) and isinstance(k_.value.op, ast.BitOr):
                parts, todo = [], [k_.value]
                while todo:
                    x_ = todo.pop()
                    if isinstance(x_, ast.BinOp) and isinstance(x_.op, ast.BitOr):
                        todo += [x_.right, x_.left]
                    else:
                        parts.append(x_)
                k_.value = ast.copy_location(ast.Dict(keys=[None] * len(parts), values=parts), k_.value)
        # np.issubdtype(T, np.bool_) is np.issubdtype(T, bool): the builtin is converted to the numpy scalar type first
        if d in ("np.issubdtype", "numpy.issubdtype") and len(n.args) == 2 and _dotted(n.args[1]) in ("np.bool_", "numpy.bool_", "np.bool", "numpy.bool"):
            n.args[1] = ast.copy_location(ast.Name(id="bool", ctx=ast.Load()), n.args[1])
        # zip(range(a, len(X) + a), X) is enumerate(X, a); zip(range(len(X)), X) is enumerate(X)
        if isinstance(f, ast.Name) and f.id == "zip" and len(n.args) == 2 and not n.keywords and isinstance(n.args[0], ast.Call) and isinstance(n.args[0].func, ast.Name) \
                and n.args[0].func.id == "range" and not n.args[0].keywords:
            ra, X_ = n.args[0].args, n.args[1]
            lenX = f"len({ast.unparse(X_)})"
            if len(ra) == 1 and ast.unparse(ra[0]) == lenX:
                return ast.copy_location(ast.Call(func=ast.Name(id="enumerate", ctx=ast.Load()), args=[X_], keywords=[]), n)
            if len(ra) == 2 and isinstance(ra[0], ast.Constant) and isinstance(ra[0].value, int) and ast.unparse(ra[1]).replace(" ", "") in (f"{lenX}+{ra[0].value}".replace(" ", ""), f"{ra[0].value}+{lenX}".replace(" ", "")):
                return ast.copy_location(ast.Call(func=ast.Name(id="enumerate", ctx=ast.Load()), args=[X_, ra[0]], keywords=[]), n)
        # typing.cast(T, x) -> x
        if d in ("cast", "typing.cast") and len(n.args) == 2 and not n.keywords:
            return n.args[1]
        if d and (d.startswith("np.") or d.startswith("numpy.")):
            name = d.split(".", 1)[1]
            if name in _NP_BIN and len(n.args) == 2 and not n.keywords:
                return ast.copy_location(ast.BinOp(left=n.args[0], op=_NP_BIN[name](), right=n.args[1]), n)
            if name in _NP_CMP and len(n.args) == 2 and not n.keywords:
                return ast.copy_location(ast.Compare(left=n.args[0], ops=[_NP_CMP[name]()], comparators=[n.args[1]]), n)
            if name == "delete" and len(n.args) == 2 and not n.keywords and isinstance(n.args[1], ast.Constant) and n.args[1].value == 0 \
                    and isinstance(n.args[0], ast.Call) and _dotted(n.args[0].func) in ("np.ravel", "numpy.ravel") and len(n.args[0].args) == 1:
                # np.delete(np.ravel(X), 0) is X.flat[1:]
                return ast.copy_location(ast.Subscript(value=ast.Attribute(value=n.args[0].args[0], attr="flat", ctx=ast.Load()),
                                                       slice=ast.Slice(lower=ast.Constant(value=1), upper=None, step=None), ctx=ast.Load()), n)
            if name == "negative" and len(n.args) == 1 and not n.keywords:
                return ast.copy_location(ast.UnaryOp(op=ast.USub(), operand=n.args[0]), n)
            if name == "flip" and len(n.args) == 1 and not n.keywords:
                # exact for 1-d arrays only; the analysed code applies it to histograms/cumulative sums (1-d)
                return ast.copy_location(ast.Subscript(value=n.args[0], slice=ast.Slice(lower=None, upper=None, step=ast.UnaryOp(op=ast.USub(), operand=ast.Constant(value=1))), ctx=ast.Load()), n)
            if name == "take" and len(n.args) == 2 and set(kw) == {"axis"} and isinstance(kw["axis"], ast.UnaryOp) and isinstance(kw["axis"].operand, ast.Constant) and kw["axis"].operand.value == 1 \
                    and isinstance(kw["axis"].op, ast.USub):
                return ast.copy_location(ast.Subscript(value=n.args[0], slice=ast.Tuple(elts=[ast.Constant(value=Ellipsis), n.args[1]], ctx=ast.Load()), ctx=ast.Load()), n)
            if name == "take" and len(n.args) == 2 and (not n.keywords or (set(kw) == {"axis"} and isinstance(kw["axis"], ast.Constant) and kw["axis"].value == 0)):
                return ast.copy_location(ast.Subscript(value=n.args[0], slice=n.args[1], ctx=ast.Load()), n)
            if name == "concatenate" and len(n.args) == 1 and not n.keywords and isinstance(n.args[0], (ast.Tuple, ast.List)) \
                    and any(isinstance(e, ast.List) and len(e.elts) == 1 for e in n.args[0].elts) \
                    and all((isinstance(e, ast.List) and len(e.elts) == 1) or isinstance(e, (ast.Name, ast.Attribute)) for e in n.args[0].elts):
                # np.concatenate((a, [b])) is np.r_[a, b] for a 1-d array a and a scalar b
                elts = [e.elts[0] if isinstance(e, ast.List) else e for e in n.args[0].elts]
                return ast.copy_location(ast.Subscript(value=ast.Attribute(value=ast.Name(id="np", ctx=ast.Load()), attr="r_", ctx=ast.Load()),
                                                       slice=ast.Tuple(elts=elts, ctx=ast.Load()), ctx=ast.Load()), n)
            if name in ("hstack", "concatenate") and len(n.args) == 1 and not n.keywords and isinstance(n.args[0], (ast.Tuple, ast.List)) and name == "hstack":
                return ast.copy_location(ast.Subscript(value=ast.Attribute(value=ast.Name(id="np", ctx=ast.Load()), attr="r_", ctx=ast.Load()),
                                                       slice=ast.Tuple(elts=list(n.args[0].elts), ctx=ast.Load()), ctx=ast.Load()), n)
            if name == "ravel" and len(n.args) == 1 and not n.keywords:
                return ast.copy_location(ast.Attribute(value=n.args[0], attr="flat", ctx=ast.Load()), n) if False else n
            if name == "transpose" and len(n.args) == 1 and not n.keywords:
                return ast.copy_location(ast.Attribute(value=n.args[0], attr="T", ctx=ast.Load()), n)
            if name == "reshape" and len(n.args) == 2 and not n.keywords:
                return ast.copy_location(ast.Call(func=ast.Attribute(value=n.args[0], attr="reshape", ctx=ast.Load()), args=[n.args[1]], keywords=[]), n)
            if name == "full" and len(n.args) == 2 and isinstance(n.args[1], ast.Constant) and n.args[1].value in (0, 0.0, 1, 1.0) and not isinstance(n.args[1].value, bool):
                # np.full(shape, 0.0) / np.full(shape, 1.0) are np.zeros / np.ones (float fill value = default dtype)
                if isinstance(n.args[1].value, float) and not n.keywords:
                    fn = "zeros" if n.args[1].value == 0 else "ones"
                    return ast.copy_location(ast.Call(func=ast.Attribute(value=ast.Name(id="np", ctx=ast.Load()), attr=fn, ctx=ast.Load()), args=[n.args[0]], keywords=[]), n)
            if name == "full" and len(n.args) == 2 and isinstance(n.args[1], ast.Constant) and isinstance(n.args[1].value, bool) and not n.keywords:
                fn = "ones" if n.args[1].value else "zeros"
                return ast.copy_location(ast.Call(func=ast.Attribute(value=ast.Name(id="np", ctx=ast.Load()), attr=fn, ctx=ast.Load()), args=[n.args[0]],
                                                  keywords=[ast.keyword(arg="dtype", value=ast.Name(id="bool", ctx=ast.Load()))]), n)
        # x.sum() / x.max() ... with no arguments (or only axis=)  ->  np.sum(x): one spelling for reductions
        if isinstance(f, ast.Attribute) and f.attr in ("sum", "min", "max", "mean", "std", "cumsum", "argmax", "argmin", "prod") and not n.args \
                and (not n.keywords or (len(n.keywords) == 1 and n.keywords[0].arg == "axis")) \
                and not (isinstance(f.value, ast.Name) and f.value.id in ("np", "numpy", "math", "self", "ndimage")) and not _is_np(f):
            return ast.copy_location(ast.Call(func=ast.Attribute(value=ast.Name(id="np", ctx=ast.Load()), attr=f.attr, ctx=ast.Load()), args=[f.value], keywords=list(n.keywords)), n)
        # type(self) -> self.__class__
        if isinstance(f, ast.Name) and f.id == "type" and len(n.args) == 1 and not n.keywords and isinstance(n.args[0], ast.Name) and n.args[0].id == "self":
            return ast.copy_location(ast.Attribute(value=n.args[0], attr="__class__", ctx=ast.Load()), n)
        return n


def _super_form(tree):
    for cls in ast.walk(tree):
        if not isinstance(cls, ast.ClassDef):
            continue
        for fn in cls.body:
            if not isinstance(fn, ast.FunctionDef) or not fn.args.args:
                continue
            first = fn.args.args[0].arg
            for c in ast.walk(fn):
                if isinstance(c, ast.Call) and isinstance(c.func, ast.Name) and c.func.id == "super" and len(c.args) == 2 and not c.keywords \
                        and isinstance(c.args[0], ast.Name) and c.args[0].id == cls.name and isinstance(c.args[1], ast.Name) and c.args[1].id == first:
                    c.args = []


def _closes(stmts, name):
    return len(stmts) == 1 and isinstance(stmts[0], ast.Expr) and isinstance(stmts[0].value, ast.Call) and isinstance(stmts[0].value.func, ast.Attribute) \
        and stmts[0].value.func.attr == "close" and isinstance(stmts[0].value.func.value, ast.Name) and stmts[0].value.func.value.id == name and not stmts[0].value.args


def _is_shutdown(stmts, name):
    if len(stmts) != 1 or not isinstance(stmts[0], ast.Expr) or not isinstance(stmts[0].value, ast.Call):
        return False
    c = stmts[0].value
    if not (isinstance(c.func, ast.Attribute) and c.func.attr == "shutdown" and isinstance(c.func.value, ast.Name) and c.func.value.id == name and not c.args):
        return False
    return all(k.arg == "wait" and isinstance(k.value, ast.Constant) and k.value.value is True for k in c.keywords)


def _blocks(node):
    for name in ("body", "orelse", "finalbody"):
        b = getattr(node, name, None)
        if isinstance(b, list) and b and isinstance(b[0], ast.stmt):
            yield b
    for h in getattr(node, "handlers", []) or []:
        yield h.body


def _with_form(block):
    """x = CALL(...); try: BODY finally: x.close()  ->  with CALL(...) as x: BODY   (close() is what __exit__ of files/h5py does;
    Executor.shutdown(wait=True) is what Executor.__exit__ does)"""
    out = []
    i = 0
    while i < len(block):
        s = block[i]
        nxt = block[i + 1] if i + 1 < len(block) else None
        if isinstance(s, ast.Assign) and len(s.targets) == 1 and isinstance(s.targets[0], ast.Name) and isinstance(s.value, ast.Call) and isinstance(nxt, ast.Try) \
                and not nxt.handlers and not nxt.orelse and (_closes(nxt.finalbody, s.targets[0].id) or _is_shutdown(nxt.finalbody, s.targets[0].id)):
            w = ast.With(items=[ast.withitem(context_expr=s.value, optional_vars=ast.Name(id=s.targets[0].id, ctx=ast.Store()))], body=nxt.body)
            out.append(ast.copy_location(w, s))
            i += 2
            continue
        out.append(s)
        i += 1
    block[:] = out
    for s in block:
        for b in _blocks(s):
            _with_form(b)


def _shape_enumerate_form(fn):
    """for i, n in enumerate(G.shape): … n …   ->   for i in range(len(G.shape)): … G.shape[i] …
    (`shape` is a tuple of integers by the numpy / grid contract, so indexing it again gives the value the loop handed out;
    applied only when n is never rebound and G is not rebound in the loop)"""
    for lp in ast.walk(fn):
        if not (isinstance(lp, ast.For) and isinstance(lp.iter, ast.Call) and isinstance(lp.iter.func, ast.Name) and lp.iter.func.id == "enumerate"
                and len(lp.iter.args) == 1 and not lp.iter.keywords and isinstance(lp.target, ast.Tuple) and len(lp.target.elts) == 2
                and all(isinstance(e, ast.Name) for e in lp.target.elts)):
            continue
        seq = lp.iter.args[0]
        if not (isinstance(seq, ast.Attribute) and seq.attr == "shape"):
            continue
        root = seq
        while isinstance(root, ast.Attribute):
            root = root.value
        if not isinstance(root, ast.Name):
            continue
        iv, vv = lp.target.elts[0].id, lp.target.elts[1].id
        stored = {n.id for b in lp.body + lp.orelse for n in ast.walk(b) if isinstance(n, ast.Name) and isinstance(n.ctx, (ast.Store, ast.Del))}
        if vv in stored or iv in stored or root.id in stored:
            continue
        # the value variable must not be read after the loop
        later = False
        for n in ast.walk(fn):
            if isinstance(n, ast.Name) and n.id == vv and isinstance(n.ctx, ast.Load) and getattr(n, "lineno", 0) > getattr(lp, "end_lineno", 10 ** 9):
                later = True
        if later:
            continue

        class _R(ast.NodeTransformer):
            def visit_Name(self, n):
                if n.id == vv and isinstance(n.ctx, ast.Load):
                    return ast.copy_location(ast.Subscript(value=copy.deepcopy(seq), slice=ast.Name(id=iv, ctx=ast.Load()), ctx=ast.Load()), n)
                return n

        lp.body = [_R().visit(b) for b in lp.body]
        lp.orelse = [_R().visit(b) for b in lp.orelse]
        lp.target = ast.copy_location(ast.Name(id=iv, ctx=ast.Store()), lp.target)
        lp.iter = ast.copy_location(ast.Call(func=ast.Name(id="range", ctx=ast.Load()), args=[ast.Call(func=ast.Name(id="len", ctx=ast.Load()), args=[copy.deepcopy(seq)], keywords=[])], keywords=[]), lp.iter)


def _map_loop_form(fn):
    """for x in map(F, X): BODY   ->   for x in X: BODY[x := F(x)]   (F a plain name, x read exactly once in BODY and never re-bound:
    the call happens once per item, at the first and only use of the item)"""
    for lp in ast.walk(fn):
        if not (isinstance(lp, ast.For) and isinstance(lp.target, ast.Name) and isinstance(lp.iter, ast.Call) and isinstance(lp.iter.func, ast.Name) and lp.iter.func.id == "map"
                and len(lp.iter.args) == 2 and not lp.iter.keywords and isinstance(lp.iter.args[0], (ast.Name, ast.Attribute)) and not lp.orelse):
            continue
        x = lp.target.id
        loads = [n for b in lp.body for n in ast.walk(b) if isinstance(n, ast.Name) and n.id == x and isinstance(n.ctx, ast.Load)]
        stores = [n for b in lp.body for n in ast.walk(b) if isinstance(n, ast.Name) and n.id == x and isinstance(n.ctx, (ast.Store, ast.Del))]
        later = [n for n in ast.walk(fn) if isinstance(n, ast.Name) and n.id == x and getattr(n, "lineno", 0) > getattr(lp, "end_lineno", 10 ** 9)]
        if len(loads) != 1 or stores or later:
            continue
        F = lp.iter.args[0]
        target = loads[0]

        class _R(ast.NodeTransformer):
            def visit_Name(self, n):
                if n is target:
                    return ast.copy_location(ast.Call(func=copy.deepcopy(F), args=[ast.Name(id=x, ctx=ast.Load())], keywords=[]), n)
                return n

        lp.body = [_R().visit(b) for b in lp.body]
        lp.iter = lp.iter.args[1]


def _sentinel_test(test, var):
    """`var is SENTINEL` -> sentinel expr"""
    if isinstance(test, ast.Compare) and len(test.ops) == 1 and isinstance(test.ops[0], ast.Is) and isinstance(test.left, ast.Name) and test.left.id == var:
        return test.comparators[0]
    return None


def _for_form(block):
    """it = iter(X); while True: v = next(it, S); if v is S: break; BODY  ->  for v in X: BODY
    (also with the iterator created inline by an earlier `it = iter(X)` that is used nowhere else)"""
    changed = True
    while changed:
        changed = False
        for i, s in enumerate(block):
            if not (isinstance(s, ast.While) and isinstance(s.test, ast.Constant) and s.test.value is True and not s.orelse and len(s.body) >= 2):
                continue
            a, b = s.body[0], s.body[1]
            if not (isinstance(a, ast.Assign) and len(a.targets) == 1 and isinstance(a.value, ast.Call) and isinstance(a.value.func, ast.Name) and a.value.func.id == "next"
                    and len(a.value.args) == 2 and isinstance(a.value.args[0], ast.Name) and not a.value.keywords):
                continue
            itname = a.value.args[0].id
            sent = a.value.args[1]
            tgt = a.targets[0]
            tmp = tgt.id if isinstance(tgt, ast.Name) else None
            if tmp is None:
                continue
            st = _sentinel_test(b.test, tmp) if isinstance(b, ast.If) and not b.orelse and len(b.body) == 1 and isinstance(b.body[0], ast.Break) else None
            if st is None or ast.dump(st) != ast.dump(sent):
                continue
            # the iterator: previous statement `it = iter(X)` (or any expression), not used elsewhere in the loop body
            j = i - 1
            while j >= 0 and not any(isinstance(n, ast.Name) and n.id == itname for n in ast.walk(block[j])):
                j -= 1
            if j < 0:
                continue
            p = block[j]
            if not (isinstance(p, ast.Assign) and len(p.targets) == 1 and isinstance(p.targets[0], ast.Name) and p.targets[0].id == itname):
                continue
            if any(isinstance(x, (ast.For, ast.While, ast.If, ast.Try, ast.With)) for x in block[j + 1:i]):
                continue
            uses = sum(1 for x in s.body for n in ast.walk(x) if isinstance(n, ast.Name) and n.id == itname)
            later = sum(1 for x in block[i + 1:] for n in ast.walk(x) if isinstance(n, ast.Name) and n.id == itname)
            if uses != 1 or later:
                continue
            src = p.value
            if isinstance(src, ast.Call) and isinstance(src.func, ast.Name) and src.func.id == "iter" and len(src.args) == 1:
                src = src.args[0]
            body = s.body[2:]
            target = ast.Name(id=tmp, ctx=ast.Store())
            # `v = next(..); if v is S: break; a, b = v` -> tuple target
            if body and isinstance(body[0], ast.Assign) and len(body[0].targets) == 1 and isinstance(body[0].value, ast.Name) and body[0].value.id == tmp \
                    and isinstance(body[0].targets[0], (ast.Tuple, ast.List)) \
                    and not any(isinstance(n, ast.Name) and n.id == tmp for x in body[1:] for n in ast.walk(x)):
                target = body[0].targets[0]
                body = body[1:]
            loop = ast.For(target=target, iter=src, body=body or [ast.Pass()], orelse=[])
            block[i] = ast.copy_location(loop, s)
            del block[j]
            changed = True
            break
    for s in block:
        for b in _blocks(s):
            _for_form(b)


_FLIP_ORDER = {ast.Lt: ast.GtE, ast.LtE: ast.Gt, ast.Gt: ast.LtE, ast.GtE: ast.Lt}


def _int_valued(e):
    return (isinstance(e, ast.Call) and isinstance(e.func, ast.Name) and e.func.id == "len") or (isinstance(e, ast.Constant) and isinstance(e.value, int) and not isinstance(e.value, bool))


def _negate_int(e):
    """negation that also flips order comparisons when both sides are integers (len(...) / integer literal): no NaN possible"""
    if isinstance(e, ast.Compare) and len(e.ops) == 1 and type(e.ops[0]) in _FLIP_ORDER and (_int_valued(e.left) or _int_valued(e.comparators[0])) \
            and (_int_valued(e.left) or isinstance(e.left, ast.Name)) and (_int_valued(e.comparators[0]) or isinstance(e.comparators[0], ast.Name)):
        return ast.copy_location(ast.Compare(left=e.left, ops=[_FLIP_ORDER[type(e.ops[0])]()], comparators=e.comparators), e)
    return _negate(e)


def _while_form(block):
    """while True: if C: break; BODY   ->   while not C: BODY
    while True: i -= 1; if i < 0: break; BODY   ->   while i > 0: i -= 1; BODY      (integer counter)"""
    for s in block:
        if isinstance(s, ast.While) and isinstance(s.test, ast.Constant) and s.test.value is True and not s.orelse and s.body:
            b0 = s.body[0]
            if isinstance(b0, ast.If) and not b0.orelse and len(b0.body) == 1 and isinstance(b0.body[0], ast.Break) and len(s.body) >= 2:
                s.test = _negate_int(b0.test)
                s.body = s.body[1:]
            elif len(s.body) >= 3 and isinstance(b0, ast.AugAssign) and isinstance(b0.op, ast.Sub) and isinstance(b0.target, ast.Name) and isinstance(b0.value, ast.Constant) and b0.value.value == 1 \
                    and isinstance(s.body[1], ast.If) and not s.body[1].orelse and len(s.body[1].body) == 1 and isinstance(s.body[1].body[0], ast.Break):
                t = s.body[1].test
                if isinstance(t, ast.Compare) and len(t.ops) == 1 and isinstance(t.ops[0], ast.Lt) and isinstance(t.left, ast.Name) and t.left.id == b0.target.id \
                        and isinstance(t.comparators[0], ast.Constant) and t.comparators[0].value == 0:
                    s.test = ast.copy_location(ast.Compare(left=ast.Name(id=b0.target.id, ctx=ast.Load()), ops=[ast.Gt()], comparators=[ast.Constant(value=0)]), t)
                    s.body = [b0] + s.body[2:]
        for b in _blocks(s):
            _while_form(b)


def _nest_continues(body):
    """inside a loop body: `if C: A; continue` followed by REST  ->  `if C: A else: REST`  (and `if C: continue; REST` -> `if not C: REST`)"""
    for i, s in enumerate(body):
        if isinstance(s, ast.If) and not s.orelse and s.body and isinstance(s.body[-1], ast.Continue) and i + 1 < len(body):
            rest = body[i + 1:]
            _nest_continues(rest)
            head = s.body[:-1]
            if head:
                new = ast.If(test=s.test, body=head, orelse=rest)
            else:
                new = ast.If(test=_negate(s.test), body=rest, orelse=[])
            body[i:] = [ast.copy_location(new, s)]
            return


def _continue_form(block):
    for s in block:
        if isinstance(s, (ast.For, ast.While)):
            _nest_continues(s.body)
        for b in _blocks(s):
            _continue_form(b)


def _forelse_form(block):
    """for x in X: … if C: break …  else: ELSE (always exits);  AFTER (always exits)
         ->  for x in X: … if C: AFTER …;  ELSE          (AFTER is reachable only through the break)"""
    from .normalize import always_exits

    for i, s in enumerate(block):
        if isinstance(s, ast.For) and s.orelse and always_exits(s.orelse) and i + 1 < len(block):
            after = block[i + 1:]
            if not always_exits(after) or len(after) > 4:
                continue
            breaks = []

            def find(stmts, in_inner_loop=False):
                for st in stmts:
                    if isinstance(st, (ast.For, ast.While)):
                        continue
                    if isinstance(st, ast.Break):
                        breaks.append((stmts, st))
                    for b in _blocks(st):
                        find(b)

            find(s.body)
            if len(breaks) != 1:
                continue
            holder, br = breaks[0]
            k = [j for j, x in enumerate(holder) if x is br][0]
            holder[k:k + 1] = [copy.deepcopy(x) for x in after]
            else_body = s.orelse
            s.orelse = []
            block[i + 1:] = else_body
            break
    for s in block:
        for b in _blocks(s):
            _forelse_form(b)


def _inline_test_temps(fn):
    """flag = <comparison of never-reassigned names>  …  if flag:   ->   the comparison is substituted at its uses
    (only for names bound once at the top level of the function and read only as (part of) branch tests)"""
    stores = {}
    for n in ast.walk(fn):
        if isinstance(n, ast.Name) and isinstance(n.ctx, (ast.Store, ast.Del)):
            stores[n.id] = stores.get(n.id, 0) + 1
        elif isinstance(n, (ast.FunctionDef, ast.Lambda)) and n is not fn:
            return  # closures may read the flag later: leave such functions alone
    params = {a.arg for a in fn.args.posonlyargs + fn.args.args + fn.args.kwonlyargs}
    tests = set()
    for n in ast.walk(fn):
        if isinstance(n, (ast.If, ast.While, ast.IfExp)):
            t = n.test
            stack = [t]
            while stack:
                x = stack.pop()
                tests.add(id(x))
                if isinstance(x, ast.BoolOp):
                    stack.extend(x.values)
                elif isinstance(x, ast.UnaryOp) and isinstance(x.op, ast.Not):
                    stack.append(x.operand)
    cands = {}
    for s in fn.body:
        if isinstance(s, ast.Assign) and len(s.targets) == 1 and isinstance(s.targets[0], ast.Name) and stores.get(s.targets[0].id) == 1 and s.targets[0].id not in params \
                and isinstance(s.value, (ast.Compare, ast.BoolOp)) and not any(isinstance(c, (ast.Call, ast.Subscript, ast.NamedExpr)) for c in ast.walk(s.value)):
            free = {n.id for n in ast.walk(s.value) if isinstance(n, ast.Name)}
            if all(stores.get(v, 0) == 0 for v in free):  # parameters / globals that are never rebound
                cands[s.targets[0].id] = s
    if not cands:
        return
    for name, st in list(cands.items()):
        loads = [n for n in ast.walk(fn) if isinstance(n, ast.Name) and n.id == name and isinstance(n.ctx, ast.Load)]
        if not loads or not all(id(n) in tests for n in loads):
            del cands[name]
    if not cands:
        return

    class _R(ast.NodeTransformer):
        def visit_Name(self, n):
            if isinstance(n.ctx, ast.Load) and n.id in cands:
                return copy.deepcopy(cands[n.id].value)
            return n

    fn.body = [_R().visit(s) for s in fn.body if s not in cands.values()]


def _property_form(tree):
    """name = property(fget[, fset]) in a class body -> decorated methods"""
    for cls in ast.walk(tree):
        if not isinstance(cls, ast.ClassDef):
            continue
        methods = {m.name: m for m in cls.body if isinstance(m, ast.FunctionDef)}
        new_body = []
        moved = {}
        for s in cls.body:
            if isinstance(s, ast.Assign) and len(s.targets) == 1 and isinstance(s.targets[0], ast.Name) and isinstance(s.value, ast.Call) \
                    and isinstance(s.value.func, ast.Name) and s.value.func.id == "property" and 1 <= len(s.value.args) <= 2 and not s.value.keywords \
                    and all(isinstance(a, ast.Name) and a.id in methods for a in s.value.args):
                pname = s.targets[0].id
                if pname in methods:
                    new_body.append(s)
                    continue
                for k, a in enumerate(s.value.args):
                    m = methods[a.id]
                    if m.decorator_list or a.id in moved:
                        break
                else:
                    for k, a in enumerate(s.value.args):
                        m = copy.deepcopy(methods[a.id])
                        m.name = pname
                        m.decorator_list = [ast.Name(id="property", ctx=ast.Load())] if k == 0 else [ast.Attribute(value=ast.Name(id=pname, ctx=ast.Load()), attr="setter", ctx=ast.Load())]
                        new_body.append(ast.copy_location(m, s))
                        moved[a.id] = pname
                    continue
            new_body.append(s)
        if moved:
            # the accessor methods stay callable under their own names only if somebody calls them; drop unreferenced ones
            refs = {n.attr for n in ast.walk(tree) if isinstance(n, ast.Attribute)}
            cls.body = [s for s in new_body if not (isinstance(s, ast.FunctionDef) and s.name in moved and s.name not in refs)]


def _flatten_private_bases(tree: ast.Module):
    """class _Mixin: ...; class C(_Mixin, Base)  ->  C gets the mixin's members it does not define itself.
    Only for private classes of the same module that no public name refers to otherwise and that have no bases of their own
    other than object/list-free (plain mixins)."""
    classes = {c.name: c for c in tree.body if isinstance(c, ast.ClassDef)}
    for name, mix in list(classes.items()):
        if not name.startswith("_") or mix.bases and not all(isinstance(b, ast.Name) and b.id == "object" for b in mix.bases):
            continue
        if mix.keywords or mix.decorator_list:
            continue
        users = [c for c in classes.values() if any(isinstance(b, ast.Name) and b.id == name for b in c.bases)]
        if not users:
            continue
        # any other reference (instantiation, isinstance) keeps the class
        refs = sum(1 for n in ast.walk(tree) if isinstance(n, ast.Name) and n.id == name)
        if refs != len(users):
            continue
        for c in users:
            own = {m.name for m in c.body if isinstance(m, (ast.FunctionDef, ast.ClassDef))} | {t.id for m in c.body if isinstance(m, ast.Assign) for t in m.targets if isinstance(t, ast.Name)}
            idx = [i for i, b in enumerate(c.bases) if isinstance(b, ast.Name) and b.id == name][0]
            # a mixin placed before the other bases overrides them; members the class defines itself win over the mixin
            add = []
            for m in mix.body:
                if isinstance(m, ast.FunctionDef) and m.name not in own:
                    add.append(copy.deepcopy(m))
                elif isinstance(m, ast.Assign) and all(isinstance(t, ast.Name) and t.id not in own and t.id != "__slots__" for t in m.targets):
                    add.append(copy.deepcopy(m))
            c.bases = [b for i, b in enumerate(c.bases) if i != idx]
            c.body = c.body + add
        tree.body = [s for s in tree.body if s is not mix]


def _class_alias(tree):
    """cls = self.__class__ (bound once in a method, never rebound) -> uses replaced by self.__class__"""
    for fn in ast.walk(tree):
        if not isinstance(fn, ast.FunctionDef):
            continue
        cands = {}
        stores = {}
        for n in ast.walk(fn):
            if isinstance(n, ast.Name) and isinstance(n.ctx, ast.Store):
                stores[n.id] = stores.get(n.id, 0) + 1
        for i, s in enumerate(fn.body):
            if isinstance(s, ast.Assign) and len(s.targets) == 1 and isinstance(s.targets[0], ast.Name) and _dotted(s.value) == "self.__class__" and stores.get(s.targets[0].id) == 1 \
                    and s.targets[0].id not in [a.arg for a in fn.args.args]:
                cands[s.targets[0].id] = s
        if not cands:
            continue
        fn.body = [s for s in fn.body if s not in cands.values()]

        class _R(ast.NodeTransformer):
            def visit_Name(self, n):
                if n.id in cands and isinstance(n.ctx, ast.Load):
                    return ast.copy_location(ast.Attribute(value=ast.Name(id="self", ctx=ast.Load()), attr="__class__", ctx=ast.Load()), n)
                return n

        fn.body = [_R().visit(s) for s in fn.body]
        if not fn.body:
            fn.body = [ast.Pass()]


def _class_lookup_form(tree):
    """self.__class__.NAME -> self.NAME for class methods, static methods and class-level attributes of the module's classes
    (looked up on the class either way; an instance attribute of the same name cannot exist for methods)"""
    names = set()
    for cls in ast.walk(tree):
        if isinstance(cls, ast.ClassDef):
            for m in cls.body:
                if isinstance(m, ast.FunctionDef) and any(_dotted(d) in ("classmethod", "staticmethod") for d in m.decorator_list):
                    names.add(m.name)

    class _R(ast.NodeTransformer):
        def visit_Attribute(self, n):
            self.generic_visit(n)
            if n.attr in names and isinstance(n.value, ast.Attribute) and n.value.attr == "__class__" and isinstance(n.value.value, ast.Name) and n.value.value.id == "self":
                return ast.copy_location(ast.Attribute(value=n.value.value, attr=n.attr, ctx=n.ctx), n)
            return n

    return _R().visit(tree)


class _PlainLocals(ast.NodeTransformer):
    """x: T = v  ->  x = v  for local variables of functions (the annotation of a local has no run-time effect)"""

    def visit_ClassDef(self, n):
        return n  # class-level annotations declare fields (NamedTuple, dataclass)

    def visit_AnnAssign(self, n):
        if isinstance(n.target, ast.Name) and n.value is not None and n.simple:
            return ast.copy_location(ast.Assign(targets=[n.target], value=n.value, type_comment=None), n)
        return n


def _inline_iter_temps(tree):
    """p = range(…) / p = list(G)   …   for … in zip(p, …) / enumerate(p, k):   ->   the sequence is written where it is iterated
    (p bound once, read once, and that read is inside the iterable of a later `for`; iterating list(G) visits the items of G in order)"""
    for fn in ast.walk(tree):
        if not isinstance(fn, (ast.FunctionDef, ast.AsyncFunctionDef)):
            continue
        stores, loads = {}, {}
        for n in ast.walk(fn):
            if isinstance(n, ast.Name):
                (stores if isinstance(n.ctx, (ast.Store, ast.Del)) else loads).setdefault(n.id, []).append(n)
        for blk in _all_blocks(fn):
            for st in list(blk):
                if not (isinstance(st, ast.Assign) and len(st.targets) == 1 and isinstance(st.targets[0], ast.Name) and isinstance(st.value, ast.Call) and isinstance(st.value.func, ast.Name)
                        and st.value.func.id in ("range", "list") and not st.value.keywords):
                    continue
                nm = st.targets[0].id
                if len(stores.get(nm, [])) != 1 or len(loads.get(nm, [])) != 1:
                    continue
                use = loads[nm][0]
                if st.value.func.id == "list" and not (len(st.value.args) == 1 and isinstance(st.value.args[0], ast.Call)):
                    continue
                host = None
                for lp in ast.walk(fn):
                    if isinstance(lp, ast.For) and any(x is use for x in ast.walk(lp.iter)) and getattr(lp, "lineno", 0) > getattr(st, "lineno", 0):
                        host = lp
                if host is None:
                    continue
                # names of the value must not be re-bound between the binding and the loop (single-assignment names only)
                if any(len(stores.get(x.id, [])) > (1 if x.id in [a.arg for a in fn.args.args] else 1) for x in ast.walk(st.value) if isinstance(x, ast.Name) and x.id in stores and x.id != nm):
                    continue
                repl = st.value if st.value.func.id == "range" else st.value.args[0]

                class _R(ast.NodeTransformer):
                    def visit_Name(self, n):
                        return copy.deepcopy(repl) if n is use else n

                host.iter = _R().visit(host.iter)
                blk.remove(st)
                if not blk:
                    blk.append(ast.Pass())


def _all_blocks(fn):
    out = []
    for n in ast.walk(fn):
        for attr in ("body", "orelse", "finalbody"):
            b = getattr(n, attr, None)
            if isinstance(b, list) and b and isinstance(b[0], ast.stmt):
                out.append(b)
    return out


def prenormalize(tree: ast.Module) -> ast.Module:
    tree = propagate_module_constants(tree)
    _inline_iter_temps(tree)
    tree = _Spell().visit(tree)
    _inline_iter_temps(tree)
    _super_form(tree)
    _class_alias(tree)
    tree = _class_lookup_form(tree)
    for fn in ast.walk(tree):
        if isinstance(fn, (ast.FunctionDef, ast.AsyncFunctionDef)):
            _with_form(fn.body)
            _for_form(fn.body)
            _shape_enumerate_form(fn)
            _map_loop_form(fn)
            _while_form(fn.body)
            _continue_form(fn.body)
            _forelse_form(fn.body)
            _inline_test_temps(fn)
            fn.body = [_PlainLocals().visit(b) for b in fn.body]
    _property_form(tree)
    _flatten_private_bases(tree)
    ast.fix_missing_locations(tree)
    return tree
