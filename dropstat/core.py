"""Findings, per-property context, verdict aggregation, evidence and replay files."""

from __future__ import annotations

import ast
import json
import os
import time
from dataclasses import dataclass, field, asdict

from .model import AnalysisError, FuncInfo, Model

VERIF = os.path.dirname(os.path.dirname(os.path.abspath(__file__)))

HOLDS, VIOLATED, UNDECIDED, INFO = "holds", "violated", "undecided", "info"


@dataclass
class Finding:
    rule: str
    site: str  # position-independent key: qualified function [: construct]
    verdict: str
    detail: str
    file: str = ""
    line: int = 0
    excerpt: str = ""

    def key(self):
        return (self.rule, self.site)


def excerpt_of(node) -> str:
    if node is None:
        return ""
    try:
        if isinstance(node, FuncInfo):
            node = node.node
            return f"def {node.name}(...)" if hasattr(node, "name") else "lambda"
        txt = ast.unparse(node)
    except Exception:  # pragma: no cover
        return ""
    txt = txt.strip().split("\n")
    return txt[0][:160] + (" ..." if len(txt) > 1 else "")


class Ctx:
    """Collects findings for one property on one model."""

    def __init__(self, model: Model, prop: str, tier: str = "quick"):
        self.model = model
        self.prop = prop
        self.tier = tier
        self.findings: list[Finding] = []
        self.minimum: dict[str, int] = {}
        self.explanations: list[str] = []
        self.functions: set[str] = set()
        self.trusted: set[str] = set()
        self.assumptions: list[str] = []
        self.exhaustive = False
        self.extra: dict = {}

    # ------------------------------------------------------------- recording
    def _add(self, verdict, rule, site, where, detail):
        file, line, exc = "", 0, ""
        if isinstance(where, tuple):
            fi, node = where
        elif isinstance(where, FuncInfo):
            fi, node = where, where.node
        else:
            fi, node = None, where
        if fi is not None:
            file = fi.file
            self.functions.add(fi.qualname)
        if node is not None:
            line = getattr(node, "lineno", 0) or (fi.line if fi else 0)
            exc = excerpt_of(node)
        f = Finding(rule, site, verdict, detail, file, line, exc)
        self.findings.append(f)
        return f

    def hold(self, rule, site, where, detail=""):
        return self._add(HOLDS, rule, site, where, detail)

    def violate(self, rule, site, where, detail=""):
        return self._add(VIOLATED, rule, site, where, detail)

    def undecided(self, rule, site, where, detail=""):
        return self._add(UNDECIDED, rule, site, where, detail)

    def info(self, rule, site, where, detail=""):
        return self._add(INFO, rule, site, where, detail)

    def decide(self, ok, rule, site, where, good="", bad=""):
        if ok:
            return self.hold(rule, site, where, good)
        return self.violate(rule, site, where, bad or good)

    def expect(self, rule: str, n: int):
        """At least ``n`` decided instances of ``rule`` are required (frozen from the
        tree the rule was confirmed on); fewer means the analysis went blind."""
        self.minimum[rule] = max(self.minimum.get(rule, 0), n)

    def explain(self, text: str):
        self.explanations.append(text)

    def trust(self, *items):
        self.trusted.update(items)

    def assume(self, text):
        if text not in self.assumptions:
            self.assumptions.append(text)

    def analysed(self, *funcs):
        for f in funcs:
            self.functions.add(f.qualname if isinstance(f, FuncInfo) else str(f))

    # ------------------------------------------------------------- verdict
    def decided(self, rule=None):
        return [f for f in self.findings if f.verdict in (HOLDS, VIOLATED) and (rule is None or f.rule == rule)]

    def violations(self):
        return [f for f in self.findings if f.verdict == VIOLATED]

    def check_minimums(self):
        for rule, n in sorted(self.minimum.items()):
            got = len({f.key() for f in self.decided(rule)})
            if got < n:
                und = [f for f in self.findings if f.rule == rule and f.verdict == UNDECIDED]
                extra = "; undecided: " + "; ".join(f"{u.site}: {u.detail}" for u in und[:3]) if und else ""
                raise AnalysisError(
                    f"rule {rule} decided {got} instance(s), fewer than the {n} confirmed on the reference tree{extra}",
                    rule=rule,
                )
        # an obligation that the reference tree decides may not silently become "undecided": the frozen list names the
        # (rule, site) pairs that are undecided on the reference tree itself (documented limits); anything else is blindness
        base = undecided_baseline().get(self.prop)
        if base is not None:
            allowed = {tuple(x) for x in base}
            new = sorted({(f.rule, f.site) for f in self.findings if f.verdict == UNDECIDED} - allowed)
            if new:
                first = [f for f in self.findings if f.verdict == UNDECIDED and (f.rule, f.site) == new[0]][0]
                raise AnalysisError(
                    f"{len(new)} obligation(s) decided on the reference tree could not be decided, first: {first.rule} @ {first.site}: {first.detail[:160]}",
                    rule=first.rule,
                )


_UB = None


def undecided_baseline() -> dict:
    global _UB
    if _UB is None:
        path = os.path.join(os.path.dirname(os.path.abspath(__file__)), "undecided_baseline.json")
        try:
            with open(path, encoding="utf-8") as fh:
                _UB = json.load(fh)
        except OSError:
            _UB = {}
    return _UB


def load_known_findings():
    path = os.path.join(VERIF, "known_findings.json")
    if not os.path.exists(path):
        return []
    with open(path, encoding="utf-8") as fh:
        data = json.load(fh)
    return data.get("findings", [])


def known_match(prop, f: Finding, known):
    for k in known:
        if k.get("status") != "known":
            continue
        if k.get("property") == prop and k.get("rule") == f.rule and k.get("site") == f.site:
            return k
    return None


def write_evidence(prop, tier, seed, ctx: Ctx | None, wall, n_viol, known_hits, error=None, selftest=None):
    if os.environ.get("DROPSTAT_NO_EVIDENCE"):
        return None
    os.makedirs(os.path.join(VERIF, "evidence"), exist_ok=True)
    path = os.path.join(VERIF, "evidence", f"{prop}.json")
    cov: dict = {}
    if ctx is not None:
        decided = ctx.decided()
        distinct = {f.key() for f in decided}
        by_rule: dict = {}
        for f in ctx.findings:
            r = by_rule.setdefault(f.rule, {HOLDS: 0, VIOLATED: 0, UNDECIDED: 0, INFO: 0})
            r[f.verdict] += 1
        samples = []
        seen_rules = set()
        # one sample per rule first, then fill up
        for f in ctx.findings:
            if f.rule not in seen_rules and f.verdict != INFO:
                seen_rules.add(f.rule)
                samples.append(asdict(f))
        for f in ctx.findings:
            if len(samples) >= 60:
                break
            d = asdict(f)
            if d not in samples:
                samples.append(d)
        cov = {
            "explanation": " ".join(ctx.explanations) or "static rule evaluation over the parsed source of /repo/droplets",
            "evaluations": len(ctx.findings),
            "distinct_nontrivial": len(distinct),
            "rule": "one evaluation per (rule, site) obligation discovered in the current source; an instance is non-trivial when its construct was recognised and the rule decided holds/violated (undecided and informational instances are not counted); distinct by (rule, site) key",
            "samples": samples,
            "by_rule": by_rule,
            "functions_analysed": sorted(ctx.functions),
            "undecided": [asdict(f) for f in ctx.findings if f.verdict == UNDECIDED],
            "known_findings": known_hits,
            "trusted_base": sorted(ctx.trusted),
            "modules_digest": ctx.model.digest(),
            "exhaustive": bool(ctx.exhaustive),
        }
        cov.update(ctx.extra)
    else:
        cov = {"explanation": "analysis did not complete", "evaluations": 0, "distinct_nontrivial": 0, "samples": []}
    if error:
        cov["analysis_error"] = error
    if selftest is not None:
        cov["liveness"] = selftest
    ev = {
        "property_id": prop,
        "tier": tier,
        "seed": seed,
        "level": "other",
        "coverage": cov,
        "assumptions": (ctx.assumptions if ctx else []),
        "wall_s": round(wall, 3),
        "violations": n_viol,
    }
    tmp = path + ".tmp"
    with open(tmp, "w", encoding="utf-8") as fh:
        json.dump(ev, fh, indent=1, ensure_ascii=False)
    os.replace(tmp, path)
    return path


def write_replay(prop, idx, f: Finding, root):
    d = os.path.join(VERIF, "out", prop if not os.environ.get("DROPSTAT_NO_EVIDENCE") else "scratch-" + prop)
    os.makedirs(d, exist_ok=True)
    path = os.path.join(d, f"violation_{idx}.json")
    with open(path, "w", encoding="utf-8") as fh:
        json.dump({"property": prop, "root": root, "finding": asdict(f)}, fh, indent=1, ensure_ascii=False)
    return path
