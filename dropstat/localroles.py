"""Canonical names for local variables (analysis-only pre-pass).

Many recognisers resolve values through the repository's own local vocabulary (``grid``, ``labels``,
``positions`` …).  A consistent renaming of a local variable preserves behaviour, so it must not change a
verdict.  This pass undoes such renamings before anything else looks at the tree: every local variable of
every function is described by *how it is defined* (the kinds and right-hand sides of all its definitions,
with other locals replaced by their own descriptions, so the description does not contain any local name).
`local_roles.json` (generated from the reference tree by ``tools/gen_local_roles.py``) maps, per function,
the description of each local to the name it has on the reference tree.  When the analysed function has a
local whose name the reference function does not know, while a reference local is absent, and the
descriptions agree, the local is renamed to the reference name (consistently, including nested functions that
read it).  Renaming is injective and conflict-free, hence semantics-preserving whatever the table says; the
table only decides *which* name is chosen.  If nothing matches, nothing is renamed and the rules see the tree
as it is.
"""
from __future__ import annotations

import ast
import copy
import hashlib
import json
import os

_TABLE = None
TABLE_PATH = os.path.join(os.path.dirname(os.path.abspath(__file__)), "local_roles.json")


def _h(text: str) -> str:
    return hashlib.sha1(text.encode()).hexdigest()[:12]


class Scope:
    def __init__(self, node, parent, qual):
        self.node = node
        self.parent = parent
        self.qual = qual
        self.params: list[str] = []
        self.defs: dict[str, list] = {}  # name -> [(kind, path, value node | None)]
        self.order: dict[str, int] = {}
        self.excluded: set[str] = set()
        self.children: list[Scope] = []
        self._struct: dict[str, str] = {}

    @property
    def locals(self):
        return [n for n in self.defs if n not in self.excluded and n not in self.params]

    def lookup(self, name):
        s = self
        while s is not None:
            if name in s.params:
                return None
            if name in s.defs and name not in s.excluded:
                return s
            s = s.parent
        return None


def _targets(t, path=()):
    if isinstance(t, ast.Name):
        yield t.id, path
    elif isinstance(t, (ast.Tuple, ast.List)):
        for i, e in enumerate(t.elts):
            yield from _targets(e, path + (i,))
    elif isinstance(t, ast.Starred):
        yield from _targets(t.value, path + ("*",))


def _collect(scope: Scope, stmts):
    counter = [0]

    def add(name, kind, path, value):
        scope.defs.setdefault(name, []).append((kind, path, value))
        if name not in scope.order:
            scope.order[name] = counter[0]
            counter[0] += 1

    def walk_expr(e):
        # walrus targets outside comprehensions bind in this scope
        for n in ast.walk(e):
            if isinstance(n, ast.NamedExpr) and isinstance(n.target, ast.Name):
                add(n.target.id, "walrus", (), n.value)
            elif isinstance(n, (ast.ListComp, ast.SetComp, ast.DictComp, ast.GeneratorExp)):
                # comprehension variables are private to the comprehension; a consistent renaming is as harmless as for any local
                for g in n.generators:
                    for nm, path in _targets(g.target):
                        add(nm, "comp", path, g.iter)

    def visit(s):
        if isinstance(s, (ast.FunctionDef, ast.AsyncFunctionDef, ast.ClassDef)):
            scope.excluded.add(s.name)
            scope.defs.setdefault(s.name, [])
            return
        if isinstance(s, (ast.Global, ast.Nonlocal)):
            scope.excluded.update(s.names)
            return
        if isinstance(s, (ast.Import, ast.ImportFrom)):
            for a in s.names:
                nm = (a.asname or a.name).split(".")[0]
                scope.excluded.add(nm)
                scope.defs.setdefault(nm, [])
            return
        if isinstance(s, ast.Assign):
            for t in s.targets:
                for nm, path in _targets(t):
                    add(nm, "assign", path, s.value)
        elif isinstance(s, ast.AnnAssign):
            for nm, path in _targets(s.target):
                add(nm, "assign", path, s.value)
        elif isinstance(s, ast.AugAssign):
            for nm, path in _targets(s.target):
                add(nm, "aug:" + type(s.op).__name__, path, s.value)
        elif isinstance(s, (ast.For, ast.AsyncFor)):
            for nm, path in _targets(s.target):
                add(nm, "for", path, s.iter)
        elif isinstance(s, (ast.With, ast.AsyncWith)):
            for it in s.items:
                if it.optional_vars is not None:
                    for nm, path in _targets(it.optional_vars):
                        add(nm, "with", path, it.context_expr)
        elif isinstance(s, ast.Try):
            for h in s.handlers:
                if h.name:
                    add(h.name, "except", (), h.type)
        for f in ast.iter_fields(s):
            v = f[1]
            if isinstance(v, ast.expr):
                walk_expr(v)
            elif isinstance(v, list):
                for x in v:
                    if isinstance(x, ast.stmt):
                        visit(x)
                    elif isinstance(x, ast.expr):
                        walk_expr(x)
                    elif isinstance(x, ast.ExceptHandler):
                        for y in x.body:
                            visit(y)
                    elif isinstance(x, ast.withitem):
                        walk_expr(x.context_expr)
                    elif isinstance(x, ast.match_case):
                        for y in x.body:
                            visit(y)

    for s in stmts:
        visit(s)


def build_scopes(tree: ast.Module) -> list[Scope]:
    """all function scopes of a module, outer before inner, with qualified names `A.f.g#k`"""
    out: list[Scope] = []
    seen: dict[str, int] = {}

    def rec(body, parent, prefix):
        stack = list(body)
        for s in _iter_defs(body):
            if isinstance(s, ast.ClassDef):
                rec(s.body, parent, prefix + s.name + ".")
            else:
                q = prefix + s.name
                k = seen.get(q, 0)
                seen[q] = k + 1
                sc = Scope(s, parent, f"{q}#{k}")
                a = s.args
                sc.params = [x.arg for x in a.posonlyargs + a.args + a.kwonlyargs] + [x.arg for x in (a.vararg, a.kwarg) if x is not None]
                _collect(sc, s.body)
                if parent is not None:
                    parent.children.append(sc)
                out.append(sc)
                rec(s.body, sc, q + ".")

    rec(tree.body, None, "")
    return out


def _iter_defs(body):
    """function and class definitions directly in this scope (through compound statements)"""
    stack = list(body)
    while stack:
        s = stack.pop(0)
        if isinstance(s, (ast.FunctionDef, ast.AsyncFunctionDef, ast.ClassDef)):
            yield s
            continue
        for name in ("body", "orelse", "finalbody"):
            stack.extend(getattr(s, name, []) or [])
        for h in getattr(s, "handlers", []) or []:
            stack.extend(h.body)


class _Abstract(ast.NodeTransformer):
    """replace local names by descriptions; alpha-normalise comprehension and lambda variables"""

    def __init__(self, scope: Scope, mode: str, stack: tuple, unknown: set, self_name: str):
        self.scope, self.mode, self.stack, self.unknown, self.self_name = scope, mode, stack, unknown, self_name
        self.bound: list[dict] = []
        self.fail = False
        self.n = 0

    def _bind(self, target):
        m = {}
        for nm, _ in _targets(target):
            m[nm] = f"_c{self.n}"
            self.n += 1
        return m

    def _comp(self, node):
        node = copy.copy(node)
        gens = []
        pushed = 0
        for g in node.generators:
            g = copy.copy(g)
            g.iter = self.visit(g.iter)
            self.bound.append(self._bind(g.target))
            pushed += 1
            g.target = self.visit(g.target)
            g.ifs = [self.visit(i) for i in g.ifs]
            gens.append(g)
        node.generators = gens
        for f in ("elt", "key", "value"):
            if hasattr(node, f):
                setattr(node, f, self.visit(getattr(node, f)))
        for _ in range(pushed):
            self.bound.pop()
        return node

    visit_ListComp = visit_SetComp = visit_GeneratorExp = visit_DictComp = _comp

    def visit_Lambda(self, node):
        node = copy.copy(node)
        m = {}
        a = node.args
        for x in a.posonlyargs + a.args + a.kwonlyargs + [y for y in (a.vararg, a.kwarg) if y is not None]:
            m[x.arg] = f"_c{self.n}"
            self.n += 1
        self.bound.append(m)
        node.body = self.visit(node.body)
        self.bound.pop()
        node.args = ast.arguments(posonlyargs=[], args=[ast.arg(arg=v) for v in m.values()], kwonlyargs=[], kw_defaults=[], defaults=[])
        return node

    def visit_Name(self, node):
        for m in reversed(self.bound):
            if node.id in m:
                return ast.Name(id=m[node.id], ctx=ast.Load())
        owner = self.scope.lookup(node.id)
        if owner is None:
            return ast.Name(id=node.id, ctx=ast.Load())
        if node.id == self.self_name and owner is self.scope:
            return ast.Name(id="<self>", ctx=ast.Load())
        if self.mode == "struct":
            return ast.Name(id="L:" + struct_key(owner, node.id, self.stack), ctx=ast.Load())
        if owner is self.scope and node.id in self.unknown:
            self.fail = True
        return ast.Name(id=node.id, ctx=ast.Load())


def _def_key(scope: Scope, name: str, mode: str, stack=(), unknown=frozenset()):
    parts = []
    for kind, path, value in scope.defs[name]:
        if value is None:
            parts.append(f"{kind}{path}:None")
            continue
        ab = _Abstract(scope, mode, stack, set(unknown), name)
        v = ab.visit(copy.deepcopy(value))
        if ab.fail:
            return None
        parts.append(f"{kind}{path}:{ast.dump(v)}")
    return _h("|".join(sorted(parts)))


def struct_key(scope: Scope, name: str, stack=()) -> str:
    key = (id(scope), name)
    if key in stack:
        return "<rec>"
    if name in scope._struct:
        return scope._struct[name]
    k = _def_key(scope, name, "struct", stack + (key,))
    if not stack:
        scope._struct[name] = k
    return k


def describe_module(tree: ast.Module) -> dict:
    out = {}
    for sc in build_scopes(tree):
        ent = {}
        for nm in sc.locals:
            ent[nm] = {"struct": struct_key(sc, nm), "shallow": _def_key(sc, nm, "shallow"), "order": sc.order.get(nm, 0)}
        if sc.parent is not None and sc.params:
            ent["__params__"] = list(sc.params)
        if ent:
            out[sc.qual] = ent
    return out


class _Rename(ast.NodeTransformer):
    def __init__(self, mapping):
        self.mapping = mapping
        self.blocked: list[set] = []

    def _nested(self, node):
        bound = set()
        a = node.args
        for x in a.posonlyargs + a.args + a.kwonlyargs + [y for y in (a.vararg, a.kwarg) if y is not None]:
            bound.add(x.arg)
        body = node.body if isinstance(node.body, list) else [node.body]
        if isinstance(node.body, list):
            sc = Scope(node, None, "")
            _collect(sc, node.body)
            bound |= {n for n in sc.defs if sc.defs[n] and n not in sc.excluded}
            nonlocal_ = set()
            for st in body:
                for n in ast.walk(st):
                    if isinstance(n, ast.Nonlocal):
                        nonlocal_.update(n.names)
            bound -= nonlocal_
        self.blocked.append(bound)
        self.generic_visit(node)
        self.blocked.pop()
        return node

    visit_FunctionDef = visit_AsyncFunctionDef = visit_Lambda = _nested

    def visit_Name(self, node):
        if node.id in self.mapping and not any(node.id in b for b in self.blocked):
            node.id = self.mapping[node.id]
        return node

    def visit_Nonlocal(self, node):
        node.names = [self.mapping.get(n, n) for n in node.names]
        return node


class _Visible(_Rename):
    """names that occur in the function's own scope or in nested scopes that do not bind them themselves"""

    def __init__(self):
        super().__init__({})
        self.names: set = set()

    def visit_Name(self, node):
        if not any(node.id in b for b in self.blocked):
            self.names.add(node.id)
        return node


def _all_names(fn) -> set:
    v = _Visible()
    a = fn.args
    v.names.update(x.arg for x in a.posonlyargs + a.args + a.kwonlyargs + [y for y in (a.vararg, a.kwarg) if y is not None])
    for s in fn.body:
        v.visit(s)
    return v.names


def _canon_params(sc: Scope, ref_params) -> bool:
    """parameters of a nested function are private to the enclosing function: undo a renaming (by position)"""
    if not ref_params or sc.parent is None or len(ref_params) != len(sc.params) or list(ref_params) == list(sc.params):
        return False
    fn = sc.node
    a = fn.args
    if a.vararg is not None or a.kwarg is not None:
        return False
    args = a.posonlyargs + a.args + a.kwonlyargs
    visible = _all_names(fn)
    mapping = {}
    for cur, refn in zip(sc.params, ref_params):
        if cur != refn:
            if refn in visible or cur in ref_params:
                return False
            mapping[cur] = refn
    for x in args:
        if x.arg in mapping:
            x.arg = mapping[x.arg]
    r = _Rename(mapping)
    fn.body = [r.visit(s) for s in fn.body]
    # keyword arguments at the call sites inside the enclosing function (direct calls and functools.partial)
    for n in ast.walk(sc.parent.node):
        if isinstance(n, ast.Call):
            callee = n.func
            if isinstance(callee, ast.Name) and callee.id == fn.name or (n.args and isinstance(n.args[0], ast.Name) and n.args[0].id == fn.name):
                for kw in n.keywords:
                    if kw.arg in mapping:
                        kw.arg = mapping[kw.arg]
    return True


def load_table():
    global _TABLE
    if _TABLE is None:
        try:
            with open(TABLE_PATH, encoding="utf-8") as fh:
                _TABLE = json.load(fh)
        except OSError:
            _TABLE = {}
    return _TABLE


def canon_locals(tree: ast.Module, path: str, table=None) -> ast.Module:
    table = load_table() if table is None else table
    ref_mod = table.get(path)
    if not ref_mod:
        return tree
    # fast path: every function's locals are known
    for _ in range(4):  # re-build after a renaming so that nested scopes see canonical outer names
        changed = False
        for sc in build_scopes(tree):
            ref = ref_mod.get(sc.qual)
            if not ref:
                continue
            if _canon_params(sc, ref.get("__params__")):
                changed = True
                break
            ref = {k: v for k, v in ref.items() if k != "__params__"}
            cur = sc.locals
            unknown = [n for n in cur if n not in ref]
            missing = [m for m in ref if m not in cur]
            if not unknown or not missing:
                continue
            mapping = {}
            # round A: structural descriptions (independent of every local name)
            by_key = {}
            for u in unknown:
                by_key.setdefault(struct_key(sc, u), []).append(u)
            for k, us in by_key.items():
                ms = [m for m in missing if ref[m]["struct"] == k and m not in mapping.values()]
                if ms and len(ms) == len(us):
                    us = sorted(us, key=lambda n: sc.order.get(n, 0))
                    ms = sorted(ms, key=lambda m: ref[m]["order"])
                    mapping.update(dict(zip(us, ms)))
            # round B: shallow descriptions over names that are already canonical
            rest = [u for u in unknown if u not in mapping]
            if rest:
                # evaluate shallow keys on a renamed copy so that matched names appear canonical
                fn2 = copy.deepcopy(sc.node)
                if mapping:
                    r = _Rename(dict(mapping))
                    fn2.body = [r.visit(s) for s in fn2.body]
                sc2 = Scope(fn2, sc.parent, sc.qual)
                sc2.params = sc.params
                _collect(sc2, fn2.body)
                progress = True
                still = set(rest)
                while progress and still:
                    progress = False
                    for u in sorted(still, key=lambda n: sc.order.get(n, 0)):
                        sh = _def_key(sc2, u, "shallow", unknown=still - {u})
                        if sh is None:
                            continue
                        ms = [m for m in missing if m not in mapping.values() and ref[m]["shallow"] == sh]
                        if len(ms) == 1:
                            mapping[u] = ms[0]
                            still.discard(u)
                            r = _Rename({u: ms[0]})
                            fn2.body = [r.visit(s) for s in fn2.body]
                            sc2 = Scope(fn2, sc.parent, sc.qual)
                            sc2.params = sc.params
                            _collect(sc2, fn2.body)
                            progress = True
                            break
            if not mapping:
                continue
            used = _all_names(sc.node)
            mapping = {u: m for u, m in mapping.items() if m not in used}
            if not mapping:
                continue
            r = _Rename(mapping)
            sc.node.body = [r.visit(s) for s in sc.node.body]
            changed = True
            break  # scopes are stale now
        if not changed:
            break
    else:
        pass
    return tree


# ------------------------------------------------------------------------------------------------------------------------
_PURE_VIEWS = {"np.flatnonzero", "numpy.flatnonzero", "len", "tuple"}


def _dotted_name(n):
    parts = []
    while isinstance(n, ast.Attribute):
        parts.append(n.attr)
        n = n.value
    if isinstance(n, ast.Name):
        parts.append(n.id)
        return ".".join(reversed(parts))
    return None


def inline_new_attr_aliases(tree: ast.Module, path: str, table=None) -> ast.Module:
    """`x = P.a.b` at the top level of a function (P a parameter or `self`, x a local the reference tree does not know, bound once;
    neither P nor any attribute path starting with `P.a` is rebound in the function) is an attribute cached in a local ("look it
    up only once").  The name stands for the same object as the attribute path, so the path is substituted at the uses and the
    binding dropped — the rules then see the code they know.  Locals of the reference tree are never touched."""
    table = load_table() if table is None else table
    ref_mod = table.get(path) or {}
    for sc in build_scopes(tree):
        fn = sc.node
        ref_names = set(ref_mod.get(sc.qual, {})) - {"__params__"}
        stores: dict[str, int] = {}
        attr_stores = set()  # (root, first attribute) of every store/delete through an attribute path
        for n in ast.walk(fn):
            if isinstance(n, ast.Name) and isinstance(n.ctx, (ast.Store, ast.Del)):
                stores[n.id] = stores.get(n.id, 0) + 1
            elif isinstance(n, (ast.Attribute, ast.Subscript)) and isinstance(n.ctx, (ast.Store, ast.Del)):
                chain = []
                r = n
                while isinstance(r, (ast.Attribute, ast.Subscript)):
                    if isinstance(r, ast.Attribute):
                        chain.append(r.attr)
                    else:
                        chain = []  # a store *into* the object `P.a[...]`: the object P.a stays the same
                    r = r.value
                if isinstance(r, ast.Name) and chain and isinstance(n, ast.Attribute):
                    attr_stores.add((r.id, chain[-1]))
            elif isinstance(n, (ast.Global, ast.Nonlocal)):
                for nm in n.names:
                    stores[nm] = stores.get(nm, 0) + 2
        cands = {}
        for st in fn.body:
            if not (isinstance(st, ast.Assign) and len(st.targets) == 1 and isinstance(st.targets[0], ast.Name)):
                continue
            x = st.targets[0].id
            if x in ref_names or x in sc.params or stores.get(x) != 1:
                continue
            v = st.value
            # a pure, argument-free view of the attribute: np.flatnonzero(P.a), len(P.a), tuple(P.a)
            if isinstance(v, ast.Call) and not v.keywords and len(v.args) == 1 and _dotted_name(v.func) in _PURE_VIEWS:
                v = v.args[0]
            chain = []
            r = v
            while isinstance(r, ast.Attribute):
                chain.append(r.attr)
                r = r.value
            if not chain or not isinstance(r, ast.Name):
                continue
            # the root is a parameter, or a local that is itself bound once, at the top level, to an attribute path of a parameter
            if r.id in sc.params:
                if stores.get(r.id, 0):
                    continue
            else:
                rb = [t for t in fn.body if isinstance(t, ast.Assign) and len(t.targets) == 1 and isinstance(t.targets[0], ast.Name) and t.targets[0].id == r.id]
                if stores.get(r.id) != 1 or len(rb) != 1 or fn.body.index(rb[0]) >= fn.body.index(st):
                    continue
                rv = rb[0].value
                while isinstance(rv, ast.Attribute):
                    rv = rv.value
                if not (isinstance(rb[0].value, ast.Attribute) and isinstance(rv, ast.Name) and rv.id in sc.params and not stores.get(rv.id, 0)):
                    continue
            if (r.id, chain[-1]) in attr_stores:
                continue
            cands[x] = st
        if not cands:
            continue
        # every read comes after the binding (top-level statement order; nested functions are called later)
        order = {id(s): k for k, s in enumerate(fn.body)}
        for x, st in list(cands.items()):
            k0 = order[id(st)]
            for k, s in enumerate(fn.body[: k0 + 1]):
                tgt = s.value if s is st else s
                if any(isinstance(n, ast.Name) and n.id == x and isinstance(n.ctx, ast.Load) for n in ast.walk(tgt)):
                    cands.pop(x, None)
                    break

        class _R(ast.NodeTransformer):
            def visit_Name(self, n):
                if isinstance(n.ctx, ast.Load) and n.id in cands:
                    return copy.deepcopy(cands[n.id].value)
                return n

        if cands:
            drop = {id(s) for s in cands.values()}
            fn.body = [_R().visit(s) for s in fn.body if id(s) not in drop] or [ast.Pass()]
    ast.fix_missing_locations(tree)
    return tree
