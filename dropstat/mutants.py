"""In-memory breaking edits per rule instance (see DESIGN.md §8). Filled per property."""

from __future__ import annotations

REGISTRY: dict = {}


def run_audit(prop, model, ctx):
    ops = REGISTRY.get(prop, [])
    res = {"operators": len(ops), "flipped": 0, "dead": [], "skipped": []}
    from .__main__ import run_property
    from .model import AnalysisError

    for op in ops:
        try:
            new_model = op.apply(model)
        except Exception as exc:
            res["skipped"].append(f"{op.name}: {exc}")
            continue
        if new_model is None:
            res["skipped"].append(f"{op.name}: site not found")
            continue
        try:
            c2 = run_property(prop, new_model, "quick")
            hit = [f for f in c2.violations() if op.expect_rule is None or f.rule == op.expect_rule]
        except AnalysisError as exc:
            hit = []
            res["dead"].append(f"{op.name}: analysis error instead of violation: {exc}")
            continue
        if hit:
            res["flipped"] += 1
        else:
            res["dead"].append(op.name)
    return res
