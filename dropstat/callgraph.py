"""Whole-package call graph over resolved callees."""

from __future__ import annotations

import ast

from .cfg import walk_no_nested
from .model import FuncInfo, Model, dotted


class CallGraph:
    def __init__(self, model: Model):
        self.model = model
        self.edges: dict[str, set] = {}
        self.external: dict[str, set] = {}  # function -> external dotted callees
        self.unresolved: dict[str, list] = {}
        self.sites: dict[tuple, list] = {}
        self.method_index: dict[str, list] = {}
        for fi in model.all_functions():
            if fi.cls is not None and fi.parent is None:
                self.method_index.setdefault(fi.name, []).append(fi)
        for fi in model.all_functions():
            self._scan(fi)

    def _scan(self, fi: FuncInfo):
        m = self.model
        q = fi.qualname
        out = self.edges.setdefault(q, set())
        ext = self.external.setdefault(q, set())
        unres = self.unresolved.setdefault(q, [])
        # nested functions are reachable from their parent (they are created there)
        for lst in m.functions.values():
            for g in lst:
                if g.parent is fi:
                    out.add(g.qualname)
        local_funcs = {g.name: g for lst in m.functions.values() for g in lst if g.parent is fi}
        body = fi.node.body if not isinstance(fi.node, ast.Lambda) else [fi.node.body]
        for stmt in body:
            for n in walk_no_nested(stmt) if not isinstance(stmt, ast.expr) else ast.walk(stmt):
                if isinstance(n, ast.Lambda):
                    for c in ast.walk(n):
                        if isinstance(c, ast.Call):
                            self._call(fi, c, out, ext, unres, local_funcs)
                if isinstance(n, ast.Call):
                    self._call(fi, n, out, ext, unres, local_funcs)
                # functools.partial(T, ...) / executor.map(T, ...): T is called
                if isinstance(n, ast.Call):
                    for a in n.args:
                        d = dotted(a)
                        if d:
                            r = m.resolve(fi.module, d)
                            if r in m.functions:
                                out.add(r)
                            elif d in local_funcs:
                                out.add(local_funcs[d].qualname)

    def _call(self, fi, c, out, ext, unres, local_funcs):
        m = self.model
        f = c.func
        d = dotted(f)
        if isinstance(f, ast.Name):
            if f.id in local_funcs:
                out.add(local_funcs[f.id].qualname)
                return
            # closure variable defined in an enclosing function
            p = fi.parent
            while p is not None:
                for lst in m.functions.values():
                    for g in lst:
                        if g.parent is p and g.name == f.id:
                            out.add(g.qualname)
                            return
                p = p.parent
            r = m.resolve(fi.module, f.id)
            if r in m.functions:
                out.add(r)
            elif r in m.classes:
                ci = m.classes[r]
                init = m.method(ci, "__init__")
                if init is not None:
                    out.add(init.qualname)
            elif r and "." in r:
                ext.add(r)
            else:
                ext.add(f.id)
            return
        if isinstance(f, ast.Attribute):
            base = f.value
            # self.m / cls.m / super().m
            ci = fi.cls
            if ci is not None and isinstance(base, ast.Name) and base.id in ("self", "cls"):
                targets = set()
                for c2 in [ci] + m.subclasses(ci):
                    t = m.method(c2, f.attr)
                    if t is not None:
                        targets.add(t.qualname)
                    t = m.method(c2, f.attr, kind="setter")
                if targets:
                    out.update(targets)
                    return
            if ci is not None and isinstance(base, ast.Call) and isinstance(base.func, ast.Name) and base.func.id == "super":
                t = m.method(ci, f.attr, start_after=ci)
                if t is not None:
                    out.add(t.qualname)
                    return
            if d:
                r = m.resolve(fi.module, d)
                if r in m.functions:
                    out.add(r)
                    return
                # Class.method
                head = ".".join(r.split(".")[:-1]) if r else ""
                if head in m.classes:
                    t = m.method(m.classes[head], f.attr)
                    if t is not None:
                        out.add(t.qualname)
                        return
                root = d.split(".")[0]
                if root in fi.module.imports and not (m.resolve(fi.module, root) or "").startswith(Model.PACKAGE):
                    ext.add(r)
                    return
            # unique / all method names within the repo
            cands = self.method_index.get(f.attr, [])
            if cands:
                out.update(g.qualname for g in cands)
                return
            unres.append(f.attr)

    def reachable(self, roots) -> set:
        seen, work = set(), list(roots)
        while work:
            q = work.pop()
            if q in seen:
                continue
            seen.add(q)
            work.extend(self.edges.get(q, ()))
        return seen
