"""Semantics-preserving normalisation of parsed modules, applied once when the model is
built, so that rules see one canonical shape for idioms that ordinary refactoring moves
between:

  N2  ``a = b = v``  →  ``a = v; b = v``;  ``a, b = x, y`` → ``a = x; b = y`` (when the
      right-hand sides do not read the targets)
  N3  ``x = x op e`` → ``x op= e``  (Name / textually identical Subscript, Attribute)
  N4  comparison orientation: literal on the right (``0 < n`` → ``n > 0``),
      ``not (a == b)`` → ``a != b`` (and the other exact negations of ==, !=, is, in)
  N5  counting loops written by hand (`i = len(X) - 1; while i >= 0: …; i -= 1`, `i = len(X); while i > 0:
      i -= 1; …`, `k = c; for t in IT: …; k += 1`) → `for i in reversed(range(len(X)))` / `for k, t in enumerate(IT, c)`
      (only when the counter is not assigned elsewhere in the body, no `continue` can skip the step, and the
      counter is not read after the loop)
  INLINE  calls to small private helper functions/methods of the repository that are not
      themselves anchors of a rule are inlined (parameters bound, locals renamed, tail
      returns turned into assignments), so that "extract helper" refactorings do not hide
      the code a rule inspects.

Nodes keep their original line numbers.  Nothing here changes what the program computes;
the transformations are only used for analysis.
"""

from __future__ import annotations

import ast
import copy

FLIP = {ast.Lt: ast.Gt, ast.Gt: ast.Lt, ast.LtE: ast.GtE, ast.GtE: ast.LtE, ast.Eq: ast.Eq, ast.NotEq: ast.NotEq}
NEG_EXACT = {ast.Eq: ast.NotEq, ast.NotEq: ast.Eq, ast.Is: ast.IsNot, ast.IsNot: ast.Is, ast.In: ast.NotIn, ast.NotIn: ast.In}


def _names(node):
    return {n.id for n in ast.walk(node) if isinstance(n, ast.Name)}


def _is_literal(n):
    if isinstance(n, ast.Constant):
        return True
    if isinstance(n, ast.UnaryOp) and isinstance(n.op, ast.USub) and isinstance(n.operand, ast.Constant):
        return True
    return False


class ExprNorm(ast.NodeTransformer):
    def visit_Compare(self, n):
        self.generic_visit(n)
        if len(n.ops) == 1 and type(n.ops[0]) in FLIP and _is_literal(n.left) and not _is_literal(n.comparators[0]):
            return ast.copy_location(ast.Compare(left=n.comparators[0], ops=[FLIP[type(n.ops[0])]()], comparators=[n.left]), n)
        return n

    def visit_UnaryOp(self, n):
        self.generic_visit(n)
        if isinstance(n.op, ast.Not) and isinstance(n.operand, ast.Compare) and len(n.operand.ops) == 1 and type(n.operand.ops[0]) in NEG_EXACT:
            c = n.operand
            return ast.copy_location(ast.Compare(left=c.left, ops=[NEG_EXACT[type(c.ops[0])]()], comparators=c.comparators), n)
        return n

    def visit_Lambda(self, n):
        self.generic_visit(n)
        return n


def _same_target(t, e) -> bool:
    try:
        return ast.unparse(t) == ast.unparse(e)
    except Exception:  # pragma: no cover
        return False


def split_assign(s):
    """list of statements replacing ``s``"""
    if not isinstance(s, ast.Assign):
        return [s]
    out = []
    # chained
    if len(s.targets) > 1:
        for t in s.targets:
            out.append(ast.copy_location(ast.Assign(targets=[t], value=s.value, lineno=s.lineno), s))
        res = []
        for x in out:
            res.extend(split_assign(x))
        return res
    t, v = s.targets[0], s.value
    if isinstance(t, (ast.Tuple, ast.List)) and isinstance(v, (ast.Tuple, ast.List)) and len(t.elts) == len(v.elts) \
            and not any(isinstance(e, ast.Starred) for e in list(t.elts) + list(v.elts)):
        tnames = set()
        for e in t.elts:
            tnames |= _names(e)
        if not (tnames & _names(v)):
            res = []
            for te, ve in zip(t.elts, v.elts):
                res.extend(split_assign(ast.copy_location(ast.Assign(targets=[te], value=ve, lineno=s.lineno), s)))
            return res
    # x = x op e  →  x op= e
    if isinstance(v, ast.BinOp) and isinstance(t, (ast.Name, ast.Subscript, ast.Attribute)) and isinstance(v.op, (ast.Add, ast.Sub, ast.Mult, ast.Div)):
        if _same_target(t, v.left):
            tt = copy.copy(t)
            tt.ctx = ast.Store()
            return [ast.copy_location(ast.AugAssign(target=tt, op=v.op, value=v.right), s)]
    return [s]


def norm_block(stmts):
    out = []
    for s in stmts:
        norm_stmt(s)
        out.extend(split_assign(s))
    return norm_table_loops(norm_index_loops(norm_loops(out)))


# ---- N5: counting loops written by hand → for … in reversed(range(len(X))) / enumerate(IT, c0)
def _is_step(s, name, op):
    """`name -= 1` / `name += 1` (after N3 also `name = name ± 1`)"""
    return isinstance(s, ast.AugAssign) and isinstance(s.target, ast.Name) and s.target.id == name and isinstance(s.op, op) \
        and isinstance(s.value, ast.Constant) and s.value.value == 1


def _assigns(stmts, name):
    for s in stmts:
        for n in ast.walk(s):
            if isinstance(n, ast.Name) and n.id == name and isinstance(n.ctx, (ast.Store, ast.Del)):
                return True
    return False


def _loop_level_continue(stmts):
    """a `continue` that belongs to the loop whose body is ``stmts``"""
    for s in stmts:
        if isinstance(s, ast.Continue):
            return True
        if isinstance(s, (ast.For, ast.While, ast.FunctionDef, ast.AsyncFunctionDef, ast.ClassDef)):
            continue
        for fld in ("body", "orelse", "finalbody"):
            b = getattr(s, fld, None)
            if isinstance(b, list) and b and isinstance(b[0], ast.stmt) and _loop_level_continue(b):
                return True
        for h in getattr(s, "handlers", []) or []:
            if _loop_level_continue(h.body):
                return True
    return False


def _loads_after(stmts, name):
    return any(isinstance(n, ast.Name) and n.id == name and isinstance(n.ctx, ast.Load) for s in stmts for n in ast.walk(s))


def _len_of(v):
    """X for `len(X)`"""
    if isinstance(v, ast.Call) and isinstance(v.func, ast.Name) and v.func.id == "len" and len(v.args) == 1 and not v.keywords:
        return v.args[0]
    return None


def norm_loops(stmts):
    out = list(stmts)
    i = 0
    while i + 1 < len(out):
        a, b = out[i], out[i + 1]
        rest = out[i + 2:]
        new = None
        if isinstance(a, ast.Assign) and len(a.targets) == 1 and isinstance(a.targets[0], ast.Name):
            k = a.targets[0].id
            if isinstance(b, ast.While) and not b.orelse and isinstance(b.test, ast.Compare) and len(b.test.ops) == 1 and isinstance(b.test.left, ast.Name) \
                    and b.test.left.id == k and isinstance(b.test.comparators[0], (ast.Constant, ast.UnaryOp)) and not _loads_after(rest, k):
                lim = b.test.comparators[0]
                limv = lim.value if isinstance(lim, ast.Constant) else (-lim.operand.value if isinstance(lim.op, ast.USub) and isinstance(lim.operand, ast.Constant) else None)
                op = b.test.ops[0]
                ge0 = (isinstance(op, ast.GtE) and limv == 0) or (isinstance(op, ast.Gt) and limv == -1)
                gt0 = (isinstance(op, ast.Gt) and limv == 0) or (isinstance(op, ast.GtE) and limv == 1)
                X = None
                # A: k = len(X) - 1; while k >= 0: BODY; k -= 1
                if ge0 and isinstance(a.value, ast.BinOp) and isinstance(a.value.op, ast.Sub) and isinstance(a.value.right, ast.Constant) and a.value.right.value == 1 \
                        and _len_of(a.value.left) is not None and b.body and _is_step(b.body[-1], k, ast.Sub) \
                        and not _assigns(b.body[:-1], k) and not _loop_level_continue(b.body[:-1]):
                    X, body = _len_of(a.value.left), b.body[:-1]
                # B: k = len(X); while k > 0: k -= 1; BODY
                elif gt0 and _len_of(a.value) is not None and b.body and _is_step(b.body[0], k, ast.Sub) and not _assigns(b.body[1:], k):
                    X, body = _len_of(a.value), b.body[1:]
                if X is not None and body:
                    it = ast.Call(func=ast.Name(id="reversed", ctx=ast.Load()), args=[
                        ast.Call(func=ast.Name(id="range", ctx=ast.Load()), args=[ast.Call(func=ast.Name(id="len", ctx=ast.Load()), args=[X], keywords=[])], keywords=[])], keywords=[])
                    new = ast.For(target=ast.Name(id=k, ctx=ast.Store()), iter=it, body=body, orelse=[], lineno=b.lineno)
            # C: k = c0; for T in IT: BODY; k += 1
            elif isinstance(b, ast.For) and not b.orelse and isinstance(a.value, ast.Constant) and isinstance(a.value.value, int) and not isinstance(a.value.value, bool) \
                    and b.body and _is_step(b.body[-1], k, ast.Add) and not _assigns(b.body[:-1], k) and not _loop_level_continue(b.body[:-1]) \
                    and not _loads_after(rest, k) and k not in _names(b.iter) and k not in _names(b.target) and len(b.body) > 1:
                args = [b.iter] + ([ast.Constant(value=a.value.value)] if a.value.value != 0 else [])
                it = ast.Call(func=ast.Name(id="enumerate", ctx=ast.Load()), args=args, keywords=[])
                tgt = ast.Tuple(elts=[ast.Name(id=k, ctx=ast.Store()), b.target], ctx=ast.Store())
                new = ast.For(target=tgt, iter=it, body=b.body[:-1], orelse=[], lineno=b.lineno)
        if new is not None:
            ast.copy_location(new, b)
            ast.fix_missing_locations(new)
            out[i:i + 2] = [new]
            continue
        i += 1
    return out


# ---- N6: index loops over the amplitude vector → `for k, a in enumerate(self.amplitudes, 1): [if a != 0:] …`
def _index_iter(it, seqs):
    """(sequence text, only_nonzero) when ``it`` enumerates the (non-zero) indices of one of ``seqs``"""
    u = ast.unparse
    if isinstance(it, ast.Call) and isinstance(it.func, ast.Attribute) and it.func.attr == "tolist" and not it.args:
        it = it.func.value
    if isinstance(it, ast.Call) and isinstance(it.func, ast.Name) and it.func.id == "range" and len(it.args) == 1:
        x = _len_of(it.args[0])
        if x is not None and u(x) in seqs:
            return u(x), False
    if isinstance(it, ast.Call) and u(it.func) in ("np.flatnonzero", "numpy.flatnonzero") and len(it.args) == 1 and u(it.args[0]) in seqs:
        return u(it.args[0]), True
    if isinstance(it, ast.Subscript) and u(it.slice) == "0" and isinstance(it.value, ast.Call) and u(it.value.func) in ("np.nonzero", "np.where", "numpy.nonzero", "numpy.where") \
            and len(it.value.args) == 1:
        a = it.value.args[0]
        if u(a) in seqs:
            return u(a), True
        if isinstance(a, ast.Compare) and len(a.ops) == 1 and isinstance(a.ops[0], ast.NotEq) and u(a.left) in seqs and u(a.comparators[0]) in ("0", "0.0"):
            return u(a.left), True
    return None


class _IndexSubst(ast.NodeTransformer):
    def __init__(self, i, seqs, k, a):
        self.i, self.seqs, self.k, self.a = i, seqs, k, a

    def visit_Subscript(self, n):
        if isinstance(n.ctx, ast.Load) and ast.unparse(n.value) in self.seqs and isinstance(n.slice, ast.Name) and n.slice.id == self.i:
            return ast.copy_location(ast.Name(id=self.a, ctx=ast.Load()), n)
        return self.generic_visit(n)

    def visit_Name(self, n):
        if n.id == self.i and isinstance(n.ctx, ast.Load):
            return ast.copy_location(ast.BinOp(left=ast.Name(id=self.k, ctx=ast.Load()), op=ast.Sub(), right=ast.Constant(value=1)), n)
        return n


def norm_index_loops(stmts):
    out = list(stmts)
    seqs = {"self.amplitudes"}
    for j, s in enumerate(out):
        if isinstance(s, ast.Assign) and len(s.targets) == 1 and isinstance(s.targets[0], ast.Name) and ast.unparse(s.value) == "self.amplitudes" \
                and sum(1 for t in out for n in ast.walk(t) if isinstance(n, ast.Name) and n.id == s.targets[0].id and isinstance(n.ctx, ast.Store)) == 1:
            seqs.add(s.targets[0].id)
        if not (isinstance(s, ast.For) and not s.orelse and isinstance(s.target, ast.Name)):
            continue
        r = _index_iter(s.iter, seqs)
        if r is None:
            continue
        i = s.target.id
        if _assigns(s.body, i) or _loads_after(out[j + 1:], i):
            continue
        # stores through the index (S[i] = …) are not a read-only mode loop
        if any(isinstance(n, ast.Subscript) and isinstance(n.ctx, (ast.Store, ast.Del)) and ast.unparse(n.value) in seqs for t in s.body for n in ast.walk(t)):
            continue
        k, a = f"{i}_mode", f"{i}_amp"
        body = [_IndexSubst(i, seqs, k, a).visit(t) for t in s.body]
        if r[1]:
            body = [ast.If(test=ast.Compare(left=ast.Name(id=a, ctx=ast.Load()), ops=[ast.NotEq()], comparators=[ast.Constant(value=0)]), body=body, orelse=[])]
        it = ast.Call(func=ast.Name(id="enumerate", ctx=ast.Load()), args=[ast.parse("self.amplitudes", mode="eval").body, ast.Constant(value=1)], keywords=[])
        new = ast.For(target=ast.Tuple(elts=[ast.Name(id=k, ctx=ast.Store()), ast.Name(id=a, ctx=ast.Store())], ctx=ast.Store()), iter=it, body=body, orelse=[], lineno=s.lineno)
        ast.copy_location(new, s)
        ast.fix_missing_locations(new)
        out[j] = new
    return out


# ---- N7: loops over a literal dispatch table [(K1, F1), (K2, F2), …] are unrolled
class _NameSubst(ast.NodeTransformer):
    def __init__(self, mapping):
        self.mapping = mapping

    def visit_Name(self, n):
        if isinstance(n.ctx, ast.Load) and n.id in self.mapping:
            return ast.copy_location(copy.deepcopy(self.mapping[n.id]), n)
        return n


def _has_loop_exit(stmts):
    for s in stmts:
        if isinstance(s, (ast.Break, ast.Continue)):
            return True
        if isinstance(s, (ast.For, ast.While, ast.FunctionDef, ast.AsyncFunctionDef, ast.ClassDef)):
            continue
        for fld in ("body", "orelse", "finalbody"):
            b = getattr(s, fld, None)
            if isinstance(b, list) and b and isinstance(b[0], ast.stmt) and _has_loop_exit(b):
                return True
        for h in getattr(s, "handlers", []) or []:
            if _has_loop_exit(h.body):
                return True
    return False


def norm_table_loops(stmts):
    out = list(stmts)
    j = 0
    while j < len(out):
        s = out[j]
        j += 1
        if not (isinstance(s, ast.For) and not s.orelse and isinstance(s.target, ast.Tuple) and all(isinstance(e, ast.Name) for e in s.target.elts)):
            continue
        table = s.iter
        if isinstance(table, ast.Name):
            defs = [x for x in out[:j - 1] if isinstance(x, (ast.Assign, ast.AnnAssign)) and isinstance((x.targets[0] if isinstance(x, ast.Assign) else x.target), ast.Name)
                    and (x.targets[0] if isinstance(x, ast.Assign) else x.target).id == table.id]
            stores = sum(1 for t in out for n in ast.walk(t) if isinstance(n, ast.Name) and n.id == table.id and isinstance(n.ctx, ast.Store))
            if len(defs) != 1 or stores != 1 or defs[0].value is None:
                continue
            table = defs[0].value
        if not (isinstance(table, (ast.List, ast.Tuple)) and 1 <= len(table.elts) <= 8):
            continue
        k = len(s.target.elts)
        rows = table.elts
        if not all(isinstance(r, ast.Tuple) and len(r.elts) == k and all(isinstance(c, (ast.Name, ast.Attribute, ast.Constant)) for c in r.elts) for r in rows):
            continue
        # a dispatch table names at least one callable/class per row (plain data tables are left alone)
        if not all(any(isinstance(c, (ast.Name, ast.Attribute)) for c in r.elts) for r in rows):
            continue
        names = [e.id for e in s.target.elts]
        if _has_loop_exit(s.body) or any(_assigns(s.body, n) for n in names) or any(_loads_after(out[j:], n) for n in names):
            continue
        unrolled = []
        for r in rows:
            mapping = dict(zip(names, r.elts))
            for b in s.body:
                nb = _NameSubst(mapping).visit(copy.deepcopy(b))
                ast.copy_location(nb, s)
                unrolled.append(nb)
        for u in unrolled:
            ast.fix_missing_locations(u)
        out[j - 1:j] = unrolled
        j = j - 1 + len(unrolled)
    return out


def norm_stmt(s):
    for fld in ("body", "orelse", "finalbody"):
        b = getattr(s, fld, None)
        if isinstance(b, list) and b and isinstance(b[0], ast.stmt):
            setattr(s, fld, norm_block(b))
    for h in getattr(s, "handlers", []) or []:
        h.body = norm_block(h.body)


def normalize_tree(tree: ast.Module) -> ast.Module:
    tree = ExprNorm().visit(tree)
    tree.body = norm_block(tree.body)
    ast.fix_missing_locations(tree)
    return tree


# --------------------------------------------------------------------------------- exits
def always_exits(block) -> bool:
    if not block:
        return False
    last = block[-1]
    if isinstance(last, (ast.Return, ast.Raise, ast.Continue, ast.Break)):
        return True
    if isinstance(last, ast.If) and last.orelse:
        return always_exits(last.body) and always_exits(last.orelse)
    return False


def structure_exits(stmts):
    """nest the statements following an always-exiting ``if`` into its other branch"""
    out = []
    for i, s in enumerate(stmts):
        if isinstance(s, ast.If):
            s = copy.copy(s)
            s.body = structure_exits(s.body)
            s.orelse = structure_exits(s.orelse)
            rest = stmts[i + 1:]
            if rest:
                if always_exits(s.body) and not always_exits(s.orelse):
                    s.orelse = structure_exits(list(s.orelse) + list(rest))
                    out.append(s)
                    return out
                if s.orelse and always_exits(s.orelse) and not always_exits(s.body):
                    s.body = structure_exits(list(s.body) + list(rest))
                    out.append(s)
                    return out
        out.append(s)
    return out


# --------------------------------------------------------------------------------- inlining
ANCHOR_PREFIXES = ("_locate_droplets_in_mask", "_get_phase_field", "_make_merge_data", "_merge_data", "_image_deviation", "_write_hdf_dataset",
                   "_from_hdf_dataset", "_init_data", "_get_mpl_patch", "_args", "_data_array", "_load", "__")
MAX_HELPER_STMTS = 40
# nested functions that exist on the reference tree are analysed in place (rules anchor on them); any *other* nested
# function is a helper introduced by a refactoring and is inlined at its call sites like a private module-level helper
NESTED_ANCHORS = {"match_tracks", "merge_data", "integrand", "get_position", "get_distance", "_image_deviation", "wrapper", "radius_from_volume",
                  "volume_from_radius", "volume_from_radius_impl", "_surface_from_radius", "ol_surface_from_radius", "surface_from_radius"}


class _Renamer(ast.NodeTransformer):
    def __init__(self, mapping):
        self.mapping = mapping

    def visit_Name(self, n):
        if n.id in self.mapping:
            return ast.copy_location(ast.Name(id=self.mapping[n.id], ctx=n.ctx), n)
        return n

    def visit_arg(self, n):
        return n


def _locals_of(fdef):
    names = {a.arg for a in fdef.args.posonlyargs + fdef.args.args + fdef.args.kwonlyargs}
    if fdef.args.vararg:
        names.add(fdef.args.vararg.arg)
    if fdef.args.kwarg:
        names.add(fdef.args.kwarg.arg)
    for n in ast.walk(fdef):
        if isinstance(n, ast.Name) and isinstance(n.ctx, ast.Store):
            names.add(n.id)
        elif isinstance(n, ast.ExceptHandler) and n.name:
            names.add(n.name)
    return names


def _count_stmts(body):
    return sum(1 for s in ast.walk(ast.Module(body=list(body), type_ignores=[])) if isinstance(s, ast.stmt))


def _returns_only_in_tail(block) -> bool:
    """after structure_exits: every Return is the last statement of its block and no
    Return sits inside a loop / try / with"""
    for i, s in enumerate(block):
        last = i == len(block) - 1
        if isinstance(s, ast.Return):
            if not last:
                return False
        elif isinstance(s, ast.If):
            if last:
                if not (_returns_only_in_tail(s.body) and _returns_only_in_tail(s.orelse)):
                    return False
            elif any(isinstance(x, ast.Return) for x in ast.walk(s)):
                return False
        elif isinstance(s, ast.Try) and last and not any(isinstance(x, ast.Return) for f_ in s.finalbody for x in ast.walk(f_)):
            # `try: return X  except E: …; return Y` — the value is computed under the same handlers after retargeting
            if s.orelse and any(isinstance(x, ast.Return) for b_ in s.body for x in ast.walk(b_)):
                return False
            blocks = [s.body] + [h.body for h in s.handlers] + ([s.orelse] if s.orelse else [])
            if not all(_returns_only_in_tail(b_) for b_ in blocks):
                return False
        elif isinstance(s, (ast.FunctionDef, ast.AsyncFunctionDef, ast.ClassDef)):
            continue
        elif any(isinstance(x, ast.Return) for x in ast.walk(s) if not isinstance(x, (ast.FunctionDef, ast.Lambda))):
            return False
    return True


def _retarget(block, make_store, keep_return):
    """replace tail returns by stores (or keep them when the call itself was returned)"""
    out = []
    for s in block:
        if isinstance(s, ast.Return):
            if keep_return:
                out.append(s)
            elif s.value is not None:
                out.extend(make_store(s.value, s))
            else:
                out.extend(make_store(ast.Constant(value=None), s))
        elif isinstance(s, ast.If):
            s = copy.copy(s)
            s.body = _retarget(s.body, make_store, keep_return)
            s.orelse = _retarget(s.orelse, make_store, keep_return)
            out.append(s)
        elif isinstance(s, ast.Try):
            s = copy.copy(s)
            s.body = _retarget(s.body, make_store, keep_return)
            s.handlers = [copy.copy(h) for h in s.handlers]
            for h in s.handlers:
                h.body = _retarget(h.body, make_store, keep_return)
            s.orelse = _retarget(s.orelse, make_store, keep_return)
            out.append(s)
        else:
            out.append(s)
    return out


def _blocks_no_nested(fdef):
    """statement lists of a function, not descending into nested functions/classes"""
    out, work = [], [fdef.body]
    while work:
        b = work.pop()
        out.append(b)
        for x in b:
            if isinstance(x, (ast.FunctionDef, ast.AsyncFunctionDef, ast.ClassDef)):
                continue
            for fld in ("body", "orelse", "finalbody"):
                bb = getattr(x, fld, None)
                if isinstance(bb, list) and bb and isinstance(bb[0], ast.stmt):
                    work.append(bb)
            for h in getattr(x, "handlers", []) or []:
                work.append(h.body)
    return out


class Inliner:
    """inline calls to eligible private helpers inside one module"""

    def __init__(self, module_tree: ast.Module):
        self.funcs = {}  # name -> FunctionDef (module level)
        self.methods = {}  # (class name, method) -> FunctionDef
        self.bases = {}
        for s in module_tree.body:
            if isinstance(s, ast.FunctionDef):
                self.funcs[s.name] = s
            elif isinstance(s, ast.ClassDef):
                self.bases[s.name] = [b.id for b in s.bases if isinstance(b, ast.Name)]
                for m in s.body:
                    if isinstance(m, ast.FunctionDef):
                        self.methods[(s.name, m.name)] = m
        self.counter = 0
        self.local = {}  # nested helper name -> FunctionDef (while the enclosing function is processed)

    def eligible(self, name, fdef) -> bool:
        if self.local.get(name) is fdef:
            pass
        elif not name.startswith("_") or any(name.startswith(p) for p in ANCHOR_PREFIXES):
            return False
        if fdef.decorator_list:
            return False
        if _count_stmts(fdef.body) > MAX_HELPER_STMTS:
            return False
        for n in ast.walk(fdef):
            if isinstance(n, (ast.Yield, ast.YieldFrom, ast.Await, ast.Global, ast.Nonlocal)):
                return False
            if isinstance(n, ast.Call) and isinstance(n.func, ast.Name) and n.func.id == name:
                return False
        body = structure_exits([s for s in fdef.body if not (isinstance(s, ast.Expr) and isinstance(s.value, ast.Constant))])
        return _returns_only_in_tail(body)

    def resolve(self, call, cls_name):
        f = call.func
        if isinstance(f, ast.Name) and f.id in self.local:
            return f.id, self.local[f.id], None
        if isinstance(f, ast.Name) and f.id in self.funcs:
            return f.id, self.funcs[f.id], None
        if isinstance(f, ast.Attribute) and isinstance(f.value, ast.Name) and f.value.id in ("self", "cls") and cls_name:
            seen, work = set(), [cls_name]
            while work:
                c = work.pop(0)
                if c in seen:
                    continue
                seen.add(c)
                if (c, f.attr) in self.methods:
                    return f.attr, self.methods[(c, f.attr)], f.value.id
                work.extend(self.bases.get(c, []))
        return None

    def expand_call(self, call, cls_name, store, keep_return, at):
        """statements replacing a call; ``store(value, at)`` builds the result store"""
        r = self.resolve(call, cls_name)
        if r is None:
            return None
        name, fdef, recv = r
        if not self.eligible(name, fdef):
            return None
        if any(isinstance(a, ast.Starred) for a in call.args) or any(k.arg is None for k in call.keywords):
            return None
        self.counter += 1
        suffix = f"__{name.strip('_')}{self.counter}"
        g = copy.deepcopy(fdef)
        params = [a.arg for a in g.args.posonlyargs + g.args.args]
        kwonly = [a.arg for a in g.args.kwonlyargs]
        if g.args.vararg or g.args.kwarg:
            return None
        bind = {}
        pos = list(params)
        if recv is not None and pos:
            bind[pos[0]] = ast.Name(id=recv, ctx=ast.Load())
            pos = pos[1:]
        if len(call.args) > len(pos):
            return None
        for p, a in zip(pos, call.args):
            bind[p] = a
        for k in call.keywords:
            if k.arg in bind or k.arg not in params + kwonly:
                return None
            bind[k.arg] = k.value
        defaults = dict(zip(params[len(params) - len(g.args.defaults):], g.args.defaults))
        defaults.update({a: d for a, d in zip(kwonly, g.args.kw_defaults) if d is not None})
        for p in params + kwonly:
            if p not in bind:
                if p in defaults:
                    bind[p] = defaults[p]
                else:
                    return None
        locs = _locals_of(g)
        mapping = {}
        pre = []
        assigned = {n.id for n in ast.walk(g) if isinstance(n, ast.Name) and isinstance(n.ctx, ast.Store)}
        for p, a in bind.items():
            simple = isinstance(a, (ast.Name, ast.Constant)) or (isinstance(a, ast.Attribute) and isinstance(a.value, ast.Name))
            if simple and p not in assigned:
                mapping[p] = None  # substitute directly
            else:
                mapping[p] = p + suffix
                pre.append(ast.copy_location(ast.Assign(targets=[ast.Name(id=p + suffix, ctx=ast.Store())], value=a, lineno=at.lineno), at))
        for l in locs:
            if l not in mapping:
                mapping[l] = l + suffix

        class Sub(ast.NodeTransformer):
            def visit_Name(self, n):
                if n.id in mapping:
                    if mapping[n.id] is None:
                        return copy.deepcopy(bind[n.id]) if isinstance(n.ctx, ast.Load) else n
                    return ast.copy_location(ast.Name(id=mapping[n.id], ctx=n.ctx), n)
                return n

        body = [s for s in g.body if not (isinstance(s, ast.Expr) and isinstance(s.value, ast.Constant) and isinstance(s.value.value, str))]
        body = structure_exits(body)
        body = [Sub().visit(s) for s in body]
        body = _retarget(body, store, keep_return)
        return pre + body

    # -------------------------------------------------------------- per function
    def inline_function(self, fdef, cls_name):
        changed = [False]

        def do_block(stmts):
            out = []
            for s in stmts:
                out.extend(do_stmt(s))
            return out

        def hoist(s):
            """pull eligible calls nested inside the expression(s) of a simple statement out
            into temporaries (left-to-right), returns (pre statements, statement)"""
            pre = []
            if not isinstance(s, (ast.Assign, ast.AugAssign, ast.AnnAssign, ast.Return, ast.Expr, ast.If, ast.For)):
                return pre, s

            inl = self

            class H(ast.NodeTransformer):
                def visit_Lambda(self, n):
                    return n

                def visit_ListComp(self, n):
                    return n  # the call depends on the comprehension variable

                visit_SetComp = visit_DictComp = visit_GeneratorExp = visit_ListComp

                def visit_Call(self, n):
                    self.generic_visit(n)
                    r = inl.resolve(n, cls_name)
                    if r is not None and inl.eligible(r[0], r[1]):
                        inl.counter += 1
                        tmp = f"_inl{inl.counter}_{r[0].strip('_')}"
                        pre.append(ast.copy_location(ast.Assign(targets=[ast.Name(id=tmp, ctx=ast.Store())], value=n, lineno=s.lineno), s))
                        return ast.copy_location(ast.Name(id=tmp, ctx=ast.Load()), n)
                    return n

            top_call = None
            if isinstance(s, (ast.Assign, ast.AnnAssign, ast.Return, ast.Expr)) and isinstance(s.value, ast.Call):
                top_call = s.value
            h = H()
            if isinstance(s, ast.If):
                s.test = h.visit(s.test)
            elif isinstance(s, ast.For):
                # the iterable is evaluated once, before the loop
                s.iter = h.visit(s.iter)
            elif top_call is not None:
                # keep the top-level call in place, hoist only calls nested in its arguments
                top_call.args = [h.visit(a) for a in top_call.args]
                for k in top_call.keywords:
                    k.value = h.visit(k.value)
                if isinstance(top_call.func, ast.Attribute):
                    top_call.func.value = h.visit(top_call.func.value)
            elif getattr(s, "value", None) is not None:
                s.value = h.visit(s.value)
            return pre, s

        def comp_to_loop(s):
            """`x = [f(v) for v in it if c]` with an inlinable f → x = []; for v in it: if c: x.append(f(v))"""
            if not (isinstance(s, (ast.Assign, ast.AnnAssign)) and isinstance(s.value, ast.ListComp) and len(s.value.generators) == 1):
                return None
            tgt = s.targets[0] if isinstance(s, ast.Assign) else s.target
            if isinstance(s, ast.Assign) and len(s.targets) != 1 or not isinstance(tgt, ast.Name):
                return None
            comp = s.value
            g = comp.generators[0]
            if g.is_async:
                return None
            has = False
            for n in ast.walk(comp):
                if isinstance(n, ast.Call):
                    r = self.resolve(n, cls_name)
                    if r is not None and self.eligible(r[0], r[1]):
                        has = True
            if not has or tgt.id in {x.id for x in ast.walk(comp) if isinstance(x, ast.Name)}:
                return None
            init = ast.copy_location(ast.Assign(targets=[ast.Name(id=tgt.id, ctx=ast.Store())], value=ast.List(elts=[], ctx=ast.Load()), lineno=s.lineno), s)
            app = ast.Expr(value=ast.Call(func=ast.Attribute(value=ast.Name(id=tgt.id, ctx=ast.Load()), attr="append", ctx=ast.Load()), args=[comp.elt], keywords=[]))
            body = [ast.copy_location(app, s)]
            for c in reversed(g.ifs):
                body = [ast.copy_location(ast.If(test=c, body=body, orelse=[]), s)]
            loop = ast.copy_location(ast.For(target=g.target, iter=g.iter, body=body, orelse=[], lineno=s.lineno), s)
            ast.fix_missing_locations(init)
            ast.fix_missing_locations(loop)
            return [init, loop]

        def do_stmt(s):
            if isinstance(s, (ast.FunctionDef, ast.AsyncFunctionDef)):
                if self.inline_function(s, cls_name):
                    changed[0] = True
                return [s]
            rep_ = comp_to_loop(s)
            if rep_ is not None:
                changed[0] = True
                return do_block(rep_)
            if isinstance(s, ast.ClassDef):
                return [s]
            for fld in ("body", "orelse", "finalbody"):
                b = getattr(s, fld, None)
                if isinstance(b, list) and b and isinstance(b[0], ast.stmt):
                    setattr(s, fld, do_block(b))
            for h in getattr(s, "handlers", []) or []:
                h.body = do_block(h.body)
            pre, s = hoist(s)
            out = []
            for p in pre:
                out.extend(do_stmt(p))
            call, store, keep = None, None, False
            if isinstance(s, ast.Expr) and isinstance(s.value, ast.Call):
                call = s.value
                store = lambda v, at_: [ast.copy_location(ast.Expr(value=v), at_)]
            elif isinstance(s, ast.Assign) and len(s.targets) == 1 and isinstance(s.value, ast.Call):
                call = s.value
                tgt = s.targets[0]
                store = lambda v, at_, tgt=tgt: [ast.copy_location(ast.Assign(targets=[copy.deepcopy(tgt)], value=v, lineno=at_.lineno), at_)]
            elif isinstance(s, ast.AnnAssign) and s.value is not None and isinstance(s.value, ast.Call):
                call = s.value
                tgt = s.target
                store = lambda v, at_, tgt=tgt: [ast.copy_location(ast.Assign(targets=[copy.deepcopy(tgt)], value=v, lineno=at_.lineno), at_)]
            elif isinstance(s, ast.Return) and isinstance(s.value, ast.Call):
                call = s.value
                keep = True
                store = lambda v, at_: [ast.copy_location(ast.Return(value=v), at_)]
            if call is not None:
                rep = self.expand_call(call, cls_name, store, keep, s)
                if rep is not None:
                    changed[0] = True
                    rep = norm_block(rep)
                    return out + do_block(rep)  # inline transitively (counter prevents clashes; recursion excluded by eligibility)
            return out + [s]

        # helpers defined inside this function that the reference tree does not know
        nested = {}
        call_funcs = {id(c.func) for c in ast.walk(fdef) if isinstance(c, ast.Call)}
        for blk in _blocks_no_nested(fdef):
            for x in blk:
                if isinstance(x, ast.FunctionDef) and x.name not in NESTED_ANCHORS and not x.decorator_list:
                    uses = [n for n in ast.walk(fdef) if isinstance(n, ast.Name) and n.id == x.name and isinstance(n.ctx, ast.Load)]
                    if uses and all(id(u) in call_funcs for u in uses):
                        nested[x.name] = x
        saved = self.local
        self.local = {**saved, **nested}
        try:
            fdef.body = do_block(fdef.body)
        finally:
            self.local = saved
        if nested:
            still = {n.id for n in ast.walk(fdef) if isinstance(n, ast.Name) and isinstance(n.ctx, ast.Load)}
            gone = {nm for nm in nested if nm not in still}
            if gone:
                for blk in _blocks_no_nested(fdef):
                    blk[:] = [x for x in blk if not (isinstance(x, ast.FunctionDef) and x.name in gone)] or [ast.Pass()]
        return changed[0]


def inline_module(tree: ast.Module) -> ast.Module:
    inl = Inliner(tree)
    for s in tree.body:
        if isinstance(s, ast.FunctionDef):
            if not (s.name.startswith("_") and inl.eligible(s.name, s)):
                inl.inline_function(s, None)
        elif isinstance(s, ast.ClassDef):
            for m in s.body:
                if isinstance(m, ast.FunctionDef):
                    if not (m.name.startswith("_") and inl.eligible(m.name, m)):
                        inl.inline_function(m, s.name)
    ast.fix_missing_locations(tree)
    return tree
