"""Semantics-preserving normalisation of parsed modules, applied once when the model is
built, so that rules see one canonical shape for idioms that ordinary refactoring moves
between:

  N2  ``a = b = v``  →  ``a = v; b = v``;  ``a, b = x, y`` → ``a = x; b = y`` (when the
      right-hand sides do not read the targets)
  N3  ``x = x op e`` → ``x op= e``  (Name / textually identical Subscript, Attribute)
  N4  comparison orientation: literal on the right (``0 < n`` → ``n > 0``),
      ``not (a == b)`` → ``a != b`` (and the other exact negations of ==, !=, is, in)
  INLINE  calls to small private helper functions/methods of the repository that are not
      themselves anchors of a rule are inlined (parameters bound, locals renamed, tail
      returns turned into assignments), so that "extract helper" refactorings do not hide
      the code a rule inspects.

Nodes keep their original line numbers.  Nothing here changes what the program computes;
the transformations are only used for analysis.
"""

from __future__ import annotations

import ast
import copy

FLIP = {ast.Lt: ast.Gt, ast.Gt: ast.Lt, ast.LtE: ast.GtE, ast.GtE: ast.LtE, ast.Eq: ast.Eq, ast.NotEq: ast.NotEq}
NEG_EXACT = {ast.Eq: ast.NotEq, ast.NotEq: ast.Eq, ast.Is: ast.IsNot, ast.IsNot: ast.Is, ast.In: ast.NotIn, ast.NotIn: ast.In}


def _names(node):
    return {n.id for n in ast.walk(node) if isinstance(n, ast.Name)}


def _is_literal(n):
    if isinstance(n, ast.Constant):
        return True
    if isinstance(n, ast.UnaryOp) and isinstance(n.op, ast.USub) and isinstance(n.operand, ast.Constant):
        return True
    return False


class ExprNorm(ast.NodeTransformer):
    def visit_Compare(self, n):
        self.generic_visit(n)
        if len(n.ops) == 1 and type(n.ops[0]) in FLIP and _is_literal(n.left) and not _is_literal(n.comparators[0]):
            return ast.copy_location(ast.Compare(left=n.comparators[0], ops=[FLIP[type(n.ops[0])]()], comparators=[n.left]), n)
        return n

    def visit_UnaryOp(self, n):
        self.generic_visit(n)
        if isinstance(n.op, ast.Not) and isinstance(n.operand, ast.Compare) and len(n.operand.ops) == 1 and type(n.operand.ops[0]) in NEG_EXACT:
            c = n.operand
            return ast.copy_location(ast.Compare(left=c.left, ops=[NEG_EXACT[type(c.ops[0])]()], comparators=c.comparators), n)
        return n

    def visit_Lambda(self, n):
        self.generic_visit(n)
        return n


def _same_target(t, e) -> bool:
    try:
        return ast.unparse(t) == ast.unparse(e)
    except Exception:  # pragma: no cover
        return False


def split_assign(s):
    """list of statements replacing ``s``"""
    if not isinstance(s, ast.Assign):
        return [s]
    out = []
    # chained
    if len(s.targets) > 1:
        for t in s.targets:
            out.append(ast.copy_location(ast.Assign(targets=[t], value=s.value, lineno=s.lineno), s))
        res = []
        for x in out:
            res.extend(split_assign(x))
        return res
    t, v = s.targets[0], s.value
    if isinstance(t, (ast.Tuple, ast.List)) and isinstance(v, (ast.Tuple, ast.List)) and len(t.elts) == len(v.elts) \
            and not any(isinstance(e, ast.Starred) for e in list(t.elts) + list(v.elts)):
        tnames = set()
        for e in t.elts:
            tnames |= _names(e)
        if not (tnames & _names(v)):
            res = []
            for te, ve in zip(t.elts, v.elts):
                res.extend(split_assign(ast.copy_location(ast.Assign(targets=[te], value=ve, lineno=s.lineno), s)))
            return res
    # x = x op e  →  x op= e
    if isinstance(v, ast.BinOp) and isinstance(t, (ast.Name, ast.Subscript, ast.Attribute)) and isinstance(v.op, (ast.Add, ast.Sub, ast.Mult, ast.Div)):
        if _same_target(t, v.left):
            tt = copy.copy(t)
            tt.ctx = ast.Store()
            return [ast.copy_location(ast.AugAssign(target=tt, op=v.op, value=v.right), s)]
    return [s]


def norm_block(stmts):
    out = []
    for s in stmts:
        norm_stmt(s)
        out.extend(split_assign(s))
    return out


def norm_stmt(s):
    for fld in ("body", "orelse", "finalbody"):
        b = getattr(s, fld, None)
        if isinstance(b, list) and b and isinstance(b[0], ast.stmt):
            setattr(s, fld, norm_block(b))
    for h in getattr(s, "handlers", []) or []:
        h.body = norm_block(h.body)


def normalize_tree(tree: ast.Module) -> ast.Module:
    tree = ExprNorm().visit(tree)
    tree.body = norm_block(tree.body)
    ast.fix_missing_locations(tree)
    return tree


# --------------------------------------------------------------------------------- exits
def always_exits(block) -> bool:
    if not block:
        return False
    last = block[-1]
    if isinstance(last, (ast.Return, ast.Raise, ast.Continue, ast.Break)):
        return True
    if isinstance(last, ast.If) and last.orelse:
        return always_exits(last.body) and always_exits(last.orelse)
    return False


def structure_exits(stmts):
    """nest the statements following an always-exiting ``if`` into its other branch"""
    out = []
    for i, s in enumerate(stmts):
        if isinstance(s, ast.If):
            s = copy.copy(s)
            s.body = structure_exits(s.body)
            s.orelse = structure_exits(s.orelse)
            rest = stmts[i + 1:]
            if rest:
                if always_exits(s.body) and not always_exits(s.orelse):
                    s.orelse = structure_exits(list(s.orelse) + list(rest))
                    out.append(s)
                    return out
                if s.orelse and always_exits(s.orelse) and not always_exits(s.body):
                    s.body = structure_exits(list(s.body) + list(rest))
                    out.append(s)
                    return out
        out.append(s)
    return out


# --------------------------------------------------------------------------------- inlining
ANCHOR_PREFIXES = ("_locate_droplets_in_mask", "_get_phase_field", "_make_merge_data", "_merge_data", "_image_deviation", "_write_hdf_dataset",
                   "_from_hdf_dataset", "_init_data", "_get_mpl_patch", "_args", "_data_array", "_load", "__")
MAX_HELPER_STMTS = 40


class _Renamer(ast.NodeTransformer):
    def __init__(self, mapping):
        self.mapping = mapping

    def visit_Name(self, n):
        if n.id in self.mapping:
            return ast.copy_location(ast.Name(id=self.mapping[n.id], ctx=n.ctx), n)
        return n

    def visit_arg(self, n):
        return n


def _locals_of(fdef):
    names = {a.arg for a in fdef.args.posonlyargs + fdef.args.args + fdef.args.kwonlyargs}
    if fdef.args.vararg:
        names.add(fdef.args.vararg.arg)
    if fdef.args.kwarg:
        names.add(fdef.args.kwarg.arg)
    for n in ast.walk(fdef):
        if isinstance(n, ast.Name) and isinstance(n.ctx, ast.Store):
            names.add(n.id)
        elif isinstance(n, ast.ExceptHandler) and n.name:
            names.add(n.name)
    return names


def _count_stmts(body):
    return sum(1 for s in ast.walk(ast.Module(body=list(body), type_ignores=[])) if isinstance(s, ast.stmt))


def _returns_only_in_tail(block) -> bool:
    """after structure_exits: every Return is the last statement of its block and no
    Return sits inside a loop / try / with"""
    for i, s in enumerate(block):
        last = i == len(block) - 1
        if isinstance(s, ast.Return):
            if not last:
                return False
        elif isinstance(s, ast.If):
            if last:
                if not (_returns_only_in_tail(s.body) and _returns_only_in_tail(s.orelse)):
                    return False
            elif any(isinstance(x, ast.Return) for x in ast.walk(s)):
                return False
        elif isinstance(s, (ast.FunctionDef, ast.AsyncFunctionDef, ast.ClassDef)):
            continue
        elif any(isinstance(x, ast.Return) for x in ast.walk(s) if not isinstance(x, (ast.FunctionDef, ast.Lambda))):
            return False
    return True


def _retarget(block, make_store, keep_return):
    """replace tail returns by stores (or keep them when the call itself was returned)"""
    out = []
    for s in block:
        if isinstance(s, ast.Return):
            if keep_return:
                out.append(s)
            elif s.value is not None:
                out.extend(make_store(s.value, s))
            else:
                out.extend(make_store(ast.Constant(value=None), s))
        elif isinstance(s, ast.If):
            s = copy.copy(s)
            s.body = _retarget(s.body, make_store, keep_return)
            s.orelse = _retarget(s.orelse, make_store, keep_return)
            out.append(s)
        else:
            out.append(s)
    return out


class Inliner:
    """inline calls to eligible private helpers inside one module"""

    def __init__(self, module_tree: ast.Module):
        self.funcs = {}  # name -> FunctionDef (module level)
        self.methods = {}  # (class name, method) -> FunctionDef
        self.bases = {}
        for s in module_tree.body:
            if isinstance(s, ast.FunctionDef):
                self.funcs[s.name] = s
            elif isinstance(s, ast.ClassDef):
                self.bases[s.name] = [b.id for b in s.bases if isinstance(b, ast.Name)]
                for m in s.body:
                    if isinstance(m, ast.FunctionDef):
                        self.methods[(s.name, m.name)] = m
        self.counter = 0

    def eligible(self, name, fdef) -> bool:
        if not name.startswith("_") or any(name.startswith(p) for p in ANCHOR_PREFIXES):
            return False
        if fdef.decorator_list:
            return False
        if _count_stmts(fdef.body) > MAX_HELPER_STMTS:
            return False
        for n in ast.walk(fdef):
            if isinstance(n, (ast.Yield, ast.YieldFrom, ast.Await, ast.Global, ast.Nonlocal)):
                return False
            if isinstance(n, ast.Call) and isinstance(n.func, ast.Name) and n.func.id == name:
                return False
        body = structure_exits([s for s in fdef.body if not (isinstance(s, ast.Expr) and isinstance(s.value, ast.Constant))])
        return _returns_only_in_tail(body)

    def resolve(self, call, cls_name):
        f = call.func
        if isinstance(f, ast.Name) and f.id in self.funcs:
            return f.id, self.funcs[f.id], None
        if isinstance(f, ast.Attribute) and isinstance(f.value, ast.Name) and f.value.id in ("self", "cls") and cls_name:
            seen, work = set(), [cls_name]
            while work:
                c = work.pop(0)
                if c in seen:
                    continue
                seen.add(c)
                if (c, f.attr) in self.methods:
                    return f.attr, self.methods[(c, f.attr)], f.value.id
                work.extend(self.bases.get(c, []))
        return None

    def expand_call(self, call, cls_name, store, keep_return, at):
        """statements replacing a call; ``store(value, at)`` builds the result store"""
        r = self.resolve(call, cls_name)
        if r is None:
            return None
        name, fdef, recv = r
        if not self.eligible(name, fdef):
            return None
        if any(isinstance(a, ast.Starred) for a in call.args) or any(k.arg is None for k in call.keywords):
            return None
        self.counter += 1
        suffix = f"__{name.strip('_')}{self.counter}"
        g = copy.deepcopy(fdef)
        params = [a.arg for a in g.args.posonlyargs + g.args.args]
        kwonly = [a.arg for a in g.args.kwonlyargs]
        if g.args.vararg or g.args.kwarg:
            return None
        bind = {}
        pos = list(params)
        if recv is not None and pos:
            bind[pos[0]] = ast.Name(id=recv, ctx=ast.Load())
            pos = pos[1:]
        if len(call.args) > len(pos):
            return None
        for p, a in zip(pos, call.args):
            bind[p] = a
        for k in call.keywords:
            if k.arg in bind or k.arg not in params + kwonly:
                return None
            bind[k.arg] = k.value
        defaults = dict(zip(params[len(params) - len(g.args.defaults):], g.args.defaults))
        defaults.update({a: d for a, d in zip(kwonly, g.args.kw_defaults) if d is not None})
        for p in params + kwonly:
            if p not in bind:
                if p in defaults:
                    bind[p] = defaults[p]
                else:
                    return None
        locs = _locals_of(g)
        mapping = {}
        pre = []
        assigned = {n.id for n in ast.walk(g) if isinstance(n, ast.Name) and isinstance(n.ctx, ast.Store)}
        for p, a in bind.items():
            simple = isinstance(a, (ast.Name, ast.Constant)) or (isinstance(a, ast.Attribute) and isinstance(a.value, ast.Name))
            if simple and p not in assigned:
                mapping[p] = None  # substitute directly
            else:
                mapping[p] = p + suffix
                pre.append(ast.copy_location(ast.Assign(targets=[ast.Name(id=p + suffix, ctx=ast.Store())], value=a, lineno=at.lineno), at))
        for l in locs:
            if l not in mapping:
                mapping[l] = l + suffix

        class Sub(ast.NodeTransformer):
            def visit_Name(self, n):
                if n.id in mapping:
                    if mapping[n.id] is None:
                        return copy.deepcopy(bind[n.id]) if isinstance(n.ctx, ast.Load) else n
                    return ast.copy_location(ast.Name(id=mapping[n.id], ctx=n.ctx), n)
                return n

        body = [s for s in g.body if not (isinstance(s, ast.Expr) and isinstance(s.value, ast.Constant) and isinstance(s.value.value, str))]
        body = structure_exits(body)
        body = [Sub().visit(s) for s in body]
        body = _retarget(body, store, keep_return)
        return pre + body

    # -------------------------------------------------------------- per function
    def inline_function(self, fdef, cls_name):
        changed = [False]

        def do_block(stmts):
            out = []
            for s in stmts:
                out.extend(do_stmt(s))
            return out

        def hoist(s):
            """pull eligible calls nested inside the expression(s) of a simple statement out
            into temporaries (left-to-right), returns (pre statements, statement)"""
            pre = []
            if not isinstance(s, (ast.Assign, ast.AugAssign, ast.AnnAssign, ast.Return, ast.Expr, ast.If)):
                return pre, s

            inl = self

            class H(ast.NodeTransformer):
                def visit_Lambda(self, n):
                    return n

                def visit_Call(self, n):
                    self.generic_visit(n)
                    r = inl.resolve(n, cls_name)
                    if r is not None and inl.eligible(r[0], r[1]):
                        inl.counter += 1
                        tmp = f"_inl{inl.counter}_{r[0].strip('_')}"
                        pre.append(ast.copy_location(ast.Assign(targets=[ast.Name(id=tmp, ctx=ast.Store())], value=n, lineno=s.lineno), s))
                        return ast.copy_location(ast.Name(id=tmp, ctx=ast.Load()), n)
                    return n

            top_call = None
            if isinstance(s, (ast.Assign, ast.AnnAssign, ast.Return, ast.Expr)) and isinstance(s.value, ast.Call):
                top_call = s.value
            h = H()
            if isinstance(s, ast.If):
                s.test = h.visit(s.test)
            elif top_call is not None:
                # keep the top-level call in place, hoist only calls nested in its arguments
                top_call.args = [h.visit(a) for a in top_call.args]
                for k in top_call.keywords:
                    k.value = h.visit(k.value)
                if isinstance(top_call.func, ast.Attribute):
                    top_call.func.value = h.visit(top_call.func.value)
            elif getattr(s, "value", None) is not None:
                s.value = h.visit(s.value)
            return pre, s

        def do_stmt(s):
            if isinstance(s, (ast.FunctionDef, ast.AsyncFunctionDef)):
                s.body = do_block(s.body)
                return [s]
            if isinstance(s, ast.ClassDef):
                return [s]
            for fld in ("body", "orelse", "finalbody"):
                b = getattr(s, fld, None)
                if isinstance(b, list) and b and isinstance(b[0], ast.stmt):
                    setattr(s, fld, do_block(b))
            for h in getattr(s, "handlers", []) or []:
                h.body = do_block(h.body)
            pre, s = hoist(s)
            out = []
            for p in pre:
                out.extend(do_stmt(p))
            call, store, keep = None, None, False
            if isinstance(s, ast.Expr) and isinstance(s.value, ast.Call):
                call = s.value
                store = lambda v, at_: [ast.copy_location(ast.Expr(value=v), at_)]
            elif isinstance(s, ast.Assign) and len(s.targets) == 1 and isinstance(s.value, ast.Call):
                call = s.value
                tgt = s.targets[0]
                store = lambda v, at_, tgt=tgt: [ast.copy_location(ast.Assign(targets=[copy.deepcopy(tgt)], value=v, lineno=at_.lineno), at_)]
            elif isinstance(s, ast.AnnAssign) and s.value is not None and isinstance(s.value, ast.Call):
                call = s.value
                tgt = s.target
                store = lambda v, at_, tgt=tgt: [ast.copy_location(ast.Assign(targets=[copy.deepcopy(tgt)], value=v, lineno=at_.lineno), at_)]
            elif isinstance(s, ast.Return) and isinstance(s.value, ast.Call):
                call = s.value
                keep = True
                store = lambda v, at_: [ast.copy_location(ast.Return(value=v), at_)]
            if call is not None:
                rep = self.expand_call(call, cls_name, store, keep, s)
                if rep is not None:
                    changed[0] = True
                    rep = norm_block(rep)
                    return out + do_block(rep)  # inline transitively (counter prevents clashes; recursion excluded by eligibility)
            return out + [s]

        depth_guard = 0
        fdef.body = do_block(fdef.body)
        return changed[0]


def inline_module(tree: ast.Module) -> ast.Module:
    inl = Inliner(tree)
    for s in tree.body:
        if isinstance(s, ast.FunctionDef):
            if not (s.name.startswith("_") and inl.eligible(s.name, s)):
                inl.inline_function(s, None)
        elif isinstance(s, ast.ClassDef):
            for m in s.body:
                if isinstance(m, ast.FunctionDef):
                    if not (m.name.startswith("_") and inl.eligible(m.name, m)):
                        inl.inline_function(m, s.name)
    ast.fix_missing_locations(tree)
    return tree
