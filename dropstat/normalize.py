"""Semantics-preserving normalisation of parsed modules, applied once when the model is
built, so that rules see one canonical shape for idioms that ordinary refactoring moves
between:

  N2  ``a = b = v``  →  ``a = v; b = v``;  ``a, b = x, y`` → ``a = x; b = y`` (when the
      right-hand sides do not read the targets)
  N3  ``x = x op e`` → ``x op= e``  (Name / textually identical Subscript, Attribute)
  N4  comparison orientation: literal on the right (``0 < n`` → ``n > 0``),
      ``not (a == b)`` → ``a != b`` (and the other exact negations of ==, !=, is, in)
  N5  counting loops written by hand (`i = len(X) - 1; while i >= 0: …; i -= 1`, `i = len(X); while i > 0:
      i -= 1; …`, `k = c; for t in IT: …; k += 1`) → `for i in reversed(range(len(X)))` / `for k, t in enumerate(IT, c)`
      (only when the counter is not assigned elsewhere in the body, no `continue` can skip the step, and the
      counter is not read after the loop)
  INLINE  calls to small private helper functions/methods of the repository that are not
      themselves anchors of a rule are inlined (parameters bound, locals renamed, tail
      returns turned into assignments), so that "extract helper" refactorings do not hide
      the code a rule inspects.

Nodes keep their original line numbers.  Nothing here changes what the program computes;
the transformations are only used for analysis.
"""

from __future__ import annotations

import ast
import copy

FLIP = {ast.Lt: ast.Gt, ast.Gt: ast.Lt, ast.LtE: ast.GtE, ast.GtE: ast.LtE, ast.Eq: ast.Eq, ast.NotEq: ast.NotEq}
NEG_EXACT = {ast.Eq: ast.NotEq, ast.NotEq: ast.Eq, ast.Is: ast.IsNot, ast.IsNot: ast.Is, ast.In: ast.NotIn, ast.NotIn: ast.In}


def _names(node):
    return {n.id for n in ast.walk(node) if isinstance(n, ast.Name)}


def _is_literal(n):
    if isinstance(n, ast.Constant):
        return True
    if isinstance(n, ast.UnaryOp) and isinstance(n.op, ast.USub) and isinstance(n.operand, ast.Constant):
        return True
    return False


class ExprNorm(ast.NodeTransformer):
    def visit_Compare(self, n):
        self.generic_visit(n)
        if len(n.ops) == 1 and type(n.ops[0]) in FLIP and _is_literal(n.left) and not _is_literal(n.comparators[0]):
            return ast.copy_location(ast.Compare(left=n.comparators[0], ops=[FLIP[type(n.ops[0])]()], comparators=[n.left]), n)
        return n

    def visit_UnaryOp(self, n):
        self.generic_visit(n)
        if isinstance(n.op, ast.Not) and isinstance(n.operand, ast.Compare) and len(n.operand.ops) == 1 and type(n.operand.ops[0]) in NEG_EXACT:
            c = n.operand
            return ast.copy_location(ast.Compare(left=c.left, ops=[NEG_EXACT[type(c.ops[0])]()], comparators=c.comparators), n)
        return n

    def visit_Lambda(self, n):
        self.generic_visit(n)
        return n

    def visit_Call(self, n):
        self.generic_visit(n)
        # "track_{:06d}".format(i)  →  f"track_{i:06d}"   (automatic numbering, positional arguments only)
        if isinstance(n.func, ast.Attribute) and n.func.attr == "format" and isinstance(n.func.value, ast.Constant) and isinstance(n.func.value.value, str) and n.args and not n.keywords \
                and not any(isinstance(a, ast.Starred) for a in n.args):
            import re as _re

            parts = _re.split(r"(\{[^{}]*\})", n.func.value.value)
            fields = [p_ for p_ in parts if p_.startswith("{") and p_.endswith("}")]
            if len(fields) == len(n.args) and all(_re.fullmatch(r"\{(:[^{}!]*)?\}", f_) for f_ in fields) and "{{" not in n.func.value.value and "}}" not in n.func.value.value:
                vals, k = [], 0
                for p_ in parts:
                    if p_.startswith("{") and p_.endswith("}"):
                        spec = p_[2:-1] if p_.startswith("{:") else ""
                        fs = ast.JoinedStr(values=[ast.Constant(value=spec)]) if spec else None
                        vals.append(ast.FormattedValue(value=n.args[k], conversion=-1, format_spec=fs))
                        k += 1
                    elif p_:
                        vals.append(ast.Constant(value=p_))
                return ast.copy_location(ast.JoinedStr(values=vals), n)
        # getattr(obj, "name")  →  obj.name
        if isinstance(n.func, ast.Name) and n.func.id == "getattr" and len(n.args) == 2 and not n.keywords and isinstance(n.args[1], ast.Constant) \
                and isinstance(n.args[1].value, str) and n.args[1].value.isidentifier():
            return ast.copy_location(ast.Attribute(value=n.args[0], attr=n.args[1].value, ctx=ast.Load()), n)
        return n

    def _unroll(self, n, make):
        """a comprehension over a short literal tuple of constants is the literal built from its instances"""
        if len(n.generators) != 1:
            return None
        g = n.generators[0]
        if g.ifs or g.is_async or not isinstance(g.target, ast.Name) or not isinstance(g.iter, (ast.Tuple, ast.List)) or not (1 <= len(g.iter.elts) <= 8) \
                or not all(isinstance(e, ast.Constant) for e in g.iter.elts):
            return None
        out = []
        for e in g.iter.elts:
            class _S(ast.NodeTransformer):
                def visit_Name(self, x):
                    return copy.deepcopy(e) if x.id == g.target.id and isinstance(x.ctx, ast.Load) else x

            out.append(make(lambda part: ExprNorm().visit(_S().visit(copy.deepcopy(part)))))
        return out

    def visit_DictComp(self, n):
        self.generic_visit(n)
        items = self._unroll(n, lambda sub: (sub(n.key), sub(n.value)))
        if items is None:
            return n
        return ast.copy_location(ast.Dict(keys=[k for k, _ in items], values=[v for _, v in items]), n)

    def visit_ListComp(self, n):
        self.generic_visit(n)
        items = self._unroll(n, lambda sub: sub(n.elt))
        if items is None:
            return n
        return ast.copy_location(ast.List(elts=items, ctx=ast.Load()), n)


def _same_target(t, e) -> bool:
    try:
        return ast.unparse(t) == ast.unparse(e)
    except Exception:  # pragma: no cover
        return False


def split_assign(s):
    """list of statements replacing ``s``"""
    if not isinstance(s, ast.Assign):
        return [s]
    out = []
    # chained
    if len(s.targets) > 1:
        first = s.targets[0]
        shared = not isinstance(s.value, (ast.Constant, ast.Name)) and isinstance(first, (ast.Name, ast.Attribute)) and \
            not (isinstance(s.value, ast.UnaryOp) and isinstance(s.value.operand, ast.Constant))
        for k, t in enumerate(s.targets):
            if shared and k > 0:
                # a = b = <object>: one object, bound to both names (the value is evaluated once)
                src = copy.deepcopy(first)
                for x in ast.walk(src):
                    if hasattr(x, "ctx"):
                        x.ctx = ast.Load()
                out.append(ast.copy_location(ast.Assign(targets=[t], value=src, lineno=s.lineno), s))
            else:
                out.append(ast.copy_location(ast.Assign(targets=[t], value=s.value, lineno=s.lineno), s))
        res = []
        for x in out:
            res.extend(split_assign(x))
        return res
    t, v = s.targets[0], s.value
    if isinstance(t, (ast.Tuple, ast.List)) and isinstance(v, (ast.Tuple, ast.List)) and len(t.elts) == len(v.elts) \
            and not any(isinstance(e, ast.Starred) for e in list(t.elts) + list(v.elts)):
        # sequential assignment means the same when no value reads a target that an earlier pair has already overwritten
        if not any(_names(t.elts[i]) & _names(v.elts[j]) for j in range(len(v.elts)) for i in range(j)):
            res = []
            for te, ve in zip(t.elts, v.elts):
                res.extend(split_assign(ast.copy_location(ast.Assign(targets=[te], value=ve, lineno=s.lineno), s)))
            return res
    # a, b = x[-2:]  →  a = x[-2]; b = x[-1]
    if isinstance(t, (ast.Tuple, ast.List)) and all(isinstance(e, ast.Name) for e in t.elts) and isinstance(v, ast.Subscript) and isinstance(v.value, ast.Name) \
            and isinstance(v.slice, ast.Slice) and v.slice.upper is None and v.slice.step is None and isinstance(v.slice.lower, ast.UnaryOp) \
            and isinstance(v.slice.lower.op, ast.USub) and isinstance(v.slice.lower.operand, ast.Constant) and v.slice.lower.operand.value == len(t.elts) \
            and v.value.id not in {e.id for e in t.elts}:
        k = len(t.elts)
        return [ast.copy_location(ast.Assign(targets=[e], value=ast.copy_location(ast.Subscript(value=copy.deepcopy(v.value), slice=ast.UnaryOp(op=ast.USub(), operand=ast.Constant(value=k - i)),
                                                                                                    ctx=ast.Load()), v), lineno=s.lineno), s) for i, e in enumerate(t.elts)]
    # a, b = x[i]  →  a = x[i][0]; b = x[i][1]   (x[i] is a plain element access: no call, evaluated twice without effect)
    if isinstance(t, (ast.Tuple, ast.List)) and all(isinstance(e, ast.Name) for e in t.elts) and isinstance(v, ast.Subscript) and isinstance(v.value, ast.Name) \
            and not isinstance(v.slice, (ast.Slice, ast.Tuple)) and not any(isinstance(x, (ast.Call, ast.NamedExpr)) for x in ast.walk(v.slice)) \
            and not ({e.id for e in t.elts} & _names(v)):
        return [ast.copy_location(ast.Assign(targets=[e], value=ast.copy_location(ast.Subscript(value=copy.deepcopy(v), slice=ast.Constant(value=i), ctx=ast.Load()), v), lineno=s.lineno), s)
                for i, e in enumerate(t.elts)]
    # x = x op e  →  x op= e
    if isinstance(v, ast.BinOp) and isinstance(t, (ast.Name, ast.Subscript, ast.Attribute)) and isinstance(v.op, (ast.Add, ast.Sub, ast.Mult, ast.Div)):
        if _same_target(t, v.left):
            tt = copy.copy(t)
            tt.ctx = ast.Store()
            return [ast.copy_location(ast.AugAssign(target=tt, op=v.op, value=v.right), s)]
    return [s]


def fold_tuple_temp(stmts):
    """T = CALL; … X[T] …; a, b = T   →   a, b = CALL; … X[a, b] …   (T is used for nothing else in the block)"""
    out = list(stmts)
    for k, d in enumerate(out):
        if not (isinstance(d, ast.Assign) and len(d.targets) == 1 and isinstance(d.targets[0], ast.Tuple) and all(isinstance(e, ast.Name) for e in d.targets[0].elts) and isinstance(d.value, ast.Name)):
            continue
        T = d.value.id
        defs = [i for i, x in enumerate(out[:k]) if isinstance(x, ast.Assign) and len(x.targets) == 1 and isinstance(x.targets[0], ast.Name) and x.targets[0].id == T]
        if len(defs) != 1 or not isinstance(out[defs[0]].value, ast.Call):
            continue
        i0 = defs[0]
        names = [e.id for e in d.targets[0].elts]
        between = out[i0 + 1:k]
        uses = [x for b in between for x in ast.walk(b) if isinstance(x, ast.Name) and x.id == T]
        subs = [x for b in between for x in ast.walk(b) if isinstance(x, ast.Subscript) and isinstance(x.slice, ast.Name) and x.slice.id == T]
        later = [x for b in out[k + 1:] for x in ast.walk(b) if isinstance(x, ast.Name) and x.id == T]
        clash = [x for b in between for x in ast.walk(b) if isinstance(x, ast.Name) and x.id in names]
        if len(uses) != len(subs) or later or clash:
            continue
        for sub in subs:
            sub.slice = ast.copy_location(ast.Tuple(elts=[ast.Name(id=n_, ctx=ast.Load()) for n_ in names], ctx=ast.Load()), sub.slice)
        new_d = ast.copy_location(ast.Assign(targets=[d.targets[0]], value=out[i0].value, lineno=out[i0].lineno), out[i0])
        out[i0] = new_d
        del out[k]
        return fold_tuple_temp(out)
    return out


def norm_block(stmts):
    out = []
    for s in fold_tuple_temp(hoist_walrus(list(stmts))):
        norm_stmt(s)
        out.extend(split_assign(s))
    return norm_table_loops(norm_index_loops(norm_loops(out)))


# ---- N5: counting loops written by hand → for … in reversed(range(len(X))) / enumerate(IT, c0)
def _is_step(s, name, op):
    """`name -= 1` / `name += 1` (after N3 also `name = name ± 1`)"""
    return isinstance(s, ast.AugAssign) and isinstance(s.target, ast.Name) and s.target.id == name and isinstance(s.op, op) \
        and isinstance(s.value, ast.Constant) and s.value.value == 1


def _assigns(stmts, name):
    for s in stmts:
        for n in ast.walk(s):
            if isinstance(n, ast.Name) and n.id == name and isinstance(n.ctx, (ast.Store, ast.Del)):
                return True
    return False


def _loop_level_continue(stmts):
    """a `continue` that belongs to the loop whose body is ``stmts``"""
    for s in stmts:
        if isinstance(s, ast.Continue):
            return True
        if isinstance(s, (ast.For, ast.While, ast.FunctionDef, ast.AsyncFunctionDef, ast.ClassDef)):
            continue
        for fld in ("body", "orelse", "finalbody"):
            b = getattr(s, fld, None)
            if isinstance(b, list) and b and isinstance(b[0], ast.stmt) and _loop_level_continue(b):
                return True
        for h in getattr(s, "handlers", []) or []:
            if _loop_level_continue(h.body):
                return True
    return False


def _loads_after(stmts, name):
    return any(isinstance(n, ast.Name) and n.id == name and isinstance(n.ctx, ast.Load) for s in stmts for n in ast.walk(s))


def _len_of(v):
    """X for `len(X)`"""
    if isinstance(v, ast.Call) and isinstance(v.func, ast.Name) and v.func.id == "len" and len(v.args) == 1 and not v.keywords:
        return v.args[0]
    return None


def norm_loops(stmts):
    out = list(stmts)
    i = 0
    while i + 1 < len(out):
        a, b = out[i], out[i + 1]
        rest = out[i + 2:]
        new = None
        if isinstance(a, ast.Assign) and len(a.targets) == 1 and isinstance(a.targets[0], ast.Name):
            k = a.targets[0].id
            if isinstance(b, ast.While) and not b.orelse and isinstance(b.test, ast.Compare) and len(b.test.ops) == 1 and isinstance(b.test.left, ast.Name) \
                    and b.test.left.id == k and isinstance(b.test.comparators[0], (ast.Constant, ast.UnaryOp)) and not _loads_after(rest, k):
                lim = b.test.comparators[0]
                limv = lim.value if isinstance(lim, ast.Constant) else (-lim.operand.value if isinstance(lim.op, ast.USub) and isinstance(lim.operand, ast.Constant) else None)
                op = b.test.ops[0]
                ge0 = (isinstance(op, ast.GtE) and limv == 0) or (isinstance(op, ast.Gt) and limv == -1)
                gt0 = (isinstance(op, ast.Gt) and limv == 0) or (isinstance(op, ast.GtE) and limv == 1)
                X = None
                # A: k = len(X) - 1; while k >= 0: BODY; k -= 1
                if ge0 and isinstance(a.value, ast.BinOp) and isinstance(a.value.op, ast.Sub) and isinstance(a.value.right, ast.Constant) and a.value.right.value == 1 \
                        and _len_of(a.value.left) is not None and b.body and _is_step(b.body[-1], k, ast.Sub) \
                        and not _assigns(b.body[:-1], k) and not _loop_level_continue(b.body[:-1]):
                    X, body = _len_of(a.value.left), b.body[:-1]
                # B: k = len(X); while k > 0: k -= 1; BODY
                elif gt0 and _len_of(a.value) is not None and b.body and _is_step(b.body[0], k, ast.Sub) and not _assigns(b.body[1:], k):
                    X, body = _len_of(a.value), b.body[1:]
                if X is not None and body:
                    it = ast.Call(func=ast.Name(id="reversed", ctx=ast.Load()), args=[
                        ast.Call(func=ast.Name(id="range", ctx=ast.Load()), args=[ast.Call(func=ast.Name(id="len", ctx=ast.Load()), args=[X], keywords=[])], keywords=[])], keywords=[])
                    new = ast.For(target=ast.Name(id=k, ctx=ast.Store()), iter=it, body=body, orelse=[], lineno=b.lineno)
            # C: k = c0; for T in IT: BODY; k += 1
            elif isinstance(b, ast.For) and not b.orelse and isinstance(a.value, ast.Constant) and isinstance(a.value.value, int) and not isinstance(a.value.value, bool) \
                    and b.body and _is_step(b.body[-1], k, ast.Add) and not _assigns(b.body[:-1], k) and not _loop_level_continue(b.body[:-1]) \
                    and not _loads_after(rest, k) and k not in _names(b.iter) and k not in _names(b.target) and len(b.body) > 1:
                args = [b.iter] + ([ast.Constant(value=a.value.value)] if a.value.value != 0 else [])
                it = ast.Call(func=ast.Name(id="enumerate", ctx=ast.Load()), args=args, keywords=[])
                tgt = ast.Tuple(elts=[ast.Name(id=k, ctx=ast.Store()), b.target], ctx=ast.Store())
                new = ast.For(target=tgt, iter=it, body=b.body[:-1], orelse=[], lineno=b.lineno)
        if new is not None:
            ast.copy_location(new, b)
            ast.fix_missing_locations(new)
            out[i:i + 2] = [new]
            continue
        i += 1
    return out


# ---- N6: index loops over the amplitude vector → `for k, a in enumerate(self.amplitudes, 1): [if a != 0:] …`
def _index_iter(it, seqs):
    """(sequence text, only_nonzero) when ``it`` enumerates the (non-zero) indices of one of ``seqs``"""
    u = ast.unparse
    if isinstance(it, ast.Call) and isinstance(it.func, ast.Attribute) and it.func.attr == "tolist" and not it.args:
        it = it.func.value
    if isinstance(it, ast.Call) and isinstance(it.func, ast.Name) and it.func.id == "range" and len(it.args) == 1:
        x = _len_of(it.args[0])
        if x is not None and u(x) in seqs:
            return u(x), False
    if isinstance(it, ast.Call) and u(it.func) in ("np.flatnonzero", "numpy.flatnonzero") and len(it.args) == 1 and u(it.args[0]) in seqs:
        return u(it.args[0]), True
    if isinstance(it, ast.Subscript) and u(it.slice) == "0" and isinstance(it.value, ast.Call) and u(it.value.func) in ("np.nonzero", "np.where", "numpy.nonzero", "numpy.where") \
            and len(it.value.args) == 1:
        a = it.value.args[0]
        if u(a) in seqs:
            return u(a), True
        if isinstance(a, ast.Compare) and len(a.ops) == 1 and isinstance(a.ops[0], ast.NotEq) and u(a.left) in seqs and u(a.comparators[0]) in ("0", "0.0"):
            return u(a.left), True
    return None


class _IndexSubst(ast.NodeTransformer):
    def __init__(self, i, seqs, k, a):
        self.i, self.seqs, self.k, self.a = i, seqs, k, a

    def visit_Subscript(self, n):
        if isinstance(n.ctx, ast.Load) and ast.unparse(n.value) in self.seqs and isinstance(n.slice, ast.Name) and n.slice.id == self.i:
            return ast.copy_location(ast.Name(id=self.a, ctx=ast.Load()), n)
        return self.generic_visit(n)

    def visit_Name(self, n):
        if n.id == self.i and isinstance(n.ctx, ast.Load):
            return ast.copy_location(ast.BinOp(left=ast.Name(id=self.k, ctx=ast.Load()), op=ast.Sub(), right=ast.Constant(value=1)), n)
        return n


def norm_index_loops(stmts):
    out = list(stmts)
    seqs = {"self.amplitudes"}
    for j, s in enumerate(out):
        if isinstance(s, ast.Assign) and len(s.targets) == 1 and isinstance(s.targets[0], ast.Name) and ast.unparse(s.value) == "self.amplitudes" \
                and sum(1 for t in out for n in ast.walk(t) if isinstance(n, ast.Name) and n.id == s.targets[0].id and isinstance(n.ctx, ast.Store)) == 1:
            seqs.add(s.targets[0].id)
        if not (isinstance(s, ast.For) and not s.orelse and isinstance(s.target, ast.Name)):
            continue
        r = _index_iter(s.iter, seqs)
        if r is None:
            continue
        i = s.target.id
        if _assigns(s.body, i) or _loads_after(out[j + 1:], i):
            continue
        # stores through the index (S[i] = …) are not a read-only mode loop
        if any(isinstance(n, ast.Subscript) and isinstance(n.ctx, (ast.Store, ast.Del)) and ast.unparse(n.value) in seqs for t in s.body for n in ast.walk(t)):
            continue
        k, a = f"{i}_mode", f"{i}_amp"
        body = [_IndexSubst(i, seqs, k, a).visit(t) for t in s.body]
        if r[1]:
            body = [ast.If(test=ast.Compare(left=ast.Name(id=a, ctx=ast.Load()), ops=[ast.NotEq()], comparators=[ast.Constant(value=0)]), body=body, orelse=[])]
        it = ast.Call(func=ast.Name(id="enumerate", ctx=ast.Load()), args=[ast.parse("self.amplitudes", mode="eval").body, ast.Constant(value=1)], keywords=[])
        new = ast.For(target=ast.Tuple(elts=[ast.Name(id=k, ctx=ast.Store()), ast.Name(id=a, ctx=ast.Store())], ctx=ast.Store()), iter=it, body=body, orelse=[], lineno=s.lineno)
        ast.copy_location(new, s)
        ast.fix_missing_locations(new)
        out[j] = new
    return out


# ---- N7: loops over a literal dispatch table [(K1, F1), (K2, F2), …] are unrolled
class _NameSubst(ast.NodeTransformer):
    def __init__(self, mapping):
        self.mapping = mapping

    def visit_Name(self, n):
        if isinstance(n.ctx, ast.Load) and n.id in self.mapping:
            return ast.copy_location(copy.deepcopy(self.mapping[n.id]), n)
        return n


def _has_loop_exit(stmts):
    for s in stmts:
        if isinstance(s, (ast.Break, ast.Continue)):
            return True
        if isinstance(s, (ast.For, ast.While, ast.FunctionDef, ast.AsyncFunctionDef, ast.ClassDef)):
            continue
        for fld in ("body", "orelse", "finalbody"):
            b = getattr(s, fld, None)
            if isinstance(b, list) and b and isinstance(b[0], ast.stmt) and _has_loop_exit(b):
                return True
        for h in getattr(s, "handlers", []) or []:
            if _has_loop_exit(h.body):
                return True
    return False


def norm_table_loops(stmts):
    out = list(stmts)
    j = 0
    while j < len(out):
        s = out[j]
        j += 1
        if not (isinstance(s, ast.For) and not s.orelse and isinstance(s.target, ast.Tuple) and all(isinstance(e, ast.Name) for e in s.target.elts)):
            continue
        table = s.iter
        if isinstance(table, ast.Name):
            defs = [x for x in out[:j - 1] if isinstance(x, (ast.Assign, ast.AnnAssign)) and isinstance((x.targets[0] if isinstance(x, ast.Assign) else x.target), ast.Name)
                    and (x.targets[0] if isinstance(x, ast.Assign) else x.target).id == table.id]
            stores = sum(1 for t in out for n in ast.walk(t) if isinstance(n, ast.Name) and n.id == table.id and isinstance(n.ctx, ast.Store))
            if len(defs) != 1 or stores != 1 or defs[0].value is None:
                continue
            table = defs[0].value
        if not (isinstance(table, (ast.List, ast.Tuple)) and 1 <= len(table.elts) <= 8):
            continue
        k = len(s.target.elts)
        rows = table.elts
        if not all(isinstance(r, ast.Tuple) and len(r.elts) == k and all(isinstance(c, (ast.Name, ast.Attribute, ast.Constant)) for c in r.elts) for r in rows):
            continue
        # a dispatch table names at least one callable/class per row (plain data tables are left alone)
        if not all(any(isinstance(c, (ast.Name, ast.Attribute)) for c in r.elts) for r in rows):
            continue
        names = [e.id for e in s.target.elts]
        if _has_loop_exit(s.body) or any(_assigns(s.body, n) for n in names) or any(_loads_after(out[j:], n) for n in names):
            continue
        # a function created in the body reads the loop variables when it is *called* (late binding): substituting the
        # row's entries into it would change what the program does
        if any(isinstance(f_, (ast.Lambda, ast.FunctionDef)) and any(isinstance(x, ast.Name) and x.id in names for x in ast.walk(f_)) for b_ in s.body for f_ in ast.walk(b_)):
            continue
        unrolled = []
        for r in rows:
            mapping = dict(zip(names, r.elts))
            for b in s.body:
                nb = _NameSubst(mapping).visit(copy.deepcopy(b))
                ast.copy_location(nb, s)
                unrolled.append(nb)
        for u in unrolled:
            ast.fix_missing_locations(u)
        out[j - 1:j] = unrolled
        j = j - 1 + len(unrolled)
    return out


def _unconditional_walrus(test):
    """NamedExpr nodes of a test that are evaluated whenever the test is (not behind a short circuit / inside a comprehension)"""
    out, cond = [], []

    def rec(n, uncond):
        if isinstance(n, ast.NamedExpr):
            (out if uncond else cond).append(n)
            rec(n.value, uncond)
            return
        if isinstance(n, ast.BoolOp):
            for k, v in enumerate(n.values):
                rec(v, uncond and k == 0)
            return
        if isinstance(n, ast.IfExp):
            rec(n.test, uncond)
            rec(n.body, False)
            rec(n.orelse, False)
            return
        if isinstance(n, (ast.Lambda, ast.ListComp, ast.SetComp, ast.DictComp, ast.GeneratorExp)):
            for c in ast.walk(n):
                if isinstance(c, ast.NamedExpr):
                    cond.append(c)
            return
        for c in ast.iter_child_nodes(n):
            rec(c, uncond)

    rec(test, True)
    return out, cond


def hoist_walrus(stmts):
    """`if (x := E) …:` → `x = E; if x …:` and `while … (x := E) …: B` → `while True: x = E; if not …: break; B`"""
    out = []
    for s in stmts:
        if isinstance(s, (ast.If, ast.While)):
            unc, cond = _unconditional_walrus(s.test)
            if unc and not cond and all(isinstance(w.target, ast.Name) for w in unc) and not (isinstance(s, ast.While) and s.orelse):
                pre = [ast.copy_location(ast.Assign(targets=[ast.Name(id=w.target.id, ctx=ast.Store())], value=w.value, lineno=s.lineno), s) for w in unc]

                class _W(ast.NodeTransformer):
                    def visit_NamedExpr(self, n):
                        if any(n is w for w in unc):
                            return ast.copy_location(ast.Name(id=n.target.id, ctx=ast.Load()), n)
                        return self.generic_visit(n)

                # inner walruses first: their values may contain further walruses of the list (kept in source order)
                for p_ in pre:
                    p_.value = _W().visit(p_.value)
                test = _W().visit(s.test)
                for p_ in pre:
                    ast.fix_missing_locations(p_)
                if isinstance(s, ast.If):
                    s.test = test
                    out.extend(pre)
                    out.append(s)
                else:
                    if isinstance(test, ast.UnaryOp) and isinstance(test.op, ast.Not):
                        neg = test.operand  # `while not P` leaves the loop exactly when P holds
                    else:
                        neg = ExprNorm().visit(ast.copy_location(ast.UnaryOp(op=ast.Not(), operand=test), test))
                    brk = ast.copy_location(ast.If(test=neg, body=[ast.copy_location(ast.Break(), s)], orelse=[]), s)
                    s.test = ast.copy_location(ast.Constant(value=True), s)
                    s.body = pre + [brk] + list(s.body)
                    ast.fix_missing_locations(s)
                    out.append(s)
                continue
        out.append(s)
    return out


def norm_stmt(s):
    # for (a, b) in X  →  for _e in X: a = _e[0]; b = _e[1]   (X is a plain iterable, not zip / enumerate / items)
    if isinstance(s, ast.For) and isinstance(s.target, ast.Tuple) and all(isinstance(e, ast.Name) for e in s.target.elts) and len(s.target.elts) <= 1 \
            and isinstance(s.iter, ast.Call) and ast.unparse(s.iter.func).split(".")[-1] in ("find_objects",):
        names = [e.id for e in s.target.elts]
        el = "_e_" + "_".join(names)
        s.body = [ast.copy_location(ast.Assign(targets=[ast.Name(id=n_, ctx=ast.Store())], value=ast.Subscript(value=ast.Name(id=el, ctx=ast.Load()), slice=ast.Constant(value=i), ctx=ast.Load()),
                                               lineno=s.lineno), s) for i, n_ in enumerate(names)] + list(s.body)
        s.target = ast.copy_location(ast.Name(id=el, ctx=ast.Store()), s.target)
        ast.fix_missing_locations(s)
    for fld in ("body", "orelse", "finalbody"):
        b = getattr(s, fld, None)
        if isinstance(b, list) and b and isinstance(b[0], ast.stmt):
            setattr(s, fld, norm_block(b))
    for h in getattr(s, "handlers", []) or []:
        h.body = norm_block(h.body)


def _leaf_assigns(stmt, name):
    """every normal exit of `stmt` (an if / try statement) ends with `name = <expr>`: the list of those assignments"""
    out = []

    def block(b):
        if not b:
            return False
        last = b[-1]
        if isinstance(last, ast.Assign) and len(last.targets) == 1 and isinstance(last.targets[0], ast.Name) and last.targets[0].id == name:
            out.append((b, last))
            return True
        if isinstance(last, (ast.If, ast.Try)):
            return node(last)
        if isinstance(last, (ast.Raise,)):
            return True
        return False

    def node(s):
        if isinstance(s, ast.If):
            return bool(s.orelse) and block(s.body) and block(s.orelse)
        if isinstance(s, ast.Try):
            if s.finalbody:
                return False
            main = block(s.orelse) if s.orelse else block(s.body)
            return main and all(block(h.body) for h in s.handlers)
        return False

    return out if node(stmt) else None


def sink_single_exit(fdef):
    """`if c: …; r = A  else: …; r = B` followed by `return r`  →  the branches return A and B themselves (only in
    threshold_otsu-like value functions: the result variable is not read anywhere else)"""
    body = fdef.body
    if len(body) < 2 or not isinstance(body[-1], ast.Return) or not isinstance(body[-1].value, ast.Name) or not isinstance(body[-2], (ast.If, ast.Try)):
        return False
    name = body[-1].value.id
    loads = [x for x in ast.walk(fdef) if isinstance(x, ast.Name) and x.id == name and isinstance(x.ctx, ast.Load)]
    if len(loads) != 1:
        return False
    leaves = _leaf_assigns(body[-2], name)
    if not leaves:
        return False
    # in a try body the assignment's value may raise into the handlers either way; a return there is the same
    for blk, asg in leaves:
        blk[blk.index(asg)] = ast.copy_location(ast.Return(value=asg.value), asg)
    body.pop()
    return True


SINK_FUNCTIONS = {"threshold_otsu"}


def normalize_tree(tree: ast.Module) -> ast.Module:
    tree = ExprNorm().visit(tree)
    for f_ in ast.walk(tree):
        if isinstance(f_, ast.FunctionDef) and f_.name in SINK_FUNCTIONS:
            sink_single_exit(f_)
    tree.body = norm_block(tree.body)
    tree = ConstFold().visit(tree)
    ast.fix_missing_locations(tree)
    return tree


# --------------------------------------------------------------------------------- exits
def always_exits(block) -> bool:
    if not block:
        return False
    last = block[-1]
    if isinstance(last, (ast.Return, ast.Raise, ast.Continue, ast.Break)):
        return True
    if isinstance(last, ast.If) and last.orelse:
        return always_exits(last.body) and always_exits(last.orelse)
    return False


_RV = [0]


def _loop_with_returns(s):
    """the loop (s itself, or the last statement of a `with` block s) whose body returns from depth 0, else None"""
    loop = s
    if isinstance(s, ast.With) and s.body and isinstance(s.body[-1], (ast.For, ast.While)) and not any(_has_own_return(x) for x in s.body[:-1]):
        loop = s.body[-1]
    if not isinstance(loop, (ast.For, ast.While)) or loop.orelse:
        return None

    def scan(stmts, found):
        for x in stmts:
            if isinstance(x, ast.Return):
                found.append(x)
            elif isinstance(x, ast.Break):
                return False
            elif isinstance(x, (ast.For, ast.While)):
                if _has_own_return(x):
                    return False
            elif isinstance(x, (ast.FunctionDef, ast.AsyncFunctionDef, ast.ClassDef)):
                continue
            else:
                for fld in ("body", "orelse", "finalbody"):
                    if not scan(getattr(x, fld, []) or [], found):
                        return False
                for h in getattr(x, "handlers", []) or []:
                    if not scan(h.body, found):
                        return False
        return True

    found = []
    if not scan(loop.body, found) or not found or any(r.value is None for r in found):
        return None
    return loop


def _returns_to_break(stmts, rv, flag):
    out = []
    for x in stmts:
        if isinstance(x, ast.Return):
            out.append(ast.copy_location(ast.Assign(targets=[ast.Name(id=rv, ctx=ast.Store())], value=x.value, lineno=x.lineno), x))
            out.append(ast.copy_location(ast.Assign(targets=[ast.Name(id=flag, ctx=ast.Store())], value=ast.Constant(value=True), lineno=x.lineno), x))
            out.append(ast.copy_location(ast.Break(), x))
            continue
        if not isinstance(x, (ast.For, ast.While, ast.FunctionDef, ast.AsyncFunctionDef, ast.ClassDef)):
            x = copy.copy(x)
            for fld in ("body", "orelse", "finalbody"):
                b = getattr(x, fld, None)
                if isinstance(b, list) and b and isinstance(b[0], ast.stmt):
                    setattr(x, fld, _returns_to_break(b, rv, flag))
            if getattr(x, "handlers", None):
                x.handlers = [copy.copy(h) for h in x.handlers]
                for h in x.handlers:
                    h.body = _returns_to_break(h.body, rv, flag)
        out.append(x)
    return out


def structure_exits(stmts):
    """nest the statements following an always-exiting ``if`` into its other branch"""
    out = []
    for i, s in enumerate(stmts):
        # a loop that returns from its body, followed by the fallback: `for …: … return v` + `…; return w`
        #   →  found = False; for …: … rv = v; found = True; break;  if not found: …; rv = w;  return rv
        rest_ = list(stmts[i + 1:])
        lp_ = _loop_with_returns(s) if rest_ and isinstance(rest_[-1], ast.Return) and rest_[-1].value is not None and not any(_has_own_return(x) for x in rest_[:-1]) else None
        if lp_ is not None:
            _RV[0] += 1
            rv, flag = f"_rv{_RV[0]}", f"_rv{_RV[0]}_set"
            new_loop = copy.copy(lp_)
            new_loop.body = _returns_to_break(lp_.body, rv, flag)
            if lp_ is s:
                head = [new_loop]
            else:
                w_ = copy.copy(s)
                w_.body = list(s.body[:-1]) + [new_loop]
                head = [w_]
            init = ast.copy_location(ast.Assign(targets=[ast.Name(id=flag, ctx=ast.Store())], value=ast.Constant(value=False), lineno=s.lineno), s)
            fb = rest_[:-1] + [ast.copy_location(ast.Assign(targets=[ast.Name(id=rv, ctx=ast.Store())], value=rest_[-1].value, lineno=rest_[-1].lineno), rest_[-1])]
            tail_if = ast.copy_location(ast.If(test=ast.UnaryOp(op=ast.Not(), operand=ast.Name(id=flag, ctx=ast.Load())), body=fb, orelse=[]), rest_[0])
            final = ast.copy_location(ast.Return(value=ast.Name(id=rv, ctx=ast.Load())), rest_[-1])
            for x in [init, tail_if, final] + head:
                ast.fix_missing_locations(x)
            return out + [init] + head + [tail_if, final]
        if isinstance(s, ast.If):
            s = copy.copy(s)
            s.body = structure_exits(s.body)
            s.orelse = structure_exits(s.orelse)
            rest = stmts[i + 1:]
            if rest:
                if always_exits(s.body) and not always_exits(s.orelse):
                    s.orelse = structure_exits(list(s.orelse) + list(rest))
                    out.append(s)
                    return out
                if s.orelse and always_exits(s.orelse) and not always_exits(s.body):
                    s.body = structure_exits(list(s.body) + list(rest))
                    out.append(s)
                    return out
        elif isinstance(s, ast.Try) and not s.finalbody and not s.orelse and s.handlers and always_exits(s.body) and isinstance(s.body[-1], ast.Return) and stmts[i + 1:] \
                and not all(always_exits(h.body) for h in s.handlers):
            # the body always returns: what follows the try runs only after a handler that fell through
            s = copy.copy(s)
            s.handlers = [copy.copy(h) for h in s.handlers]
            for h in s.handlers:
                if not always_exits(h.body):
                    h.body = structure_exits(list(h.body) + copy.deepcopy(list(stmts[i + 1:])))
            out.append(s)
            return out
        elif isinstance(s, ast.Try) and not s.finalbody and s.handlers and all(always_exits(h.body) for h in s.handlers) and stmts[i + 1:] \
                and any(isinstance(x, ast.Return) for h in s.handlers for x in h.body):
            # the statements after a try whose handlers all leave run exactly when no handler ran: they are its else-clause
            # (an else-clause is not protected by the handlers, like the statements that follow the try)
            s = copy.copy(s)
            s.orelse = structure_exits(list(s.orelse) + list(stmts[i + 1:]))
            out.append(s)
            return out
        out.append(s)
    return out


# --------------------------------------------------------------------------------- inlining
ANCHOR_NAMES = {"_locate_droplets_in_mask_cartesian", "_locate_droplets_in_mask_spherical", "_locate_droplets_in_mask_cylindrical_single",
                "_locate_droplets_in_mask_cylindrical"}
ANCHOR_PREFIXES = ("_get_phase_field", "_make_merge_data", "_merge_data", "_image_deviation", "_write_hdf_dataset",
                   "_from_hdf_dataset", "_init_data", "_get_mpl_patch", "_args", "_data_array", "_load", "__")
MAX_HELPER_STMTS = 40
# a private function with exactly one call site in its module is the "worker" half of a wrapper/worker split, whatever its size
MAX_WORKER_STMTS = 200
# nested functions that exist on the reference tree are analysed in place (rules anchor on them); any *other* nested
# function is a helper introduced by a refactoring and is inlined at its call sites like a private module-level helper
NESTED_ANCHORS = {"match_tracks", "merge_data", "integrand", "get_position", "get_distance", "_image_deviation", "wrapper", "radius_from_volume",
                  "volume_from_radius", "volume_from_radius_impl", "_surface_from_radius", "ol_surface_from_radius", "surface_from_radius"}


TRANSPARENT_DECORATORS = {"register_jitable", "jit", "njit", "nb.jit", "nb.njit", "numba.jit", "numba.njit"}


def _decorator_kind(d):
    """'static' / 'class' / 'property' / 'plain' for decorators that do not change what a call of the helper computes"""
    t = ast.unparse(d.func if isinstance(d, ast.Call) else d)
    if t == "staticmethod":
        return "static"
    if t == "classmethod":
        return "class"
    if t == "property":
        return "property"
    if t in TRANSPARENT_DECORATORS:
        return "plain"
    return None


def _attrgetter_names(v):
    """attribute names of `operator.attrgetter("a", "b")`, else None"""
    if isinstance(v, ast.Call) and ast.unparse(v.func) in ("operator.attrgetter", "attrgetter") and v.args and not v.keywords \
            and all(isinstance(a, ast.Constant) and isinstance(a.value, str) for a in v.args):
        return [a.value for a in v.args]
    return None


class _Renamer(ast.NodeTransformer):
    def __init__(self, mapping):
        self.mapping = mapping

    def visit_Name(self, n):
        if n.id in self.mapping:
            return ast.copy_location(ast.Name(id=self.mapping[n.id], ctx=n.ctx), n)
        return n

    def visit_arg(self, n):
        return n


def _locals_of(fdef):
    names = {a.arg for a in fdef.args.posonlyargs + fdef.args.args + fdef.args.kwonlyargs}
    if fdef.args.vararg:
        names.add(fdef.args.vararg.arg)
    if fdef.args.kwarg:
        names.add(fdef.args.kwarg.arg)
    for n in ast.walk(fdef):
        if isinstance(n, ast.Name) and isinstance(n.ctx, ast.Store):
            names.add(n.id)
        elif isinstance(n, ast.ExceptHandler) and n.name:
            names.add(n.name)
    return names


def _count_stmts(body):
    return sum(1 for s in ast.walk(ast.Module(body=list(body), type_ignores=[])) if isinstance(s, ast.stmt))


def _has_own_return(stmt) -> bool:
    """a `return` of the function the statement belongs to (not of a function defined inside it)"""
    work = [stmt]
    while work:
        n = work.pop()
        if isinstance(n, ast.Return):
            return True
        for c in ast.iter_child_nodes(n):
            if not isinstance(c, (ast.FunctionDef, ast.AsyncFunctionDef, ast.Lambda, ast.ClassDef)):
                work.append(c)
    return False


def _returns_only_in_tail(block) -> bool:
    """after structure_exits: every Return is the last statement of its block and no
    Return sits inside a loop / try / with"""
    for i, s in enumerate(block):
        last = i == len(block) - 1
        if isinstance(s, ast.Return):
            if not last:
                return False
        elif isinstance(s, ast.If):
            if last:
                if not (_returns_only_in_tail(s.body) and _returns_only_in_tail(s.orelse)):
                    return False
            elif _has_own_return(s):
                return False
        elif isinstance(s, ast.Try) and last and not any(isinstance(x, ast.Return) for f_ in s.finalbody for x in ast.walk(f_)):
            # `try: return X  except E: …; return Y` — the value is computed under the same handlers after retargeting
            if s.orelse and any(isinstance(x, ast.Return) for b_ in s.body for x in ast.walk(b_)):
                return False
            blocks = [s.body] + [h.body for h in s.handlers] + ([s.orelse] if s.orelse else [])
            if not all(_returns_only_in_tail(b_) for b_ in blocks):
                return False
        elif isinstance(s, (ast.FunctionDef, ast.AsyncFunctionDef, ast.ClassDef)):
            continue
        elif isinstance(s, ast.With) and last:
            # `with cm: …; return X` — the value is computed inside the block either way
            if not _returns_only_in_tail(s.body):
                return False
        elif _has_own_return(s):
            return False
    return True


def _retarget(block, make_store, keep_return):
    """replace tail returns by stores (or keep them when the call itself was returned)"""
    out = []
    for s in block:
        if isinstance(s, ast.Return):
            if keep_return:
                out.append(s)
            elif s.value is not None:
                out.extend(make_store(s.value, s))
            else:
                out.extend(make_store(ast.Constant(value=None), s))
        elif isinstance(s, ast.If):
            s = copy.copy(s)
            s.body = _retarget(s.body, make_store, keep_return)
            s.orelse = _retarget(s.orelse, make_store, keep_return)
            out.append(s)
        elif isinstance(s, ast.With):
            s = copy.copy(s)
            s.body = _retarget(s.body, make_store, keep_return)
            out.append(s)
        elif isinstance(s, ast.Try):
            s = copy.copy(s)
            s.body = _retarget(s.body, make_store, keep_return)
            s.handlers = [copy.copy(h) for h in s.handlers]
            for h in s.handlers:
                h.body = _retarget(h.body, make_store, keep_return)
            s.orelse = _retarget(s.orelse, make_store, keep_return)
            out.append(s)
        else:
            out.append(s)
    return out


def _walk_no_nested(fdef):
    """nodes of a function body, not descending into nested functions / lambdas / classes"""
    work = list(fdef.body)
    while work:
        n = work.pop()
        yield n
        for c in ast.iter_child_nodes(n):
            if not isinstance(c, (ast.FunctionDef, ast.AsyncFunctionDef, ast.Lambda, ast.ClassDef)):
                work.append(c)


def _single_use(fdef, p) -> bool:
    """parameter p is read exactly once, at a place that is evaluated exactly once per call and before anything else can
    change what the argument expression means (first statement level: not in a loop, a comprehension element, a nested
    function or a branch)"""
    uses = [n for n in ast.walk(fdef) if isinstance(n, ast.Name) and n.id == p]
    if len(uses) != 1 or not isinstance(uses[0].ctx, ast.Load):
        return False
    u = uses[0]
    body = [s for s in fdef.body if not (isinstance(s, ast.Expr) and isinstance(s.value, ast.Constant))]
    if not body:
        return False
    first = body[0]
    if isinstance(first, (ast.If, ast.For, ast.While, ast.Try, ast.With, ast.FunctionDef, ast.ClassDef)):
        return False

    def once(node):
        """is u evaluated exactly once when node is evaluated"""
        if node is u:
            return True
        if isinstance(node, (ast.Lambda, ast.IfExp, ast.BoolOp)):
            return False
        if isinstance(node, (ast.ListComp, ast.SetComp, ast.GeneratorExp, ast.DictComp)):
            return once(node.generators[0].iter) if any(x is u for x in ast.walk(node.generators[0].iter)) else False
        for c in ast.iter_child_nodes(node):
            if any(x is u for x in ast.walk(c)):
                return once(c)
        return False

    return any(x is u for x in ast.walk(first)) and once(first)


def _tidy(stmts):
    """drop `x = x` and bare constants that inlining leaves behind; `if c: <nothing> else: B` becomes `if not c: B`"""
    out = []
    for s in stmts:
        if isinstance(s, ast.Assign) and len(s.targets) == 1 and isinstance(s.targets[0], ast.Name) and isinstance(s.value, ast.Name) and s.value.id == s.targets[0].id:
            continue
        if isinstance(s, ast.Assign) and len(s.targets) == 1 and isinstance(s.targets[0], ast.Tuple) and isinstance(s.value, ast.Tuple) \
                and ast.unparse(s.targets[0]) == ast.unparse(s.value):
            continue
        if isinstance(s, ast.Expr) and isinstance(s.value, ast.Constant):
            continue
        if isinstance(s, ast.If):
            s.body = _tidy(s.body)
            s.orelse = _tidy(s.orelse)
            if not s.body and not s.orelse:
                if any(isinstance(x, (ast.Call, ast.NamedExpr)) for x in ast.walk(s.test)):
                    out.append(ast.copy_location(ast.Expr(value=s.test), s))
                continue
            if not s.body:
                s.test = ExprNorm().visit(ast.copy_location(ast.UnaryOp(op=ast.Not(), operand=s.test), s.test))
                s.body, s.orelse = s.orelse, []
        elif isinstance(s, (ast.For, ast.While, ast.With)):
            s.body = _tidy(s.body) or [ast.copy_location(ast.Pass(), s)]
        elif isinstance(s, ast.Try):
            s.body = _tidy(s.body) or [ast.copy_location(ast.Pass(), s)]
            for h in s.handlers:
                h.body = _tidy(h.body) or [ast.copy_location(ast.Pass(), s)]
            s.orelse = _tidy(s.orelse)
        out.append(s)
    return out


def _blocks_all(fdef):
    """all statement lists inside a function, nested functions included"""
    out = []
    for n in ast.walk(fdef):
        for fld in ("body", "orelse", "finalbody"):
            b = getattr(n, fld, None)
            if isinstance(b, list) and b and isinstance(b[0], ast.stmt):
                out.append(b)
    return out


def _blocks_no_nested(fdef):
    """statement lists of a function, not descending into nested functions/classes"""
    out, work = [], [fdef.body]
    while work:
        b = work.pop()
        out.append(b)
        for x in b:
            if isinstance(x, (ast.FunctionDef, ast.AsyncFunctionDef, ast.ClassDef)):
                continue
            for fld in ("body", "orelse", "finalbody"):
                bb = getattr(x, fld, None)
                if isinstance(bb, list) and bb and isinstance(bb[0], ast.stmt):
                    work.append(bb)
            for h in getattr(x, "handlers", []) or []:
                work.append(h.body)
    return out


class Inliner:
    """inline calls to eligible private helpers inside one module"""

    def __init__(self, module_tree: ast.Module):
        self.funcs = {}  # name -> FunctionDef (module level)
        self.methods = {}  # (class name, method) -> FunctionDef
        self.bases = {}
        for s in module_tree.body:
            if isinstance(s, ast.FunctionDef):
                self.funcs[s.name] = s
            elif isinstance(s, ast.ClassDef):
                self.bases[s.name] = [b.id for b in s.bases if isinstance(b, ast.Name)]
                for m in s.body:
                    if isinstance(m, ast.FunctionDef):
                        self.methods[(s.name, m.name)] = m
        self.counter = 0
        self.call_counts = {}  # private function / method name -> number of call sites in the module
        for n in ast.walk(module_tree):
            if isinstance(n, ast.Call):
                nm = n.func.id if isinstance(n.func, ast.Name) else (n.func.attr if isinstance(n.func, ast.Attribute) else None)
                if nm and nm.startswith("_"):
                    self.call_counts[nm] = self.call_counts.get(nm, 0) + 1
        self.local = {}  # nested helper name -> FunctionDef (while the enclosing function is processed)
        self.taken = set()  # names in use in the function that is being processed
        self.current = None  # the top-level function that is being processed
        self.depth = 0
        # module-level literal tables ((K1, F1), (K2, F2), …) that nothing rebinds or mutates
        self.module_tables = {}
        mod_stores = {}
        for n in ast.walk(module_tree):
            if isinstance(n, ast.Name) and isinstance(n.ctx, (ast.Store, ast.Del)):
                mod_stores[n.id] = mod_stores.get(n.id, 0) + 1
        mutated_ = {c.func.value.id for c in ast.walk(module_tree) if isinstance(c, ast.Call) and isinstance(c.func, ast.Attribute) and isinstance(c.func.value, ast.Name)
                    and c.func.attr in ("append", "extend", "insert", "pop", "remove", "clear", "sort", "reverse", "update")}
        for st_ in module_tree.body:
            tg_ = st_.targets[0] if isinstance(st_, ast.Assign) and len(st_.targets) == 1 else (st_.target if isinstance(st_, ast.AnnAssign) else None)
            v_ = getattr(st_, "value", None)
            if isinstance(tg_, ast.Name) and isinstance(v_, (ast.Tuple, ast.List)) and v_.elts and mod_stores.get(tg_.id) == 1 and tg_.id not in mutated_ \
                    and all(isinstance(r_, ast.Tuple) and all(isinstance(c_, (ast.Name, ast.Attribute, ast.Constant)) for c_ in r_.elts) for r_ in v_.elts):
                self.module_tables[tg_.id] = v_
        self.module_getters = {}
        for st_ in module_tree.body:
            tg_ = st_.targets[0] if isinstance(st_, ast.Assign) and len(st_.targets) == 1 else None
            if isinstance(tg_, ast.Name) and mod_stores.get(tg_.id) == 1 and _attrgetter_names(st_.value) is not None:
                self.module_getters[tg_.id] = _attrgetter_names(st_.value)
        self.tuples = {}  # NamedTuple class name -> field names
        for s in module_tree.body:
            if isinstance(s, ast.ClassDef) and any(ast.unparse(b).split(".")[-1] == "NamedTuple" for b in s.bases):
                self.tuples[s.name] = [(m.target.id, m.value) for m in s.body if isinstance(m, ast.AnnAssign) and isinstance(m.target, ast.Name)]

    def eligible(self, name, fdef) -> bool:
        if self.local.get(name) is fdef:
            pass
        elif not name.startswith("_") or name in ANCHOR_NAMES or any(name.startswith(p) for p in ANCHOR_PREFIXES):
            return False
        if any(_decorator_kind(d) is None for d in fdef.decorator_list):
            return False
        if _count_stmts(fdef.body) > (MAX_WORKER_STMTS if self.call_counts.get(name, 0) == 1 else MAX_HELPER_STMTS):
            return False
        for n in ast.walk(fdef):
            if isinstance(n, (ast.Yield, ast.YieldFrom, ast.Await, ast.Global, ast.Nonlocal)):
                return False
            if isinstance(n, ast.Call) and isinstance(n.func, ast.Name) and n.func.id == name:
                return False
        body = structure_exits([s for s in fdef.body if not (isinstance(s, ast.Expr) and isinstance(s.value, ast.Constant))])
        return _returns_only_in_tail(body)

    def resolve(self, call, cls_name):
        f = call.func
        if isinstance(f, ast.Name) and f.id in self.local:
            return f.id, self.local[f.id], None
        if isinstance(f, ast.Name) and f.id in self.funcs:
            return f.id, self.funcs[f.id], None
        if isinstance(f, ast.Attribute) and isinstance(f.value, ast.Name):
            start = None
            if f.value.id in ("self", "cls") and cls_name:
                start = cls_name
            elif f.value.id in self.bases:
                start = f.value.id  # ClassName._helper(…): static and class methods only
            if start is None:
                return None
            seen, work = set(), [start]
            while work:
                c = work.pop(0)
                if c in seen:
                    continue
                seen.add(c)
                if (c, f.attr) in self.methods:
                    m = self.methods[(c, f.attr)]
                    kinds = {_decorator_kind(d) for d in m.decorator_list}
                    if "property" in kinds and not getattr(call, "_property_read", False):
                        return None  # calling the value of a property
                    if "static" in kinds:
                        return f.attr, m, None
                    if "class" in kinds:
                        return f.attr, m, "cls" if f.value.id == "cls" else ("type(self)" if f.value.id == "self" else f.value.id)
                    if f.value.id in ("self", "cls"):
                        return f.attr, m, f.value.id
                    return None
                work.extend(self.bases.get(c, []))
        return None

    def expand_call(self, call, cls_name, store, keep_return, at, ret_target=None):
        """statements replacing a call; ``store(value, at)`` builds the result store"""
        r = self.resolve(call, cls_name)
        if r is None:
            return None
        name, fdef, recv = r
        if not self.eligible(name, fdef):
            return None
        if any(isinstance(a, ast.Starred) for a in call.args) or any(k.arg is None for k in call.keywords):
            return None
        self.counter += 1
        suffix = f"__{name.strip('_')}{self.counter}"
        g = copy.deepcopy(fdef)
        params = [a.arg for a in g.args.posonlyargs + g.args.args]
        kwonly = [a.arg for a in g.args.kwonlyargs]
        if g.args.vararg or g.args.kwarg:
            return None
        bind = {}
        pos = list(params)
        if recv is not None and pos:
            bind[pos[0]] = ast.parse(recv, mode="eval").body
            pos = pos[1:]
        if len(call.args) > len(pos):
            return None
        for p, a in zip(pos, call.args):
            bind[p] = a
        for k in call.keywords:
            if k.arg in bind or k.arg not in params + kwonly:
                return None
            bind[k.arg] = k.value
        defaults = dict(zip(params[len(params) - len(g.args.defaults):], g.args.defaults))
        defaults.update({a: d for a, d in zip(kwonly, g.args.kw_defaults) if d is not None})
        for p in params + kwonly:
            if p not in bind:
                if p in defaults:
                    bind[p] = defaults[p]
                else:
                    return None
        locs = _locals_of(g)
        mapping = {}
        pre = []
        assigned = {n.id for n in ast.walk(g) if isinstance(n, ast.Name) and isinstance(n.ctx, ast.Store)}
        arg_names = {n.id for a in bind.values() for n in ast.walk(a) if isinstance(n, ast.Name)}
        free = {n.id for n in ast.walk(g) if isinstance(n, ast.Name)} - locs
        taken = self.taken

        def fresh(nm):
            """the helper's own name when the caller does not use it (an extracted block keeps its variable names)"""
            if nm not in taken and nm not in arg_names and nm not in free:
                taken.add(nm)
                return nm
            return nm + suffix

        # the variable that carries the result: the caller's target takes its place (`x = helper()` with `return x'` → x' is x)
        ret_map = {}
        rets = [n for n in _walk_no_nested(g) if isinstance(n, ast.Return)]
        if ret_target is not None and rets:
            tnames = [ret_target] if isinstance(ret_target, ast.Name) else (list(ret_target.elts) if isinstance(ret_target, ast.Tuple) else [])
            if tnames and all(isinstance(t, ast.Name) for t in tnames) and len({t.id for t in tnames}) == len(tnames):
                cand = None
                for rt in rets:
                    v = rt.value
                    vs = [v] if len(tnames) == 1 else (list(v.elts) if isinstance(v, ast.Tuple) and len(v.elts) == len(tnames) else None)
                    if vs is None:
                        cand = False
                        break
                    if all(isinstance(x, ast.Name) for x in vs):
                        ids = tuple(x.id for x in vs)
                        if cand is None:
                            cand = ids
                        elif cand != ids:
                            cand = False
                            break
                    elif any(isinstance(x, ast.Name) and x.id in locs for x in vs) or len(tnames) > 1:
                        cand = False
                        break
                if cand and len(set(cand)) == len(cand) and all(c in locs and c not in params + kwonly for c in cand):
                    tid = [t.id for t in tnames]
                    if not any(t in arg_names or t in free or (t in locs and t not in cand) for t in tid):
                        ret_map = dict(zip(cand, tid))
        for p, a in bind.items():
            simple = isinstance(a, (ast.Name, ast.Constant)) or (isinstance(a, ast.Attribute) and isinstance(a.value, ast.Name))
            if not simple and p not in assigned and _single_use(g, p):
                simple = True  # evaluated once, where the helper uses it
            if isinstance(a, ast.Name) and a.id == p and p in assigned and self._dead_after(a.id, at):
                mapping[p] = p  # the worker rebinds its parameter; the caller's variable of the same name is not read afterwards
                continue
            if simple and p not in assigned:
                mapping[p] = None  # substitute directly
            else:
                mapping[p] = fresh(p)
                pre.append(ast.copy_location(ast.Assign(targets=[ast.Name(id=mapping[p], ctx=ast.Store())], value=a, lineno=at.lineno), at))
        for l in sorted(locs):
            if l not in mapping:
                mapping[l] = ret_map.get(l) or fresh(l)

        class Sub(ast.NodeTransformer):
            def visit_Name(self, n):
                if n.id in mapping:
                    if mapping[n.id] is None:
                        return copy.deepcopy(bind[n.id]) if isinstance(n.ctx, ast.Load) else n
                    return ast.copy_location(ast.Name(id=mapping[n.id], ctx=n.ctx), n)
                return n

        body = [s for s in g.body if not (isinstance(s, ast.Expr) and isinstance(s.value, ast.Constant) and isinstance(s.value.value, str))]
        body = structure_exits(body)
        body = [Sub().visit(s) for s in body]
        body = _retarget(body, store, keep_return)
        return _tidy(pre + body)

    def _dead_after(self, name, at) -> bool:
        """the caller does not read `name` after the statement `at` (and `at` is not inside a loop)"""
        f = self.current
        if f is None:
            return False
        for lp in ast.walk(f):
            if isinstance(lp, (ast.For, ast.While)) and any(x is at for x in ast.walk(lp)):
                return False
        end = getattr(at, "end_lineno", getattr(at, "lineno", 0))
        inside = {id(x) for x in ast.walk(at)}
        for x in ast.walk(f):
            if isinstance(x, ast.Name) and x.id == name and isinstance(x.ctx, ast.Load) and id(x) not in inside and getattr(x, "lineno", 0) > end - 0 and getattr(x, "lineno", 0) >= getattr(at, "lineno", 0) and id(x) not in inside:
                if getattr(x, "lineno", 0) > end:
                    return False
        return True

    # -------------------------------------------------------------- preparation of one top-level function
    def prepare(self, fdef, cls_name):
        """rewrites that only spell out what a construct means, so that the inliner and the rules see plain calls:
        `f(**d)` with a literal dict d, `f(*x[-2:])`, `map(helper, a, b)`, reads of private properties"""
        inl = self
        # ---- d = {"k": v, …} used only as **d
        stores = {}
        for n in ast.walk(fdef):
            if isinstance(n, ast.Name) and isinstance(n.ctx, (ast.Store, ast.Del)):
                stores.setdefault(n.id, []).append(n)
        loops = [n for n in ast.walk(fdef) if isinstance(n, (ast.For, ast.While))]
        dicts = {}
        for blk in _blocks_all(fdef):
            for st in blk:
                tgt = None
                if isinstance(st, ast.Assign) and len(st.targets) == 1 and isinstance(st.targets[0], ast.Name):
                    tgt = st.targets[0]
                elif isinstance(st, ast.AnnAssign) and isinstance(st.target, ast.Name) and st.value is not None:
                    tgt = st.target
                if tgt is None or not isinstance(st.value, ast.Dict) or len(stores.get(tgt.id, [])) != 1:
                    continue
                d = st.value
                if not d.keys or not all(isinstance(k, ast.Constant) and isinstance(k.value, str) for k in d.keys):
                    continue
                if any(any(x is st for x in ast.walk(lp)) for lp in loops):
                    continue
                # the values mean the same at the calls as at the definition: their names are not assigned afterwards
                stable = True
                for v in d.values:
                    for x in ast.walk(v):
                        if isinstance(x, ast.Name) and any(getattr(w, "lineno", 0) >= st.lineno for w in stores.get(x.id, [])):
                            stable = False
                        if isinstance(x, (ast.Call, ast.NamedExpr, ast.Yield, ast.Await)):
                            stable = False
                if stable:
                    dicts[tgt.id] = (st, d)
        if dicts:
            star_uses = {}
            for c in ast.walk(fdef):
                if isinstance(c, ast.Call):
                    for k in c.keywords:
                        if k.arg is None and isinstance(k.value, ast.Name) and k.value.id in dicts:
                            star_uses.setdefault(k.value.id, []).append((c, k))
            for nm, (st, d) in dicts.items():
                loads = [n for n in ast.walk(fdef) if isinstance(n, ast.Name) and n.id == nm and isinstance(n.ctx, ast.Load)]
                uses = star_uses.get(nm, [])
                if not uses or len(loads) != len(uses):
                    continue  # the dict is also used as an object
                for c, k in uses:
                    i = c.keywords.index(k)
                    c.keywords[i:i + 1] = [ast.keyword(arg=kk.value, value=copy.deepcopy(vv)) for kk, vv in zip(d.keys, d.values)]
                for blk in _blocks_all(fdef):
                    if st in blk:
                        blk[blk.index(st)] = ast.copy_location(ast.Pass(), st)

        # ---- f(*x[-k:]) with a literal k: the last k elements, one by one
        for c in ast.walk(fdef):
            if isinstance(c, ast.Call):
                args = []
                for a in c.args:
                    v = a.value if isinstance(a, ast.Starred) else None
                    if v is not None and isinstance(v, ast.Subscript) and isinstance(v.slice, ast.Slice) and v.slice.upper is None and v.slice.step is None \
                            and isinstance(v.slice.lower, ast.UnaryOp) and isinstance(v.slice.lower.op, ast.USub) and isinstance(v.slice.lower.operand, ast.Constant) \
                            and isinstance(v.slice.lower.operand.value, int) and 0 < v.slice.lower.operand.value <= 4 and isinstance(v.value, ast.Name):
                        k = v.slice.lower.operand.value
                        for j in range(k, 0, -1):
                            args.append(ast.copy_location(ast.Subscript(value=copy.deepcopy(v.value), slice=ast.UnaryOp(op=ast.USub(), operand=ast.Constant(value=j)), ctx=ast.Load()), a))
                    else:
                        args.append(a)
                c.args = args

        # ---- name = functools.partial(_helper, a, k=v): a local function that calls the helper with the bound arguments
        for blk in _blocks_all(fdef):
            for i, st in enumerate(list(blk)):
                tgt = None
                if isinstance(st, ast.Assign) and len(st.targets) == 1 and isinstance(st.targets[0], ast.Name):
                    tgt = st.targets[0]
                elif isinstance(st, ast.AnnAssign) and isinstance(st.target, ast.Name) and st.value is not None:
                    tgt = st.target
                v = getattr(st, "value", None)
                if tgt is None or not (isinstance(v, ast.Call) and ast.unparse(v.func) in ("functools.partial", "partial") and v.args and isinstance(v.args[0], ast.Name)):
                    continue
                hname = v.args[0].id
                hdef = self.funcs.get(hname)
                if hdef is None or not self.eligible(hname, hdef) or any(isinstance(a, ast.Starred) for a in v.args) or any(k.arg is None for k in v.keywords):
                    continue
                if hdef.args.vararg or hdef.args.kwarg:
                    continue
                pos = hdef.args.posonlyargs + hdef.args.args
                bound = v.args[1:]
                kws = {k.arg for k in v.keywords}
                if len(bound) > len(pos) or any(k not in [a.arg for a in pos + hdef.args.kwonlyargs] for k in kws):
                    continue
                n_pos = len(pos)
                defaults = dict(zip([a.arg for a in pos[n_pos - len(hdef.args.defaults):]], hdef.args.defaults))
                rest = [a for a in pos[len(bound):] if a.arg not in kws]
                new_defaults = []
                seen_default = False
                okd = True
                for a in rest:
                    if a.arg in defaults:
                        new_defaults.append(copy.deepcopy(defaults[a.arg]))
                        seen_default = True
                    elif seen_default:
                        okd = False
                if not okd:
                    continue
                kwo = [(a, d) for a, d in zip(hdef.args.kwonlyargs, hdef.args.kw_defaults) if a.arg not in kws]
                call = ast.Call(func=ast.Name(id=hname, ctx=ast.Load()),
                                args=[copy.deepcopy(b) for b in bound] + [ast.Name(id=a.arg, ctx=ast.Load()) for a in rest],
                                keywords=[ast.keyword(arg=k.arg, value=copy.deepcopy(k.value)) for k in v.keywords] + [ast.keyword(arg=a.arg, value=ast.Name(id=a.arg, ctx=ast.Load())) for a, _ in kwo])
                is_proc = not any(isinstance(x, ast.Return) and x.value is not None for x in _walk_no_nested(hdef))
                body = [ast.Expr(value=call)] if is_proc else [ast.Return(value=call)]
                fd = ast.FunctionDef(name=tgt.id, args=ast.arguments(posonlyargs=[], args=[ast.arg(arg=a.arg) for a in rest], vararg=None, kwonlyargs=[ast.arg(arg=a.arg) for a, _ in kwo],
                                                                     kw_defaults=[copy.deepcopy(d) if d is not None else None for _, d in kwo], kwarg=None, defaults=new_defaults),
                                     body=body, decorator_list=[], returns=None, type_comment=None, lineno=st.lineno)
                if hasattr(ast, "TypeVar"):
                    fd.type_params = []
                blk[blk.index(st)] = ast.fix_missing_locations(ast.copy_location(fd, st))

        # ---- for T in _generator(args): BODY  →  the generator's loop with BODY in place of its yield
        used_names = {n.id for n in ast.walk(fdef) if isinstance(n, ast.Name)}
        for blk in _blocks_all(fdef):
            for st in list(blk):
                if not (isinstance(st, ast.For) and not st.orelse and isinstance(st.iter, ast.Call)):
                    continue
                recv = None
                if isinstance(st.iter.func, ast.Name):
                    gname = st.iter.func.id
                    gdef = self.funcs.get(gname)
                elif isinstance(st.iter.func, ast.Attribute) and isinstance(st.iter.func.value, ast.Name) and st.iter.func.value.id == "self" and cls_name:
                    gname = st.iter.func.attr
                    gdef, work, seen_ = None, [cls_name], set()
                    while work and gdef is None:
                        c_ = work.pop(0)
                        if c_ in seen_:
                            continue
                        seen_.add(c_)
                        gdef = self.methods.get((c_, gname))
                        work.extend(self.bases.get(c_, []))
                    recv = "self"
                else:
                    continue
                if gdef is None or not gname.startswith("_") or gname.startswith("__") or gdef.decorator_list or gdef.args.vararg or gdef.args.kwarg:
                    continue
                if not any(isinstance(x, (ast.Yield, ast.YieldFrom)) for x in ast.walk(gdef)):
                    continue
                rep = self._inline_generator(st, gdef, used_names, recv)
                if rep is not None:
                    k = blk.index(st)
                    blk[k:k + 1] = rep

        # ---- map(helper, a, b) → (helper(x0, x1) for x0, x1 in zip(a, b))
        nested_defs = {x.name: x for x in ast.walk(fdef) if isinstance(x, ast.FunctionDef) and x is not fdef and x.name not in NESTED_ANCHORS}

        class M(ast.NodeTransformer):
            def visit_Call(self, n):
                self.generic_visit(n)
                if isinstance(n.func, ast.Name) and n.func.id == "map" and len(n.args) >= 2 and not n.keywords and not any(isinstance(a, ast.Starred) for a in n.args):
                    f = n.args[0]
                    # map(F, …) applies F to the items in order, lazily: for any named callable it is the generator below
                    known = isinstance(f, (ast.Name, ast.Attribute))
                    if known:
                        inl.counter += 1
                        vs = [f"_m{inl.counter}_{i}" for i in range(len(n.args) - 1)]
                        call = ast.Call(func=f, args=[ast.Name(id=v, ctx=ast.Load()) for v in vs], keywords=[])
                        if len(vs) == 1:
                            tgt, it = ast.Name(id=vs[0], ctx=ast.Store()), n.args[1]
                        else:
                            tgt = ast.Tuple(elts=[ast.Name(id=v, ctx=ast.Store()) for v in vs], ctx=ast.Store())
                            it = ast.Call(func=ast.Name(id="zip", ctx=ast.Load()), args=list(n.args[1:]), keywords=[])
                        g = ast.GeneratorExp(elt=call, generators=[ast.comprehension(target=tgt, iter=it, ifs=[], is_async=0)])
                        return ast.fix_missing_locations(ast.copy_location(g, n))
                # itertools.starmap(F, zip(a, b)) → (F(x0, x1) for x0, x1 in zip(a, b))
                if ast.unparse(n.func) in ("itertools.starmap", "starmap") and len(n.args) == 2 and not n.keywords and isinstance(n.args[0], (ast.Name, ast.Attribute)):
                    f, it = n.args
                    inl.counter += 1
                    if isinstance(it, ast.Call) and ast.unparse(it.func) == "zip" and it.args and not it.keywords and not any(isinstance(a, ast.Starred) for a in it.args):
                        vs = [f"_m{inl.counter}_{i}" for i in range(len(it.args))]
                        call = ast.Call(func=f, args=[ast.Name(id=v, ctx=ast.Load()) for v in vs], keywords=[])
                        tgt = ast.Tuple(elts=[ast.Name(id=v, ctx=ast.Store()) for v in vs], ctx=ast.Store()) if len(vs) > 1 else ast.Name(id=vs[0], ctx=ast.Store())
                        if len(vs) == 1:
                            it = it.args[0]
                    else:
                        v = f"_m{inl.counter}"
                        call = ast.Call(func=f, args=[ast.Starred(value=ast.Name(id=v, ctx=ast.Load()), ctx=ast.Load())], keywords=[])
                        tgt = ast.Name(id=v, ctx=ast.Store())
                    g = ast.GeneratorExp(elt=call, generators=[ast.comprehension(target=tgt, iter=it, ifs=[], is_async=0)])
                    return ast.fix_missing_locations(ast.copy_location(g, n))
                # zip(itertools.count(k), X) → enumerate(X, k)
                if isinstance(n.func, ast.Name) and n.func.id == "zip" and len(n.args) == 2 and not n.keywords and isinstance(n.args[0], ast.Call) \
                        and ast.unparse(n.args[0].func) in ("itertools.count", "count") and len(n.args[0].args) <= 1 and not n.args[0].keywords:
                    start = n.args[0].args[0] if n.args[0].args else ast.Constant(value=0)
                    e = ast.Call(func=ast.Name(id="enumerate", ctx=ast.Load()), args=[n.args[1]] + ([start] if not (isinstance(start, ast.Constant) and start.value == 0) else []), keywords=[])
                    return ast.fix_missing_locations(ast.copy_location(e, n))
                return n

        M().visit(fdef)

        # ---- callback + args:  quad(_helper, …, args=(a, b))  →  a local function that calls the helper with (x…, a, b)
        for blk in _blocks_all(fdef):
            for st in list(blk):
                if isinstance(st, (ast.FunctionDef, ast.ClassDef, ast.If, ast.For, ast.While, ast.Try, ast.With)):
                    continue
                for c in [x for x in ast.walk(st) if isinstance(x, ast.Call)]:
                    kw = [k for k in c.keywords if k.arg == "args"]
                    if len(kw) != 1 or not isinstance(kw[0].value, ast.Tuple) or not c.args or not isinstance(c.args[0], ast.Name):
                        continue
                    hname = c.args[0].id
                    hdef = self.funcs.get(hname)
                    if hdef is None or not hname.startswith("_") or hdef.args.vararg or hdef.args.kwarg or hdef.args.kwonlyargs or hdef.decorator_list:
                        continue
                    extra = kw[0].value.elts
                    pos = hdef.args.posonlyargs + hdef.args.args
                    if len(extra) >= len(pos) or any(isinstance(e_, ast.Starred) for e_ in extra):
                        continue
                    lead = pos[:len(pos) - len(extra)]
                    self.counter += 1
                    bname = f"{hname.strip('_')}_bound{self.counter}"
                    call = ast.Call(func=ast.Name(id=hname, ctx=ast.Load()), args=[ast.Name(id=a_.arg, ctx=ast.Load()) for a_ in lead] + [copy.deepcopy(e_) for e_ in extra], keywords=[])
                    fd = ast.FunctionDef(name=bname, args=ast.arguments(posonlyargs=[], args=[ast.arg(arg=a_.arg) for a_ in lead], vararg=None, kwonlyargs=[], kw_defaults=[], kwarg=None, defaults=[]),
                                         body=[ast.Return(value=call)], decorator_list=[], returns=None, type_comment=None, lineno=st.lineno)
                    if hasattr(ast, "TypeVar"):
                        fd.type_params = []
                    ast.copy_location(fd, st)
                    ast.fix_missing_locations(fd)
                    c.args[0] = ast.copy_location(ast.Name(id=bname, ctx=ast.Load()), c.args[0])
                    c.keywords = [k for k in c.keywords if k.arg != "args"]
                    blk.insert(blk.index(st), fd)

        # ---- F = _helper; A = (a, b) per branch and calls F(*A)  →  a local function F() per branch that calls the helper with (a, b)
        f_stores, a_loads = {}, {}
        for x in ast.walk(fdef):
            if isinstance(x, ast.Assign) and len(x.targets) == 1 and isinstance(x.targets[0], ast.Name) and isinstance(x.value, ast.Name) and x.value.id in self.funcs and x.value.id.startswith("_"):
                f_stores.setdefault(x.targets[0].id, []).append(x)
        for F, asgs in f_stores.items():
            bare_ann = {id(x.target) for x in ast.walk(fdef) if isinstance(x, ast.AnnAssign) and x.value is None}
            all_stores = [x for x in ast.walk(fdef) if isinstance(x, ast.Name) and x.id == F and isinstance(x.ctx, ast.Store) and id(x) not in bare_ann]
            if len(all_stores) != len(asgs):
                continue
            calls = [c for c in ast.walk(fdef) if isinstance(c, ast.Call) and isinstance(c.func, ast.Name) and c.func.id == F]
            loads = [x for x in ast.walk(fdef) if isinstance(x, ast.Name) and x.id == F and isinstance(x.ctx, ast.Load)]
            if not calls or len(loads) != len(calls):
                continue
            if not all(len(c.args) == 1 and isinstance(c.args[0], ast.Starred) and isinstance(c.args[0].value, ast.Name) and not c.keywords for c in calls):
                continue
            A = calls[0].args[0].value.id
            if any(c.args[0].value.id != A for c in calls):
                continue
            a_uses = [x for x in ast.walk(fdef) if isinstance(x, ast.Name) and x.id == A and isinstance(x.ctx, ast.Load)]
            if len(a_uses) != len(calls):
                continue
            plan = []
            okp = True
            for asg in asgs:
                blk = next((b for b in _blocks_all(fdef) if asg in b), None)
                tup = [x for x in (blk or []) if isinstance(x, ast.Assign) and len(x.targets) == 1 and isinstance(x.targets[0], ast.Name) and x.targets[0].id == A and isinstance(x.value, ast.Tuple)]
                if blk is None or len(tup) != 1:
                    okp = False
                    break
                plan.append((blk, asg, tup[0]))
            a_stores = [x for x in ast.walk(fdef) if isinstance(x, ast.Name) and x.id == A and isinstance(x.ctx, ast.Store) and id(x) not in bare_ann]
            if not okp or len(a_stores) != len(plan):
                continue
            for blk, asg, tup in plan:
                call = ast.Call(func=ast.Name(id=asg.value.id, ctx=ast.Load()), args=[copy.deepcopy(e_) for e_ in tup.value.elts], keywords=[])
                fd = ast.FunctionDef(name=F, args=ast.arguments(posonlyargs=[], args=[], vararg=None, kwonlyargs=[], kw_defaults=[], kwarg=None, defaults=[]),
                                     body=[ast.Return(value=call)], decorator_list=[], returns=None, type_comment=None, lineno=asg.lineno)
                if hasattr(ast, "TypeVar"):
                    fd.type_params = []
                ast.copy_location(fd, asg)
                ast.fix_missing_locations(fd)
                blk[blk.index(asg)] = fd
                blk[blk.index(tup)] = ast.copy_location(ast.Pass(), tup)
            for c in calls:
                c.args = []
            # annotations of the two variables (`F: Callable`, `A: tuple`) without a value carry no behaviour
            for blk in _blocks_all(fdef):
                blk[:] = [x for x in blk if not (isinstance(x, ast.AnnAssign) and x.value is None and isinstance(x.target, ast.Name) and x.target.id in (F, A))] or [ast.Pass()]

        # ---- loops over a module-level literal table: the table's rows stand in the loop header (N7 then unrolls them)
        local_stores = {x.id for x in ast.walk(fdef) if isinstance(x, ast.Name) and isinstance(x.ctx, (ast.Store, ast.Del))}
        touched = False
        for lp in ast.walk(fdef):
            if isinstance(lp, ast.For) and isinstance(lp.iter, ast.Name) and lp.iter.id in self.module_tables and lp.iter.id not in local_stores:
                lp.iter = copy.deepcopy(self.module_tables[lp.iter.id])
                touched = True
        if touched:
            for blk in _blocks_all(fdef):
                if any(isinstance(x, ast.For) for x in blk):
                    blk[:] = norm_block(blk)

        # ---- dictionary dispatch: D = {k1: f1, k2: f2}; T = D.get(X); … T(args) …  →  the call spelled out per key
        sc, lc = {}, {}
        for x in ast.walk(fdef):
            if isinstance(x, ast.Name):
                (sc if isinstance(x.ctx, (ast.Store, ast.Del)) else lc).setdefault(x.id, []).append(x)
        for blk in _blocks_all(fdef):
            for st in list(blk):
                tg = st.targets[0] if isinstance(st, ast.Assign) and len(st.targets) == 1 else (st.target if isinstance(st, ast.AnnAssign) else None)
                dv = getattr(st, "value", None)
                if not (isinstance(tg, ast.Name) and isinstance(dv, ast.Dict) and dv.keys and len(sc.get(tg.id, [])) == 1):
                    continue
                if not all(isinstance(k, ast.Constant) for k in dv.keys) or not all(isinstance(v_, (ast.Name, ast.Attribute)) for v_ in dv.values):
                    continue
                D = tg.id
                # every use of D is one lookup `T = D.get(X[, None])` / `T = D[X]`
                lookups = []
                okD = True
                for u in lc.get(D, []):
                    found = None
                    for st2 in ast.walk(fdef):
                        if isinstance(st2, ast.Assign) and len(st2.targets) == 1 and isinstance(st2.targets[0], ast.Name):
                            v2 = st2.value
                            if isinstance(v2, ast.Call) and isinstance(v2.func, ast.Attribute) and v2.func.attr == "get" and v2.func.value is u and 1 <= len(v2.args) <= 2 and not v2.keywords \
                                    and (len(v2.args) == 1 or (isinstance(v2.args[1], ast.Constant) and v2.args[1].value is None)):
                                found = (st2, v2.args[0])
                            elif isinstance(v2, ast.Subscript) and v2.value is u:
                                found = (st2, v2.slice)
                    if found is None:
                        okD = False
                    else:
                        lookups.append(found)
                if not okD or len(lookups) != 1:
                    continue
                st2, X = lookups[0]
                T = st2.targets[0].id
                if len(sc.get(T, [])) != 1 or not isinstance(X, (ast.Name, ast.Attribute)):
                    continue
                call_funcs = {id(c.func): c for c in ast.walk(fdef) if isinstance(c, ast.Call)}
                uses = lc.get(T, [])
                cmp_uses = []
                okT = True
                for u in uses:
                    if id(u) in call_funcs:
                        continue
                    par = [c for c in ast.walk(fdef) if isinstance(c, ast.Compare) and c.left is u and len(c.ops) == 1 and isinstance(c.ops[0], (ast.Is, ast.IsNot))
                           and isinstance(c.comparators[0], ast.Constant) and c.comparators[0].value is None]
                    if par:
                        cmp_uses.append(par[0])
                    else:
                        okT = False
                if not okT:
                    continue
                keys = [copy.deepcopy(k) for k in dv.keys]
                # `T is None`  →  X not in (k1, k2)
                class _CmpR(ast.NodeTransformer):
                    def visit_Compare(self, n_):
                        if any(n_ is c for c in cmp_uses):
                            op = ast.NotIn() if isinstance(n_.ops[0], ast.Is) else ast.In()
                            return ast.copy_location(ast.Compare(left=copy.deepcopy(X), ops=[op], comparators=[ast.Tuple(elts=[copy.deepcopy(k) for k in keys], ctx=ast.Load())]), n_)
                        return self.generic_visit(n_)

                _CmpR().visit(fdef)
                # statements that call T: one branch per key with the callable spelled out
                for blk2 in _blocks_all(fdef):
                    for s3 in list(blk2):
                        if not isinstance(s3, (ast.Return, ast.Assign, ast.AnnAssign, ast.Expr, ast.AugAssign)):
                            continue
                        if not any(isinstance(c, ast.Call) and isinstance(c.func, ast.Name) and c.func.id == T for c in ast.walk(s3)):
                            continue
                        chain = None
                        for k, f_ in reversed(list(zip(dv.keys, dv.values))):
                            class _TR(ast.NodeTransformer):
                                def visit_Call(self, n_):
                                    self.generic_visit(n_)
                                    if isinstance(n_.func, ast.Name) and n_.func.id == T:
                                        n_.func = copy.deepcopy(f_)
                                    return n_

                            body = [_TR().visit(copy.deepcopy(s3))]
                            test = ast.Compare(left=copy.deepcopy(X), ops=[ast.Eq()], comparators=[copy.deepcopy(k)])
                            chain = ast.If(test=test, body=body, orelse=[chain] if chain is not None else [s3])
                        ast.copy_location(chain, s3)
                        ast.fix_missing_locations(chain)
                        blk2[blk2.index(s3)] = chain

        # ---- G = operator.attrgetter("a", "b") (module level or local); G(obj)  →  (obj.a, obj.b)
        getters = dict(self.module_getters)
        for st in ast.walk(fdef):
            tg = st.targets[0] if isinstance(st, ast.Assign) and len(st.targets) == 1 else None
            if isinstance(tg, ast.Name) and _attrgetter_names(st.value) is not None:
                getters[tg.id] = _attrgetter_names(st.value)

        class _AG(ast.NodeTransformer):
            def visit_Call(self, n_):
                self.generic_visit(n_)
                names_ = None
                if isinstance(n_.func, ast.Name) and n_.func.id in getters:
                    names_ = getters[n_.func.id]
                elif isinstance(n_.func, ast.Call):
                    names_ = _attrgetter_names(n_.func)
                if names_ and len(n_.args) == 1 and not n_.keywords and isinstance(n_.args[0], (ast.Name, ast.Attribute)):
                    attrs = []
                    for nm_ in names_:
                        e_ = copy.deepcopy(n_.args[0])
                        for part in nm_.split("."):
                            e_ = ast.Attribute(value=e_, attr=part, ctx=ast.Load())
                        attrs.append(e_)
                    res = attrs[0] if len(attrs) == 1 else ast.Tuple(elts=attrs, ctx=ast.Load())
                    return ast.fix_missing_locations(ast.copy_location(res, n_))
                return n_

        if getters or any(isinstance(c, ast.Call) and isinstance(c.func, ast.Call) for c in ast.walk(fdef)):
            _AG().visit(fdef)
            for blk in _blocks_all(fdef):
                blk[:] = [y for x in blk for y in split_assign(x)]

        # ---- g = (generator expression) used exactly once: the expression stands where it is consumed
        st_count, ld = {}, {}
        for x in ast.walk(fdef):
            if isinstance(x, ast.Name):
                (st_count if isinstance(x.ctx, (ast.Store, ast.Del)) else ld).setdefault(x.id, []).append(x)
        for blk in _blocks_all(fdef):
            for st in list(blk):
                tg = st.targets[0] if isinstance(st, ast.Assign) and len(st.targets) == 1 else (st.target if isinstance(st, ast.AnnAssign) else None)
                v = getattr(st, "value", None)
                lazy = isinstance(v, ast.GeneratorExp) or (isinstance(v, ast.Call) and ast.unparse(v.func) in ("itertools.count", "count", "iter", "enumerate", "zip", "reversed", "range", "itertools.chain")
                                                            and not any(isinstance(y, (ast.Call, ast.NamedExpr)) for a_ in v.args for y in ast.walk(a_)))
                if not (isinstance(tg, ast.Name) and lazy) or len(st_count.get(tg.id, [])) != 1 or len(ld.get(tg.id, [])) != 1:
                    continue
                use = ld[tg.id][0]
                free_ = {x.id for x in ast.walk(v) if isinstance(x, ast.Name) and isinstance(x.ctx, ast.Load)}
                # nothing the generator reads is rebound between its creation and its (only) use, and both are in straight-line code
                lo_, hi_ = st.lineno, getattr(use, "lineno", st.lineno)
                if any(lo_ < getattr(w, "lineno", 0) <= hi_ for nm in free_ for w in st_count.get(nm, [])):
                    continue
                def _in_body(lp, node):
                    # the header expression of a `for` is evaluated once, before the loop
                    parts = list(lp.body) + list(lp.orelse) + ([lp.test] if isinstance(lp, ast.While) else [])
                    return any(y is node for p_ in parts for y in ast.walk(p_))

                if any(isinstance(lp, (ast.For, ast.While)) and (_in_body(lp, use) != _in_body(lp, st)) for lp in ast.walk(fdef)):
                    continue

                class _G(ast.NodeTransformer):
                    def visit_Name(self, n_):
                        return copy.deepcopy(v) if n_ is use else n_

                _G().visit(fdef)
                blk[blk.index(st)] = ast.copy_location(ast.Pass(), st)

        # ---- for key, x in zip((E(v) for v in itertools.count(k)), X)  →  for v, x in enumerate(X, k): key = E(v)
        for lp in [x for x in ast.walk(fdef) if isinstance(x, ast.For)]:
            it = lp.iter
            if not (isinstance(it, ast.Call) and isinstance(it.func, ast.Name) and it.func.id == "zip" and len(it.args) == 2 and not it.keywords and isinstance(lp.target, ast.Tuple) and len(lp.target.elts) == 2):
                continue
            g = it.args[0]
            if not (isinstance(g, ast.GeneratorExp) and len(g.generators) == 1 and not g.generators[0].ifs and isinstance(g.generators[0].target, ast.Name)):
                continue
            src = g.generators[0].iter
            if not (isinstance(src, ast.Call) and ast.unparse(src.func) in ("itertools.count", "count") and len(src.args) <= 1 and not src.keywords):
                continue
            v = g.generators[0].target.id
            start = src.args[0] if src.args else None
            key_t = lp.target.elts[0]
            lp.iter = ast.copy_location(ast.Call(func=ast.Name(id="enumerate", ctx=ast.Load()), args=[it.args[1]] + ([start] if start is not None else []), keywords=[]), it)
            lp.target = ast.copy_location(ast.Tuple(elts=[ast.Name(id=v, ctx=ast.Store()), lp.target.elts[1]], ctx=ast.Store()), lp.target)
            lp.body = [ast.copy_location(ast.Assign(targets=[key_t], value=g.elt, lineno=lp.lineno), lp)] + list(lp.body)
            ast.fix_missing_locations(lp)

        M().visit(fdef)  # once more: iterator variables have been inlined into zip(…) / map(…) calls by now

        # ---- T = functools.reduce(operator.OP, ITER, INIT)  →  T = INIT; for x in ITER: T = T OP x   (left fold, same order)
        OPS = {"add": ast.Add, "iadd": ast.Add, "mul": ast.Mult, "imul": ast.Mult, "sub": ast.Sub, "isub": ast.Sub, "or_": ast.BitOr, "ior": ast.BitOr, "and_": ast.BitAnd, "iand": ast.BitAnd}
        for blk in _blocks_all(fdef):
            for st in list(blk):
                v = st.value if isinstance(st, (ast.Assign, ast.AnnAssign, ast.Return, ast.Expr)) else None
                if not (isinstance(v, ast.Call) and ast.unparse(v.func) in ("functools.reduce", "reduce") and len(v.args) == 3 and not v.keywords):
                    continue
                opn = ast.unparse(v.args[0])
                if not (opn.startswith("operator.") and opn.split(".")[-1] in OPS):
                    continue
                short = opn.split(".")[-1]
                if isinstance(st, ast.Assign) and len(st.targets) == 1 and isinstance(st.targets[0], ast.Name):
                    acc = st.targets[0].id
                elif isinstance(st, ast.AnnAssign) and isinstance(st.target, ast.Name):
                    acc = st.target.id
                else:
                    inl.counter += 1
                    acc = f"_acc{inl.counter}"
                inl.counter += 1
                it, init = v.args[1], v.args[2]
                if acc in {x.id for x in ast.walk(it) if isinstance(x, ast.Name)}:
                    continue
                upd_val = None
                if isinstance(it, ast.GeneratorExp) and len(it.generators) == 1 and not it.generators[0].is_async:
                    g0 = it.generators[0]
                    tgt, src, conds, upd_val = g0.target, g0.iter, g0.ifs, it.elt
                else:
                    tgt, src, conds = ast.Name(id=f"_r{inl.counter}", ctx=ast.Store()), it, []
                    upd_val = ast.Name(id=tgt.id, ctx=ast.Load())
                immut_init = isinstance(init, ast.Constant) and isinstance(init.value, (int, float, complex, str, bytes, bool))
                if (short.startswith("i") and short != "ior") or short in ("ior", "iand") or immut_init:
                    upd = ast.AugAssign(target=ast.Name(id=acc, ctx=ast.Store()), op=OPS[short](), value=upd_val)
                else:
                    upd = ast.Assign(targets=[ast.Name(id=acc, ctx=ast.Store())], value=ast.BinOp(left=ast.Name(id=acc, ctx=ast.Load()), op=OPS[short](), right=upd_val), lineno=st.lineno)
                body = [upd]
                for c in reversed(conds):
                    body = [ast.If(test=c, body=body, orelse=[])]
                new_stmts = [ast.Assign(targets=[ast.Name(id=acc, ctx=ast.Store())], value=init, lineno=st.lineno), ast.For(target=tgt, iter=src, body=body, orelse=[], lineno=st.lineno)]
                if isinstance(st, ast.Return):
                    new_stmts.append(ast.Return(value=ast.Name(id=acc, ctx=ast.Load())))
                for x in new_stmts:
                    ast.copy_location(x, st)
                    ast.fix_missing_locations(x)
                k = blk.index(st)
                blk[k:k + 1] = new_stmts

        # ---- with contextlib.suppress(E): BODY  →  try: BODY  except E: pass
        for blk in _blocks_all(fdef):
            for st in list(blk):
                if isinstance(st, ast.With) and len(st.items) == 1 and st.items[0].optional_vars is None and isinstance(st.items[0].context_expr, ast.Call) \
                        and ast.unparse(st.items[0].context_expr.func) in ("contextlib.suppress", "suppress") and st.items[0].context_expr.args and not st.items[0].context_expr.keywords:
                    a = st.items[0].context_expr.args
                    typ = a[0] if len(a) == 1 else ast.Tuple(elts=list(a), ctx=ast.Load())
                    t = ast.Try(body=st.body, handlers=[ast.ExceptHandler(type=typ, name=None, body=[ast.Pass()])], orelse=[], finalbody=[])
                    ast.copy_location(t, st)
                    ast.fix_missing_locations(t)
                    blk[blk.index(st)] = t


        # ---- reads of private properties are calls of their getters
        if cls_name:
            class P(ast.NodeTransformer):
                def visit_Attribute(self, n):
                    self.generic_visit(n)
                    if isinstance(n.ctx, ast.Load) and isinstance(n.value, ast.Name) and n.value.id == "self" and n.attr.startswith("_") and not n.attr.startswith("__"):
                        seen, work = set(), [cls_name]
                        while work:
                            c = work.pop(0)
                            if c in seen:
                                continue
                            seen.add(c)
                            m = inl.methods.get((c, n.attr))
                            if m is not None:
                                if any(_decorator_kind(d) == "property" for d in m.decorator_list) and len(m.args.args) == 1:
                                    call = ast.Call(func=n, args=[], keywords=[])
                                    call._property_read = True
                                    return ast.copy_location(call, n)
                                return n
                            work.extend(inl.bases.get(c, []))
                    return n

                def visit_Call(self, n):
                    # the callee position is not a read of a property value that we want to turn into a call
                    n.args = [self.visit(a) for a in n.args]
                    for k in n.keywords:
                        k.value = self.visit(k.value)
                    if isinstance(n.func, ast.Attribute):
                        n.func.value = self.visit(n.func.value)
                    return n

            P().visit(fdef)
        ExprNorm().visit(fdef)

    def _inline_generator(self, loop, gdef, used_names, recv=None):
        gbody = [x for x in gdef.body if not (isinstance(x, ast.Expr) and isinstance(x.value, ast.Constant))]
        if gbody and isinstance(gbody[-1], ast.Expr) and isinstance(gbody[-1].value, ast.YieldFrom) \
                and not any(isinstance(x, (ast.Yield, ast.YieldFrom, ast.Return, ast.Await)) for p_ in gbody[:-1] for x in ast.walk(p_)):
            # `…; yield from E`  ≡  `…; for <fresh> in E: yield <fresh>`
            gdef = copy.deepcopy(gdef)
            gb2 = [x for x in gdef.body if not (isinstance(x, ast.Expr) and isinstance(x.value, ast.Constant))]
            yf = gb2[-1]
            tgt_ = copy.deepcopy(loop.target)
            tnames_ = [x.id for x in ast.walk(tgt_) if isinstance(x, ast.Name)]
            glocals_ = _locals_of(gdef)
            if all(isinstance(x, (ast.Name, ast.Tuple)) for x in ast.walk(tgt_) if not isinstance(x, ast.expr_context)) and not (set(tnames_) & glocals_):
                # the consumer's own loop variables stand for the delegated items
                val_ = copy.deepcopy(tgt_)
                for x in ast.walk(val_):
                    if hasattr(x, "ctx"):
                        x.ctx = ast.Load()
            else:
                self.counter += 1
                tgt_ = ast.Name(id=f"_y{self.counter}", ctx=ast.Store())
                val_ = ast.Name(id=tgt_.id, ctx=ast.Load())
            lp_ = ast.For(target=tgt_, iter=yf.value.value, body=[ast.Expr(value=ast.Yield(value=val_))], orelse=[])
            ast.copy_location(lp_, yf)
            ast.fix_missing_locations(lp_)
            gdef.body = gb2[:-1] + [lp_]
            gbody = gdef.body
        if not gbody or not isinstance(gbody[-1], (ast.While, ast.For)) or gbody[-1].orelse:
            return None
        pre, L = gbody[:-1], gbody[-1]
        if any(isinstance(x, (ast.Yield, ast.YieldFrom, ast.Return, ast.Await)) for p_ in pre for x in ast.walk(p_)):
            return None
        if any(isinstance(x, (ast.YieldFrom, ast.Await, ast.Global, ast.Nonlocal)) for x in ast.walk(gdef)):
            return None
        # yields and returns sit directly in L (under ifs only)
        found = {"yield": [], "ret": []}

        def scan(stmts, ok):
            for x in stmts:
                if isinstance(x, ast.Expr) and isinstance(x.value, ast.Yield):
                    if not ok:
                        return False
                    found["yield"].append(x)
                elif isinstance(x, ast.Return):
                    if not ok or x.value is not None:
                        return False
                    found["ret"].append(x)
                elif isinstance(x, ast.If):
                    if any(isinstance(y, ast.Yield) for y in ast.walk(x.test)):
                        return False
                    if not scan(x.body, ok) or not scan(x.orelse, ok):
                        return False
                elif isinstance(x, (ast.For, ast.While, ast.Try, ast.With)):
                    if any(isinstance(y, (ast.Yield, ast.Return)) for y in ast.walk(x)):
                        return False
                elif any(isinstance(y, ast.Yield) for y in ast.walk(x)):
                    return False
            return True

        if not scan(L.body, True) or len(found["yield"]) != 1 or found["yield"][0].value.value is None:
            return None
        # the consumer's body must not `continue` (that would resume the generator after its yield)
        def has_continue(stmts):
            for x in stmts:
                if isinstance(x, ast.Continue):
                    return True
                if isinstance(x, (ast.For, ast.While, ast.FunctionDef, ast.ClassDef)):
                    continue
                for fld in ("body", "orelse", "finalbody"):
                    if has_continue(getattr(x, fld, []) or []):
                        return True
                for h in getattr(x, "handlers", []) or []:
                    if has_continue(h.body):
                        return True
            return False

        if has_continue(loop.body):
            return None
        call = loop.iter
        if any(isinstance(a, ast.Starred) for a in call.args) or any(k.arg is None for k in call.keywords):
            return None
        params = [a.arg for a in gdef.args.posonlyargs + gdef.args.args]
        kwonly = [a.arg for a in gdef.args.kwonlyargs]
        bind = {}
        pos_params = list(params)
        if recv is not None and pos_params:
            bind[pos_params[0]] = ast.Name(id=recv, ctx=ast.Load())
            pos_params = pos_params[1:]
        if len(call.args) > len(pos_params):
            return None
        for p_, a in zip(pos_params, call.args):
            bind[p_] = a
        for k in call.keywords:
            if k.arg in bind or k.arg not in params + kwonly:
                return None
            bind[k.arg] = k.value
        defaults = dict(zip(params[len(params) - len(gdef.args.defaults):], gdef.args.defaults))
        defaults.update({a: d for a, d in zip(kwonly, gdef.args.kw_defaults) if d is not None})
        for p_ in params + kwonly:
            if p_ not in bind:
                if p_ not in defaults:
                    return None
                bind[p_] = defaults[p_]
        g = copy.deepcopy(gdef)
        locs = _locals_of(g)
        assigned = {n.id for n in ast.walk(g) if isinstance(n, ast.Name) and isinstance(n.ctx, ast.Store)}
        arg_names = {n.id for a in bind.values() for n in ast.walk(a) if isinstance(n, ast.Name)}
        free = {n.id for n in ast.walk(g) if isinstance(n, ast.Name)} - locs
        self.counter += 1
        suffix = f"__{gdef.name.strip('_')}{self.counter}"
        mapping, pre_assign = {}, []
        # the yielded variables are the loop variables
        yv = found["yield"][0].value.value
        tnames = [loop.target] if isinstance(loop.target, ast.Name) else (list(loop.target.elts) if isinstance(loop.target, ast.Tuple) else [])
        yvals = [yv] if len(tnames) == 1 else (list(yv.elts) if isinstance(yv, ast.Tuple) else [])
        if tnames and len(tnames) == len(yvals) and all(isinstance(t, ast.Name) for t in tnames) and all(isinstance(y, ast.Name) and y.id in locs and y.id not in params + kwonly for y in yvals) \
                and len({y.id for y in yvals}) == len(yvals):
            tid = [t.id for t in tnames]
            if not any(t in arg_names or t in free or (t in locs and t not in [y.id for y in yvals]) for t in tid):
                mapping.update({y.id: t for y, t in zip(yvals, tid)})

        def fresh(nm):
            if nm not in used_names and nm not in arg_names and nm not in free:
                used_names.add(nm)
                return nm
            return nm + suffix

        for p_, a in bind.items():
            simple = isinstance(a, (ast.Name, ast.Constant)) or (isinstance(a, ast.Attribute) and isinstance(a.value, ast.Name))
            if simple and p_ not in assigned:
                mapping[p_] = None
            else:
                mapping[p_] = fresh(p_)
                pre_assign.append(ast.copy_location(ast.Assign(targets=[ast.Name(id=mapping[p_], ctx=ast.Store())], value=a, lineno=loop.lineno), loop))
        for l in sorted(locs):
            if l not in mapping:
                mapping[l] = fresh(l)

        class Sub(ast.NodeTransformer):
            def visit_Name(self, n):
                if n.id in mapping:
                    if mapping[n.id] is None:
                        return copy.deepcopy(bind[n.id]) if isinstance(n.ctx, ast.Load) else n
                    return ast.copy_location(ast.Name(id=mapping[n.id], ctx=n.ctx), n)
                return n

        gb = [x for x in g.body if not (isinstance(x, ast.Expr) and isinstance(x.value, ast.Constant))]
        gb = [Sub().visit(x) for x in gb]
        L2 = gb[-1]
        consumer = loop.body
        target = loop.target

        def rewrite(stmts):
            out = []
            for x in stmts:
                if isinstance(x, ast.Expr) and isinstance(x.value, ast.Yield):
                    tg = copy.deepcopy(target)
                    out.append(ast.copy_location(ast.Assign(targets=[tg], value=x.value.value, lineno=x.lineno), x))
                    out.extend(consumer)
                elif isinstance(x, ast.Return):
                    out.append(ast.copy_location(ast.Break(), x))
                elif isinstance(x, ast.If):
                    x.body = rewrite(x.body)
                    x.orelse = rewrite(x.orelse)
                    out.append(x)
                else:
                    out.append(x)
            return out

        L2.body = rewrite(L2.body)
        res = pre_assign + gb[:-1] + [L2]
        for r_ in res:
            ast.copy_location(r_, loop) if not hasattr(r_, "lineno") else None
            ast.fix_missing_locations(r_)
        return _tidy(norm_block(_tidy(res)))

    def inline_in_expression(self, node, cls_name):
        """inside comprehensions and lambdas a call cannot be replaced by statements: helpers that are a single
        `return <expression>` are substituted as expressions"""
        inl = self
        changed = [False]

        class E(ast.NodeTransformer):
            def visit_Call(self, n):
                self.generic_visit(n)
                r = inl.resolve(n, cls_name)
                if r is None or not inl.eligible(r[0], r[1]):
                    return n
                name, fdef, recv = r
                body = [s for s in fdef.body if not (isinstance(s, ast.Expr) and isinstance(s.value, ast.Constant))]
                if len(body) != 1 or not isinstance(body[0], ast.Return) or body[0].value is None:
                    return n
                if any(isinstance(a, ast.Starred) for a in n.args) or any(k.arg is None for k in n.keywords) or fdef.args.vararg or fdef.args.kwarg:
                    return n
                if any(isinstance(x, (ast.Lambda, ast.ListComp, ast.SetComp, ast.DictComp, ast.GeneratorExp, ast.NamedExpr)) for x in ast.walk(body[0].value)):
                    return n  # own scopes: substitution could capture names
                params = [a.arg for a in fdef.args.posonlyargs + fdef.args.args]
                kwonly = [a.arg for a in fdef.args.kwonlyargs]
                bind, pos = {}, list(params)
                if recv is not None and pos:
                    bind[pos[0]] = ast.parse(recv, mode="eval").body
                    pos = pos[1:]
                if len(n.args) > len(pos):
                    return n
                for p_, a in zip(pos, n.args):
                    bind[p_] = a
                for k in n.keywords:
                    if k.arg in bind or k.arg not in params + kwonly:
                        return n
                    bind[k.arg] = k.value
                defaults = dict(zip(params[len(params) - len(fdef.args.defaults):], fdef.args.defaults))
                defaults.update({a: d for a, d in zip(kwonly, fdef.args.kw_defaults) if d is not None})
                for p_ in params + kwonly:
                    if p_ not in bind:
                        if p_ not in defaults:
                            return n
                        bind[p_] = defaults[p_]

                class S(ast.NodeTransformer):
                    def visit_Name(self, x):
                        if x.id in bind and isinstance(x.ctx, ast.Load):
                            return copy.deepcopy(bind[x.id])
                        return x

                changed[0] = True
                return ast.copy_location(S().visit(copy.deepcopy(body[0].value)), n)

        out = E().visit(node)
        return out, changed[0]

    # -------------------------------------------------------------- NamedTuple values
    def scalarize(self, fdef):
        """a local variable that only ever holds values built by one NamedTuple class is replaced by one variable per field
        (`r = T(a, b)` → `r_f, r_g = a, b`; `r.f` → `r_f`; `r` → `(r_f, r_g)`); other constructor calls become plain tuples"""
        if not self.tuples:
            return False
        inl = self
        changed = [False]

        class C(ast.NodeTransformer):
            def visit_Call(self, n):
                self.generic_visit(n)
                if isinstance(n.func, ast.Name) and n.func.id in inl.tuples and not any(isinstance(a, ast.Starred) for a in n.args) and not any(k.arg is None for k in n.keywords):
                    fields = inl.tuples[n.func.id]
                    vals = {}
                    if len(n.args) > len(fields):
                        return n
                    for (f, _d), a in zip(fields, n.args):
                        vals[f] = a
                    for k in n.keywords:
                        if k.arg in vals or k.arg not in [f for f, _ in fields]:
                            return n
                        vals[k.arg] = k.value
                    for f, d in fields:
                        if f not in vals:
                            if d is None:
                                return n
                            vals[f] = copy.deepcopy(d)
                    t = ast.copy_location(ast.Tuple(elts=[vals[f] for f, _ in fields], ctx=ast.Load()), n)
                    t._nt = n.func.id
                    changed[0] = True
                    return t
                return n

        C().visit(fdef)
        if not changed[0]:
            return False
        stores, ok = {}, {}
        for st in ast.walk(fdef):
            if isinstance(st, ast.Assign) and len(st.targets) == 1 and isinstance(st.targets[0], ast.Name) and getattr(st.value, "_nt", None):
                ok.setdefault(st.targets[0].id, set()).add(st.value._nt)
                stores.setdefault(st.targets[0].id, []).append(st.targets[0])
        names = {}
        for nm, kinds in ok.items():
            all_stores = [n for n in ast.walk(fdef) if isinstance(n, ast.Name) and n.id == nm and not isinstance(n.ctx, ast.Load)]
            params = any(a.arg == nm for x in ast.walk(fdef) if isinstance(x, ast.arguments) for a in x.posonlyargs + x.args + x.kwonlyargs)
            if len(kinds) == 1 and len(all_stores) == len(stores[nm]) and not params:
                names[nm] = next(iter(kinds))
        if not names:
            return True
        fieldvar = {}
        for nm, kind in names.items():
            for f, _ in self.tuples[kind]:
                v = f"{nm}_{f}"
                while v in self.taken:
                    v += "_"
                self.taken.add(v)
                fieldvar[(nm, f)] = v

        class R(ast.NodeTransformer):
            def visit_Assign(self, st):
                self.generic_visit(st)
                if len(st.targets) == 1 and isinstance(st.targets[0], ast.Name) and st.targets[0].id in names and getattr(st.value, "_nt", None):
                    nm = st.targets[0].id
                    tgt = ast.Tuple(elts=[ast.Name(id=fieldvar[(nm, f)], ctx=ast.Store()) for f, _ in inl.tuples[names[nm]]], ctx=ast.Store())
                    return ast.fix_missing_locations(ast.copy_location(ast.Assign(targets=[tgt], value=st.value, lineno=st.lineno), st))
                return st

            def visit_Attribute(self, n):
                if isinstance(n.value, ast.Name) and n.value.id in names and isinstance(n.ctx, ast.Load) and (n.value.id, n.attr) in fieldvar:
                    return ast.copy_location(ast.Name(id=fieldvar[(n.value.id, n.attr)], ctx=ast.Load()), n)
                self.generic_visit(n)
                return n

            def visit_Subscript(self, n):
                if isinstance(n.value, ast.Name) and n.value.id in names and isinstance(n.ctx, ast.Load) and isinstance(n.slice, ast.Constant) and isinstance(n.slice.value, int):
                    fs = inl.tuples[names[n.value.id]]
                    if -len(fs) <= n.slice.value < len(fs):
                        return ast.copy_location(ast.Name(id=fieldvar[(n.value.id, fs[n.slice.value][0])], ctx=ast.Load()), n)
                self.generic_visit(n)
                return n

            def visit_Name(self, n):
                if n.id in names and isinstance(n.ctx, ast.Load):
                    return ast.copy_location(ast.Tuple(elts=[ast.Name(id=fieldvar[(n.id, f)], ctx=ast.Load()) for f, _ in inl.tuples[names[n.id]]], ctx=ast.Load()), n)
                return n

        R().visit(fdef)
        return True

    # -------------------------------------------------------------- per function
    def inline_function(self, fdef, cls_name):
        changed = [False]

        def do_block(stmts):
            out = []
            for s in stmts:
                out.extend(do_stmt(s))
            return out

        def hoist(s):
            """pull eligible calls nested inside the expression(s) of a simple statement out
            into temporaries (left-to-right), returns (pre statements, statement)"""
            pre = []
            if not isinstance(s, (ast.Assign, ast.AugAssign, ast.AnnAssign, ast.Return, ast.Expr, ast.If, ast.For)):
                return pre, s

            inl = self

            class H(ast.NodeTransformer):
                def visit_Lambda(self, n):
                    n2, ch = inl.inline_in_expression(n, cls_name)
                    if ch:
                        changed[0] = True
                    return n2

                def visit_ListComp(self, n):
                    # the call depends on the comprehension variable: only expression helpers can be substituted
                    n2, ch = inl.inline_in_expression(n, cls_name)
                    if ch:
                        changed[0] = True
                    return n2

                visit_SetComp = visit_DictComp = visit_GeneratorExp = visit_ListComp

                def visit_Call(self, n):
                    self.generic_visit(n)
                    r = inl.resolve(n, cls_name)
                    if r is not None and inl.eligible(r[0], r[1]):
                        inl.counter += 1
                        tmp = f"_inl{inl.counter}_{r[0].strip('_')}"
                        pre.append(ast.copy_location(ast.Assign(targets=[ast.Name(id=tmp, ctx=ast.Store())], value=n, lineno=s.lineno), s))
                        return ast.copy_location(ast.Name(id=tmp, ctx=ast.Load()), n)
                    return n

            top_call = None
            if isinstance(s, (ast.Assign, ast.AnnAssign, ast.Return, ast.Expr)) and isinstance(s.value, ast.Call):
                top_call = s.value
            h = H()
            if isinstance(s, ast.If):
                s.test = h.visit(s.test)
            elif isinstance(s, ast.For):
                # the iterable is evaluated once, before the loop
                s.iter = h.visit(s.iter)
            elif top_call is not None:
                # keep the top-level call in place, hoist only calls nested in its arguments
                top_call.args = [h.visit(a) for a in top_call.args]
                for k in top_call.keywords:
                    k.value = h.visit(k.value)
                if isinstance(top_call.func, ast.Attribute):
                    top_call.func.value = h.visit(top_call.func.value)
            elif getattr(s, "value", None) is not None:
                s.value = h.visit(s.value)
            return pre, s

        def comp_to_loop(s):
            """`x = [f(v) for v in it if c]` with an inlinable f → x = []; for v in it: if c: x.append(f(v))"""
            if not (isinstance(s, (ast.Assign, ast.AnnAssign)) and isinstance(s.value, ast.ListComp) and len(s.value.generators) == 1):
                return None
            tgt = s.targets[0] if isinstance(s, ast.Assign) else s.target
            if isinstance(s, ast.Assign) and len(s.targets) != 1 or not isinstance(tgt, ast.Name):
                return None
            comp = s.value
            g = comp.generators[0]
            if g.is_async:
                return None
            has = False
            for n in ast.walk(comp):
                if isinstance(n, ast.Call):
                    r = self.resolve(n, cls_name)
                    if r is not None and self.eligible(r[0], r[1]):
                        has = True
            if not has or tgt.id in {x.id for x in ast.walk(comp) if isinstance(x, ast.Name)}:
                return None
            init = ast.copy_location(ast.Assign(targets=[ast.Name(id=tgt.id, ctx=ast.Store())], value=ast.List(elts=[], ctx=ast.Load()), lineno=s.lineno), s)
            app = ast.Expr(value=ast.Call(func=ast.Attribute(value=ast.Name(id=tgt.id, ctx=ast.Load()), attr="append", ctx=ast.Load()), args=[comp.elt], keywords=[]))
            body = [ast.copy_location(app, s)]
            for c in reversed(g.ifs):
                body = [ast.copy_location(ast.If(test=c, body=body, orelse=[]), s)]
            loop = ast.copy_location(ast.For(target=g.target, iter=g.iter, body=body, orelse=[], lineno=s.lineno), s)
            ast.fix_missing_locations(init)
            ast.fix_missing_locations(loop)
            return [init, loop]

        def do_stmt(s):
            if isinstance(s, (ast.FunctionDef, ast.AsyncFunctionDef)):
                if self.inline_function(s, cls_name):
                    changed[0] = True
                return [s]
            rep_ = comp_to_loop(s)
            if rep_ is not None:
                changed[0] = True
                return do_block(rep_)
            if isinstance(s, ast.ClassDef):
                return [s]
            for fld in ("body", "orelse", "finalbody"):
                b = getattr(s, fld, None)
                if isinstance(b, list) and b and isinstance(b[0], ast.stmt):
                    setattr(s, fld, do_block(b))
            for h in getattr(s, "handlers", []) or []:
                h.body = do_block(h.body)
            pre, s = hoist(s)
            out = []
            for p in pre:
                out.extend(do_stmt(p))
            call, store, keep = None, None, False
            if isinstance(s, ast.Expr) and isinstance(s.value, ast.Call):
                call = s.value
                store = lambda v, at_: [ast.copy_location(ast.Expr(value=v), at_)]
            elif isinstance(s, ast.Assign) and len(s.targets) == 1 and isinstance(s.value, ast.Call):
                call = s.value
                tgt = s.targets[0]
                store = lambda v, at_, tgt=tgt: [ast.copy_location(ast.Assign(targets=[copy.deepcopy(tgt)], value=v, lineno=at_.lineno), at_)]
            elif isinstance(s, ast.AnnAssign) and s.value is not None and isinstance(s.value, ast.Call):
                call = s.value
                tgt = s.target
                store = lambda v, at_, tgt=tgt: [ast.copy_location(ast.Assign(targets=[copy.deepcopy(tgt)], value=v, lineno=at_.lineno), at_)]
            elif isinstance(s, ast.Return) and isinstance(s.value, ast.Call):
                call = s.value
                keep = True
                store = lambda v, at_: [ast.copy_location(ast.Return(value=v), at_)]
            if call is not None:
                rt = s.targets[0] if isinstance(s, ast.Assign) else (s.target if isinstance(s, ast.AnnAssign) else None)
                rep = self.expand_call(call, cls_name, store, keep, s, ret_target=rt)
                if rep is not None:
                    changed[0] = True
                    rep = norm_block(rep)
                    return out + do_block(rep)  # inline transitively (counter prevents clashes; recursion excluded by eligibility)
            return out + [s]

        # helpers defined inside this function that the reference tree does not know
        nested = {}
        outer_taken = self.taken
        if self.depth == 0:
            self.current = fdef
            self.prepare(fdef, cls_name)
            # names in use in this function; the bodies of nested helpers that will be inlined (and removed) do not count
            helpers = [x for x in ast.walk(fdef) if isinstance(x, ast.FunctionDef) and x is not fdef and x.name not in NESTED_ANCHORS
                       and all(_decorator_kind(d) == "plain" for d in x.decorator_list)]
            skip = set()
            for h in helpers:
                hl = _locals_of(h)
                for n in ast.walk(h):
                    if n is not h and (isinstance(n, ast.Name) and n.id in hl or isinstance(n, ast.arguments)):
                        skip.add(id(n))
            self.taken = {n.id for n in ast.walk(fdef) if isinstance(n, ast.Name) and id(n) not in skip} | {a.arg for n in ast.walk(fdef) if isinstance(n, ast.arguments) and id(n) not in skip
                                                                                                           for a in n.posonlyargs + n.args + n.kwonlyargs + [x for x in (n.vararg, n.kwarg) if x]}
        self.depth += 1
        call_funcs = {id(c.func) for c in ast.walk(fdef) if isinstance(c, ast.Call)}
        for blk in _blocks_no_nested(fdef):
            for x in blk:
                if isinstance(x, ast.FunctionDef) and x.name not in NESTED_ANCHORS and all(_decorator_kind(d) == "plain" for d in x.decorator_list):
                    uses = [n for n in ast.walk(fdef) if isinstance(n, ast.Name) and n.id == x.name and isinstance(n.ctx, ast.Load)]
                    if uses and all(id(u) in call_funcs for u in uses):
                        nested[x.name] = x
        saved = self.local
        self.local = {**saved, **nested}
        try:
            fdef.body = do_block(fdef.body)
        finally:
            self.local = saved
            self.depth -= 1
        if self.depth == 0:
            if self.scalarize(fdef):
                fdef.body = norm_block(fdef.body)
            self.taken = outer_taken
        if nested:
            still = {n.id for n in ast.walk(fdef) if isinstance(n, ast.Name) and isinstance(n.ctx, ast.Load)}
            gone = {nm for nm in nested if nm not in still}
            if gone:
                for blk in _blocks_no_nested(fdef):
                    blk[:] = [x for x in blk if not (isinstance(x, ast.FunctionDef) and x.name in gone)] or [ast.Pass()]
        return changed[0]


class ConstFold(ast.NodeTransformer):
    """'a' + 'b' → 'ab' (keys spelled as a concatenation after a table loop was unrolled)"""

    def visit_BinOp(self, n):
        self.generic_visit(n)
        if isinstance(n.op, ast.Add) and isinstance(n.left, ast.Constant) and isinstance(n.right, ast.Constant) and isinstance(n.left.value, str) and isinstance(n.right.value, str):
            return ast.copy_location(ast.Constant(value=n.left.value + n.right.value), n)
        return n

    def visit_FormattedValue(self, n):
        n.value = self.visit(n.value)  # the format specification stays a JoinedStr
        return n

    def visit_JoinedStr(self, n):
        self.generic_visit(n)
        if n.values and all(isinstance(v, ast.Constant) and isinstance(v.value, str) or (isinstance(v, ast.FormattedValue) and isinstance(v.value, ast.Constant)
                                                                                         and isinstance(v.value.value, str) and v.conversion == -1 and v.format_spec is None) for v in n.values):
            return ast.copy_location(ast.Constant(value="".join(v.value if isinstance(v, ast.Constant) else v.value.value for v in n.values)), n)
        return n


def inline_module(tree: ast.Module) -> ast.Module:
    inl = Inliner(tree)
    for s in tree.body:
        if isinstance(s, ast.FunctionDef):
            if not (s.name.startswith("_") and inl.eligible(s.name, s)):
                inl.inline_function(s, None)
        elif isinstance(s, ast.ClassDef):
            for m in s.body:
                if isinstance(m, ast.FunctionDef):
                    if not (m.name.startswith("_") and inl.eligible(m.name, m)):
                        inl.inline_function(m, s.name)
    ast.fix_missing_locations(tree)
    return tree
