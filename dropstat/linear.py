"""First-order (dual number) expansion of arithmetic expressions in a set of small
variables, evaluated at zero, over the exact normal forms of :mod:`dropstat.algebra`.

``linearize(node, small, env, conv)`` returns ``Dual(f0, {var: f1})`` with
``expr = f0 + Σ var·f1 + O(var²)``.  Used to decide "to first order in the amplitudes"
clauses for every value of the remaining symbols at once.
"""

from __future__ import annotations

import ast
from fractions import Fraction

from .algebra import Converter, Expr, NotAlgebraic


class NotLinearizable(Exception):
    pass


class Dual:
    __slots__ = ("f0", "f1")

    def __init__(self, f0: Expr, f1=None):
        self.f0 = f0
        self.f1 = {k: v for k, v in (f1 or {}).items() if not v.is_zero()}

    def __add__(self, o):
        d = dict(self.f1)
        for k, v in o.f1.items():
            d[k] = d.get(k, Expr()) + v
        return Dual(self.f0 + o.f0, d)

    def __neg__(self):
        return Dual(-self.f0, {k: -v for k, v in self.f1.items()})

    def __sub__(self, o):
        return self + (-o)

    def __mul__(self, o):
        d = {}
        for k, v in self.f1.items():
            d[k] = d.get(k, Expr()) + v * o.f0
        for k, v in o.f1.items():
            d[k] = d.get(k, Expr()) + self.f0 * v
        return Dual(self.f0 * o.f0, d)

    def inverse(self):
        if self.f0.is_zero():
            raise NotLinearizable("division by an expression that vanishes at zero amplitudes")
        inv = self.f0.inverse()
        return Dual(inv, {k: -(v * inv * inv) for k, v in self.f1.items()})

    def power(self, e: Fraction):
        if e == 0:
            return Dual(Expr.const(1))
        if self.f0.is_zero():
            if e.denominator == 1 and e.numerator >= 2:
                return Dual(Expr())
            if e == 1:
                return self
            raise NotLinearizable("fractional/negative power of a quantity that vanishes at zero amplitudes")
        base = self.f0.power(e)
        dbase = Expr.const(e) * self.f0.power(e - 1)
        return Dual(base, {k: v * dbase for k, v in self.f1.items()})


def linearize(node, small: set, env: dict, conv: Converter) -> Dual:
    def names(n):
        return {x.id for x in ast.walk(n) if isinstance(x, ast.Name)}

    def rec(n) -> Dual:
        if isinstance(n, ast.Name):
            if n.id in small:
                return Dual(Expr(), {n.id: Expr.const(1)})
            if n.id in env:
                return env[n.id]
        if not (names(n) & (small | set(env))):
            try:
                return Dual(conv.conv(n))
            except NotAlgebraic as exc:
                raise NotLinearizable(str(exc)) from exc
        if isinstance(n, ast.UnaryOp) and isinstance(n.op, ast.USub):
            return -rec(n.operand)
        if isinstance(n, ast.UnaryOp) and isinstance(n.op, ast.UAdd):
            return rec(n.operand)
        if isinstance(n, ast.BinOp):
            if isinstance(n.op, ast.Add):
                return rec(n.left) + rec(n.right)
            if isinstance(n.op, ast.Sub):
                return rec(n.left) - rec(n.right)
            if isinstance(n.op, ast.Mult):
                return rec(n.left) * rec(n.right)
            if isinstance(n.op, ast.Div):
                return rec(n.left) * rec(n.right).inverse()
            if isinstance(n.op, ast.Pow):
                try:
                    e = conv.conv(n.right)
                except NotAlgebraic as exc:
                    raise NotLinearizable(str(exc)) from exc
                m = e.single()
                if m is None:
                    raise NotLinearizable("non-constant exponent")
                c, rest = m.split()
                if rest:
                    raise NotLinearizable("non-constant exponent")
                return rec(n.left).power(c)
        if isinstance(n, ast.Call):
            from .model import dotted

            nm = dotted(n.func) or ""
            full = conv.resolve_dotted(nm) if nm else ""
            if full in ("numpy.sqrt", "math.sqrt") and len(n.args) == 1:
                return rec(n.args[0]).power(Fraction(1, 2))
            if full in ("float", "numpy.asarray", "numpy.real") and n.args:
                return rec(n.args[0])
        raise NotLinearizable(f"cannot expand `{ast.unparse(n)[:60]}`")

    return rec(node)
