"""Liveness audit (thorough tier).

1. Seeded variants: every confirmed breaking change kept under /verif/seeded/<id>/ whose
   meta names this property must be reported as a violation when its patch is applied to
   an in-memory copy of the current tree (patches that no longer apply are skipped and
   listed).  A seeded variant that is not caught makes the run analysis-broken.
2. Mutation adequacy: generic AST mutation operators (comparison strictness/polarity,
   `+=`→`=`, arithmetic operator swap, numeric constant shift, keyword-argument drop,
   positional-argument swap, `is None`→truthiness, statement deletion) are applied one at a
   time, in memory, to the functions the check analysed; the check is re-run on each mutant
   model.  The kill ratio and the surviving mutants are recorded in the evidence.  Nothing is
   executed and no file of /repo is written.
"""

from __future__ import annotations

import ast
import copy
import glob
import json
import os
import subprocess
import tempfile
from concurrent.futures import ProcessPoolExecutor

from .core import VERIF
from .model import AnalysisError, Model

MAX_MUTANTS = int(os.environ.get("DROPSTAT_MAX_MUTANTS", "900"))


# ----------------------------------------------------------------------------- mutation operators
class Mutator(ast.NodeTransformer):
    """applies exactly the k-th applicable mutation inside the selected function ranges"""

    def __init__(self, ranges, target: int | None):
        self.ranges = ranges  # list of (lo, hi) line ranges
        self.target = target
        self.count = 0
        self.desc = None

    def inside(self, node):
        ln = getattr(node, "lineno", None)
        return ln is not None and any(lo <= ln <= hi for lo, hi in self.ranges)

    def hit(self, node, desc):
        k = self.count
        self.count += 1
        if self.target is not None and k == self.target:
            self.desc = f"line {getattr(node, 'lineno', '?')}: {desc}"
            return True
        return False

    CMP = {ast.Lt: ast.LtE, ast.LtE: ast.Lt, ast.Gt: ast.GtE, ast.GtE: ast.Gt, ast.Eq: ast.NotEq, ast.NotEq: ast.Eq, ast.Is: ast.IsNot, ast.IsNot: ast.Is, ast.In: ast.NotIn, ast.NotIn: ast.In}
    BIN = {ast.Add: ast.Sub, ast.Sub: ast.Add, ast.Mult: ast.Div, ast.Div: ast.Mult}

    def visit_Compare(self, n):
        self.generic_visit(n)
        if not self.inside(n):
            return n
        for i, op in enumerate(n.ops):
            new = self.CMP.get(type(op))
            if new and self.hit(n, f"comparison {type(op).__name__} → {new.__name__} in `{ast.unparse(n)[:50]}`"):
                n = copy.copy(n)
                n.ops = list(n.ops)
                n.ops[i] = new()
                return n
        # `x is None` → `not x`
        if len(n.ops) == 1 and isinstance(n.ops[0], ast.Is) and isinstance(n.comparators[0], ast.Constant) and n.comparators[0].value is None:
            if self.hit(n, f"identity test → truthiness in `{ast.unparse(n)[:50]}`"):
                return ast.copy_location(ast.UnaryOp(op=ast.Not(), operand=n.left), n)
        return n

    def visit_BinOp(self, n):
        self.generic_visit(n)
        if not self.inside(n):
            return n
        new = self.BIN.get(type(n.op))
        if new and self.hit(n, f"operator {type(n.op).__name__} → {new.__name__} in `{ast.unparse(n)[:50]}`"):
            return ast.copy_location(ast.BinOp(left=n.left, op=new(), right=n.right), n)
        if isinstance(n.op, (ast.Add, ast.Sub, ast.Mult, ast.Div)) and self.hit(n, f"operands swapped in `{ast.unparse(n)[:50]}`"):
            return ast.copy_location(ast.BinOp(left=n.right, op=n.op, right=n.left), n)
        return n

    def visit_AugAssign(self, n):
        self.generic_visit(n)
        if self.inside(n) and self.hit(n, f"`{ast.unparse(n)[:50]}` → plain assignment"):
            return ast.copy_location(ast.Assign(targets=[n.target], value=n.value, lineno=n.lineno), n)
        return n

    def visit_Constant(self, n):
        if self.inside(n) and isinstance(n.value, (int, float)) and not isinstance(n.value, bool):
            if self.hit(n, f"constant {n.value!r} → {n.value + 1!r}"):
                return ast.copy_location(ast.Constant(value=n.value + 1), n)
        if self.inside(n) and isinstance(n.value, bool):
            if self.hit(n, f"constant {n.value!r} → {not n.value!r}"):
                return ast.copy_location(ast.Constant(value=not n.value), n)
        return n

    def visit_Call(self, n):
        self.generic_visit(n)
        if not self.inside(n):
            return n
        for i, kw in enumerate(n.keywords):
            if kw.arg is not None and self.hit(n, f"keyword `{kw.arg}=` dropped from `{ast.unparse(n)[:50]}`"):
                m = copy.copy(n)
                m.keywords = [k for j, k in enumerate(n.keywords) if j != i]
                return m
        if len(n.args) >= 2 and not any(isinstance(a, ast.Starred) for a in n.args[:2]) and self.hit(n, f"first two arguments swapped in `{ast.unparse(n)[:50]}`"):
            m = copy.copy(n)
            m.args = [n.args[1], n.args[0]] + list(n.args[2:])
            return m
        return n

    def _body(self, body):
        out = []
        for s in body:
            if self.inside(s) and isinstance(s, (ast.Expr, ast.Assign, ast.AugAssign, ast.AnnAssign)) and not (isinstance(s, ast.Expr) and isinstance(s.value, ast.Constant)):
                if self.hit(s, f"statement `{ast.unparse(s)[:50]}` deleted"):
                    out.append(ast.copy_location(ast.Pass(), s))
                    continue
            out.append(self.visit(s))
        return out

    def generic_visit(self, node):
        for fld in ("body", "orelse", "finalbody"):
            b = getattr(node, fld, None)
            if isinstance(b, list) and b and isinstance(b[0], ast.stmt):
                setattr(node, fld, self._body(b))
        for h in getattr(node, "handlers", []) or []:
            h.body = self._body(h.body)
        for fld, val in ast.iter_fields(node):
            if fld in ("body", "orelse", "finalbody", "handlers") and isinstance(val, list) and val and isinstance(val[0], (ast.stmt, ast.ExceptHandler)):
                continue
            if isinstance(val, list):
                new = []
                for v in val:
                    if isinstance(v, ast.AST):
                        v = self.visit(v)
                        if v is None:
                            continue
                    new.append(v)
                val[:] = new
            elif isinstance(val, ast.AST):
                nv = self.visit(val)
                if nv is None:
                    delattr(node, fld)
                else:
                    setattr(node, fld, nv)
        return node


def function_ranges(model: Model, quals):
    by_file: dict = {}
    for q in quals:
        for fi in model.functions.get(q, []):
            n = fi.node
            lo, hi = getattr(n, "lineno", None), getattr(n, "end_lineno", None)
            if lo and hi:
                by_file.setdefault(fi.file, []).append((lo, hi))
    return by_file


def count_mutants(src, ranges):
    mu = Mutator(ranges, None)
    mu.visit(ast.parse(src))
    return mu.count


def make_mutant(src, ranges, k):
    mu = Mutator(ranges, k)
    tree = mu.visit(ast.parse(src))
    ast.fix_missing_locations(tree)
    try:
        new_src = ast.unparse(tree)
        ast.parse(new_src)
    except Exception:
        return None, mu.desc
    return new_src, mu.desc


# ----------------------------------------------------------------------------- running
def _run_chunk(args):
    root, prop, jobs = args
    from .__main__ import run_property
    from . import astutil

    from .core import known_match, load_known_findings

    known = load_known_findings()
    base = Model.from_dir(root)
    sources = {m.path: m.source for m in base.modules.values()}
    out = []
    for path, ranges, k in jobs:
        new_src, desc = make_mutant(sources[path], ranges, k)
        if new_src is None or new_src == ast.unparse(ast.parse(sources[path])):
            out.append((path, k, desc, "invalid"))
            continue
        astutil._VIEWS.clear()
        try:
            mm = base.with_source(path, new_src)
            c2 = run_property(prop, mm, "quick")
            new = [f for f in c2.violations() if known_match(prop, f, known) is None]
            out.append((path, k, desc, "killed" if new else "survived"))
        except AnalysisError:
            out.append((path, k, desc, "analysis-error"))
        except Exception as exc:  # a crash of the analyser on a mutant is recorded, never raised
            out.append((path, k, desc, f"crash:{type(exc).__name__}"))
    return out


def seeded_for(prop):
    out = []
    for d in sorted(glob.glob(os.path.join(VERIF, "seeded", "*"))):
        mp = os.path.join(d, "meta.json")
        if not os.path.exists(mp) or not os.path.exists(os.path.join(d, "patch.diff")):
            continue
        try:
            meta = json.load(open(mp))
        except Exception:
            continue
        if meta.get("property") == prop or prop in meta.get("also_properties", []) or prop in meta.get("caught_by", []):
            out.append((d, meta))
    return out


def apply_patch_in_memory(model: Model, patch_path: str):
    """{path: new source} or None when the patch does not apply"""
    tmp = tempfile.mkdtemp(prefix="dropstat_live_")
    try:
        for m in model.modules.values():
            p = os.path.join(tmp, m.path)
            os.makedirs(os.path.dirname(p), exist_ok=True)
            with open(p, "w", encoding="utf-8") as fh:
                fh.write(m.source)
        r = subprocess.run(["patch", "-p1", "-s", "-f", "--no-backup-if-mismatch", "-i", patch_path], cwd=tmp, capture_output=True, text=True)
        if r.returncode != 0:
            return None
        out = {}
        for m in model.modules.values():
            with open(os.path.join(tmp, m.path), encoding="utf-8") as fh:
                out[m.path] = fh.read()
        return out
    finally:
        import shutil

        shutil.rmtree(tmp, ignore_errors=True)


def audit(prop, model: Model, ctx):
    from .__main__ import run_property
    from .core import known_match, load_known_findings
    from . import astutil

    res = {"seeded": {"caught": [], "missed": [], "skipped": []}, "dead": []}
    known = load_known_findings()
    # 1. seeded variants
    for d, meta in seeded_for(prop):
        name = os.path.basename(d)
        srcs = apply_patch_in_memory(model, os.path.join(d, "patch.diff"))
        if srcs is None:
            res["seeded"]["skipped"].append(name)
            continue
        astutil._VIEWS.clear()
        try:
            mm = Model(srcs, root=model.root)
            c2 = run_property(prop, mm, "quick")
            new = [f for f in c2.violations() if known_match(prop, f, known) is None]
            if new:
                res["seeded"]["caught"].append({"variant": name, "rule": new[0].rule, "site": new[0].site})
            elif meta.get("property") == prop:
                res["seeded"]["missed"].append(name)
                res["dead"].append(f"seeded variant {name} is not reported")
        except AnalysisError as exc:
            if meta.get("property") == prop:
                res["seeded"]["missed"].append(name)
                res["dead"].append(f"seeded variant {name}: analysis error instead of a violation: {exc}")
    astutil._VIEWS.clear()
    # 2. mutation adequacy
    by_file = function_ranges(model, sorted(ctx.functions))
    jobs = []
    for path, ranges in sorted(by_file.items()):
        mod = [m for m in model.modules.values() if m.path == path]
        if not mod:
            continue
        n = count_mutants(mod[0].source, ranges)
        jobs += [(path, ranges, k) for k in range(n)]
    total = len(jobs)
    if total > MAX_MUTANTS:
        step = total / MAX_MUTANTS
        jobs = [jobs[int(i * step)] for i in range(MAX_MUTANTS)]
    nproc = min(16, max(1, os.cpu_count() or 1))
    chunks = [jobs[i::nproc] for i in range(nproc) if jobs[i::nproc]]
    results = []
    if chunks:
        with ProcessPoolExecutor(len(chunks)) as ex:
            for part in ex.map(_run_chunk, [(model.root, prop, c) for c in chunks]):
                results += part
    tally: dict = {}
    for _, _, _, st in results:
        tally[st.split(":")[0]] = tally.get(st.split(":")[0], 0) + 1
    survivors = [f"{p}: {d}" for p, k, d, st in results if st == "survived"]
    res["mutants"] = {
        "applicable": total, "evaluated": len(results), "killed": tally.get("killed", 0), "analysis_error": tally.get("analysis-error", 0),
        "survived": tally.get("survived", 0), "invalid": tally.get("invalid", 0), "crash": tally.get("crash", 0),
        "kill_ratio": round((tally.get("killed", 0) + tally.get("analysis-error", 0)) / max(1, len(results) - tally.get("invalid", 0)), 3),
        "survivor_samples": survivors[:200],
        "functions": sorted(ctx.functions),
    }
    return res
