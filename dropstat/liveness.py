"""Liveness audit (thorough tier): placeholder until mutation operators are registered."""


def audit(prop, model, ctx):
    from .mutants import run_audit

    return run_audit(prop, model, ctx)
