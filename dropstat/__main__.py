"""CLI: ``python -m dropstat check <ID> --tier quick|thorough``,
``python -m dropstat explain <replay.json>``, ``python -m dropstat selftest``.

Exit codes: 0 property clauses hold (known findings are listed, not counted);
1 at least one unlisted violation (``VIOLATION property=<id> replay=<path>``);
2 the analysis itself could not be carried out (``ANALYSIS-ERROR ...``) — never a
verdict on the property.
"""

from __future__ import annotations

import argparse
import json
import os
import sys
import time
import traceback

from .core import Ctx, VIOLATED, known_match, load_known_findings, write_evidence, write_replay
from .model import AnalysisError, Model


def run_property(prop: str, model: Model, tier: str) -> Ctx:
    from .props import REGISTRY

    if prop not in REGISTRY:
        raise AnalysisError(f"no check registered for {prop}")
    ctx = Ctx(model, prop, tier)
    from .core import known_match, load_known_findings

    known = load_known_findings()
    try:
        REGISTRY[prop](ctx)
    except AnalysisError as exc:
        # a violation that was established before a later part of the analysis lost its anchor stays a verdict (reported with
        # exit 1); without one the run is analysis-broken (exit 2)
        if not [f for f in ctx.violations() if known_match(prop, f, known) is None]:
            raise
        ctx.info("ANALYSIS", "incomplete", None, f"a later part of the analysis could not be carried out: {exc}")
    if not [f for f in ctx.violations() if known_match(prop, f, known) is None]:
        # a recognised (new) violation is a verdict; a run that reports nothing new must prove it was not blind — listed
        # known findings do not excuse it from that
        ctx.check_minimums()
    return ctx


def cmd_check(args) -> int:
    t0 = time.time()
    prop = args.property
    tier = args.tier or os.environ.get("VERIF_TIER") or "quick"
    if tier not in ("quick", "thorough"):
        tier = "quick"
    try:
        seed = int(os.environ.get("VERIF_SEED", "0"))
    except ValueError:
        seed = 0
    ctx = None
    try:
        model = Model.from_dir(args.root)
        ctx = run_property(prop, model, tier)
        known = load_known_findings()
        new, known_hits = [], []
        for f in ctx.violations():
            k = known_match(prop, f, known)
            if k is not None:
                known_hits.append({"rule": f.rule, "site": f.site, "what": k.get("what", "")})
            else:
                new.append(f)
        liveness = None
        if tier == "thorough":
            from .liveness import audit

            liveness = audit(prop, model, ctx)
        for h in known_hits:
            print(f"KNOWN-FINDING: property={prop} {h['what']} [{h['rule']} @ {h['site']}]")
        for f in ctx.findings:
            if args.verbose or f.verdict == VIOLATED:
                print(f"  {f.verdict.upper():9s} {f.rule:12s} {f.site}  {f.file}:{f.line}  {f.detail}")
        n = len(new)
        write_evidence(prop, tier, seed, ctx, time.time() - t0, n, known_hits, selftest=liveness)
        if liveness is not None and liveness.get("dead"):
            raise AnalysisError(
                "liveness audit: rule instance(s) did not flip under their breaking edit: "
                + "; ".join(liveness["dead"][:5]),
                rule="LIVENESS",
            )
        for i, f in enumerate(new):
            path = write_replay(prop, i, f, args.root)
            print(f"VIOLATION property={prop} replay={path}")
        decided = len({f.key() for f in ctx.decided()})
        print(
            f"[{prop}] tier={tier} obligations={len(ctx.findings)} decided={decided} "
            f"violations={n} known={len(known_hits)} functions={len(ctx.functions)} "
            f"wall={time.time() - t0:.2f}s"
        )
        return 1 if n else 0
    except AnalysisError as exc:
        print(f"ANALYSIS-ERROR property={prop} rule={exc.rule} {exc}")
        write_evidence(prop, tier, seed, ctx, time.time() - t0, 0, [], error=str(exc))
        return 2
    except Exception as exc:  # never a traceback with exit 1
        tb = traceback.format_exc().strip().splitlines()
        print(f"ANALYSIS-ERROR property={prop} rule=- internal error: {exc!r} ({tb[-3:]})")
        write_evidence(prop, tier, seed, ctx, time.time() - t0, 0, [], error=repr(exc))
        return 2


def cmd_explain(args) -> int:
    with open(args.path, encoding="utf-8") as fh:
        rep = json.load(fh)
    prop, f = rep["property"], rep["finding"]
    print(f"property {prop}: rule {f['rule']} at {f['site']}")
    print(f"  recorded: {f['file']}:{f['line']}: {f['excerpt']}")
    print(f"  reason:   {f['detail']}")
    try:
        model = Model.from_dir(args.root)
        ctx = run_property(prop, model, "quick")
    except AnalysisError as exc:
        print(f"ANALYSIS-ERROR property={prop} rule={exc.rule} {exc}")
        return 2
    hits = [g for g in ctx.findings if g.rule == f["rule"] and g.site == f["site"]]
    if not hits:
        print("  now: this rule instance no longer exists in the current tree")
        return 0
    rc = 0
    for g in hits:
        print(f"  now: {g.verdict}: {g.file}:{g.line}: {g.excerpt}\n       {g.detail}")
        if g.verdict == VIOLATED:
            rc = 1
            src = model.modules.get(g.file[:-3].replace("/", "."))
            if src is not None and g.line:
                lines = src.source.splitlines()
                for ln in range(max(1, g.line - 3), min(len(lines), g.line + 4) + 1):
                    mark = ">>" if ln == g.line else "  "
                    print(f"    {mark} {ln:5d} {lines[ln - 1]}")
    if rc:
        print(f"VIOLATION property={prop} replay={args.path}")
    return rc


def main(argv=None) -> int:
    ap = argparse.ArgumentParser(prog="dropstat")
    sub = ap.add_subparsers(dest="cmd", required=True)
    c = sub.add_parser("check")
    c.add_argument("property")
    c.add_argument("--tier", default=None)
    c.add_argument("--root", default=os.environ.get("DROPSTAT_ROOT", "/repo"))
    c.add_argument("-v", "--verbose", action="store_true")
    e = sub.add_parser("explain")
    e.add_argument("path")
    e.add_argument("--root", default=os.environ.get("DROPSTAT_ROOT", "/repo"))
    s = sub.add_parser("selftest")
    s.add_argument("--quiet", action="store_true")
    s.add_argument("--root", default=os.environ.get("DROPSTAT_ROOT", "/repo"))
    s.add_argument("--jobs", type=int, default=16)
    args = ap.parse_args(argv)
    if args.cmd == "check":
        return cmd_check(args)
    if args.cmd == "explain":
        return cmd_explain(args)
    if args.cmd == "selftest":
        from .selftest import main as st_main

        return st_main(args)
    return 2


if __name__ == "__main__":
    sys.exit(main())
