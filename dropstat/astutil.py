"""AST helpers: function views with CFG + reaching definitions, def-use expansion,
call lookup, small pattern predicates."""

from __future__ import annotations

import ast
import copy

from .cfg import CFG, Node, walk_no_nested, body_statements
from .model import FuncInfo, Model, dotted


def U(node) -> str:
    try:
        return ast.unparse(node)
    except Exception:  # pragma: no cover
        return "<?>"


def names_in(node) -> set:
    return {n.id for n in ast.walk(node) if isinstance(n, ast.Name)}


def calls_in(node, nested=True):
    it = ast.walk(node) if nested else walk_no_nested(node)
    return [n for n in it if isinstance(n, ast.Call)]


def kwarg(call: ast.Call, name: str):
    for kw in call.keywords:
        if kw.arg == name:
            return kw.value
    return None


def arg_or_kw(call: ast.Call, pos: int, name: str):
    v = kwarg(call, name)
    if v is not None:
        return v
    if pos is not None and pos < len(call.args) and not any(isinstance(a, ast.Starred) for a in call.args[: pos + 1]):
        return call.args[pos]
    return None


def has_star_kwargs(call: ast.Call, name: str | None = None) -> bool:
    for kw in call.keywords:
        if kw.arg is None:
            if name is None or (isinstance(kw.value, ast.Name) and kw.value.id == name):
                return True
    return False


def is_const(node, value=...):
    if not isinstance(node, ast.Constant):
        return False
    return value is ... or (node.value == value and type(node.value) is type(value))


def is_num(node, value=None):
    if isinstance(node, ast.UnaryOp) and isinstance(node.op, ast.USub) and isinstance(node.operand, ast.Constant):
        v = node.operand.value
        if isinstance(v, (int, float)) and not isinstance(v, bool):
            return value is None or -v == value
        return False
    if isinstance(node, ast.Constant) and isinstance(node.value, (int, float)) and not isinstance(node.value, bool):
        return value is None or node.value == value
    return False


def num_value(node):
    if isinstance(node, ast.UnaryOp) and isinstance(node.op, ast.USub) and isinstance(node.operand, ast.Constant):
        return -node.operand.value
    if isinstance(node, ast.Constant):
        return node.value
    return None


def attr_chain(node) -> list | None:
    """['self', 'data', 'dtype'] for self.data.dtype"""
    d = dotted(node)
    return d.split(".") if d else None


def strip_subscripts(node):
    while isinstance(node, ast.Subscript):
        node = node.value
    return node


MUTATORS = {"append", "extend", "pop", "remove", "insert", "clear", "add", "discard", "update", "setdefault", "sort", "reverse", "fill", "popitem"}


class FuncView:
    """One function with CFG, reaching definitions, expression → CFG node map."""

    def __init__(self, model: Model, fi: FuncInfo):
        self.model = model
        self.fi = fi
        self.mod = fi.module
        body = fi.node.body if not isinstance(fi.node, ast.Lambda) else [ast.Return(value=fi.node.body)]
        self.body = body
        self.cfg = CFG(body)
        params = list(fi.all_params)
        if fi.vararg:
            params.append(fi.vararg)
        if fi.kwarg:
            params.append(fi.kwarg)
        self.params = params
        self.IN, self.gen = self.cfg.reaching_definitions(params)
        self.node_of_expr: dict[int, Node] = {}
        for n in self.cfg.nodes:
            for root in self._roots(n):
                for sub in walk_no_nested(root):
                    self.node_of_expr.setdefault(id(sub), n)
        self._dom = None
        self._pdom = None
        # names whose object is mutated in place somewhere in this function (or in a
        # nested closure): never inlined by expand()
        self.mutated: set = set()
        for sub in ast.walk(fi.node):
            tgts = []
            if isinstance(sub, ast.Assign):
                tgts = sub.targets
            elif isinstance(sub, (ast.AugAssign, ast.AnnAssign)):
                tgts = [sub.target]
            elif isinstance(sub, ast.Call) and isinstance(sub.func, ast.Attribute) and sub.func.attr in MUTATORS:
                root = sub.func.value
                while isinstance(root, (ast.Attribute, ast.Subscript)):
                    root = root.value
                if isinstance(root, ast.Name):
                    self.mutated.add(root.id)
            for t in tgts:
                for tt in (t.elts if isinstance(t, (ast.Tuple, ast.List)) else [t]):
                    if isinstance(tt, (ast.Subscript, ast.Attribute)):
                        root = tt
                        while isinstance(root, (ast.Attribute, ast.Subscript)):
                            root = root.value
                        if isinstance(root, ast.Name):
                            self.mutated.add(root.id)

    @staticmethod
    def _roots(n: Node):
        s = n.stmt
        if s is None:
            return []
        if n.kind == "loop":
            return [s.iter, s.target]
        if n.kind == "with":
            out = []
            for it in s.items:
                out.append(it.context_expr)
                if it.optional_vars is not None:
                    out.append(it.optional_vars)
            return out
        if n.kind == "handler":
            return [s.type] if s.type is not None else []
        if isinstance(s, (ast.FunctionDef, ast.AsyncFunctionDef, ast.ClassDef)):
            return []
        return [s]

    # ------------------------------------------------------------------
    @property
    def dom(self):
        if self._dom is None:
            self._dom = self.cfg.dominators()
        return self._dom

    @property
    def dom_exc(self):
        """dominators with exception edges included (handlers are reachable)"""
        if getattr(self, "_dom_exc", None) is None:
            self._dom_exc = self.cfg._dom(self.cfg.entry, "succ", "pred", exclude_exc=False)
        return self._dom_exc

    @property
    def pdom(self):
        if self._pdom is None:
            self._pdom = self.cfg.post_dominators()
        return self._pdom

    def node_of(self, expr_or_stmt) -> Node | None:
        if isinstance(expr_or_stmt, Node):
            return expr_or_stmt
        n = self.cfg.node_for(expr_or_stmt)
        if n is not None:
            return n
        return self.node_of_expr.get(id(expr_or_stmt))

    def dominates(self, a, b) -> bool:
        na, nb = self.node_of(a), self.node_of(b)
        if na is None or nb is None:
            return False
        if na in self.dom[nb]:
            return True
        # b only reachable through an exception handler: judge with exception edges
        if len(self.dom[nb]) == 1 and nb is not self.cfg.entry or self._only_exc_reachable(nb):
            return na in self.dom_exc[nb]
        return False

    def _only_exc_reachable(self, nb) -> bool:
        if getattr(self, "_normal_reach", None) is None:
            seen, work = set(), [self.cfg.entry]
            while work:
                n = work.pop()
                if n in seen:
                    continue
                seen.add(n)
                work.extend(x for x, lab in n.succ if lab != "exc")
            self._normal_reach = seen
        return nb not in self._normal_reach

    def post_dominates(self, a, b) -> bool:
        """a post-dominates b (every normal path from b to exit passes a)."""
        na, nb = self.node_of(a), self.node_of(b)
        if na is None or nb is None:
            return False
        return na in self.pdom[nb]

    def statements(self):
        return list(body_statements(self.body))

    def calls(self, nested=False):
        out = []
        for n in self.cfg.nodes:
            for root in self._roots(n):
                out.extend(c for c in (ast.walk(root) if nested else walk_no_nested(root)) if isinstance(c, ast.Call))
        return out

    def callee(self, call) -> str | None:
        return self.model.callee(self.mod, call)

    def calls_to(self, *suffixes, nested=False):
        out = []
        for c in self.calls(nested=nested):
            name = self.callee(c) or ""
            raw = dotted(c.func) or ""
            if isinstance(c.func, ast.Attribute):
                last = c.func.attr
            elif isinstance(c.func, ast.Name):
                last = c.func.id
            else:
                last = ""
            for s in suffixes:
                if name == s or name.endswith("." + s) or raw == s or last == s:
                    out.append(c)
                    break
        return out

    # -------------------------------------------------------- definitions
    def defs_reaching(self, name: str, at) -> frozenset:
        n = at if isinstance(at, Node) else self.node_of(at)
        if n is None:
            return frozenset()
        return self.IN[n].get(name, frozenset())

    def value_of_def(self, defnode: Node, name: str):
        """Expression assigned to ``name`` at ``defnode`` or None when not a plain
        (tuple-)assignment. AugAssign gives a BinOp over the previous value."""
        s = defnode.stmt
        if defnode.kind == "loop":
            return self._component(s.target, ast.Call(func=ast.Name(id="__iter_elem__", ctx=ast.Load()), args=[s.iter], keywords=[]), name)
        if isinstance(s, ast.Assign):
            for t in s.targets:
                v = self._component(t, s.value, name)
                if v is not None:
                    return v
            return None
        if isinstance(s, ast.AnnAssign) and isinstance(s.target, ast.Name) and s.target.id == name:
            return s.value
        if isinstance(s, ast.AugAssign) and isinstance(s.target, ast.Name) and s.target.id == name:
            return ast.BinOp(left=ast.Name(id=name, ctx=ast.Load()), op=s.op, right=s.value)
        if s is not None and not isinstance(s, (ast.FunctionDef, ast.ClassDef)):
            for sub in walk_no_nested(s):
                if isinstance(sub, ast.NamedExpr) and isinstance(sub.target, ast.Name) and sub.target.id == name:
                    return sub.value
        return None

    @staticmethod
    def _component(target, value, name):
        if isinstance(target, ast.Name):
            return value if target.id == name else None
        if isinstance(target, (ast.Tuple, ast.List)):
            for i, e in enumerate(target.elts):
                if isinstance(value, (ast.Tuple, ast.List)) and len(value.elts) == len(target.elts) and not any(isinstance(x, ast.Starred) for x in target.elts):
                    v = FuncView._component(e, value.elts[i], name)
                else:
                    if isinstance(e, ast.Starred):
                        sub = ast.Subscript(value=value, slice=ast.Slice(lower=ast.Constant(i), upper=None, step=None), ctx=ast.Load())
                        v = FuncView._component(e.value, sub, name)
                    else:
                        sub = ast.Subscript(value=value, slice=ast.Constant(i), ctx=ast.Load())
                        v = FuncView._component(e, sub, name)
                if v is not None:
                    return v
        return None

    def single_def_value(self, name: str, at, assume=()):
        """Value expression of the unique plain definition of ``name`` reaching ``at``
        (None if a parameter, multiple definitions or non-plain).  ``assume`` is a set of
        (test text, outcome) facts: definitions guarded by the opposite outcome are ignored."""
        defs = self.defs_reaching(name, at)
        if len(defs) != 1 and assume:
            si = stmt_index(self)
            keep = []
            for d in defs:
                if d is self.cfg.entry or d.stmt is None:
                    keep.append(d)
                    continue
                if not contradicts(si.effective_guards(d.stmt), assume):
                    keep.append(d)
            # a definition that certainly executes under the assumption kills the earlier ones it is dominated by
            at_node = at if isinstance(at, Node) else self.node_of(at)
            at_facts = set()
            if at_node is not None and at_node.stmt is not None:
                for t, p in si.effective_guards(at_node.stmt):
                    at_facts.update(canon_tests(t, p))
            sure = []
            for d in keep:
                if d is self.cfg.entry or d.stmt is None:
                    continue
                known = set(assume) | at_facts
                if all(truth_under(t, known) == p for t, p in si.effective_guards(d.stmt)):
                    sure.append(d)
            killed = set()
            for d2 in sure:
                for d1 in keep:
                    if d1 is not d2 and (d1 is self.cfg.entry or (d1.stmt is not None and self.dominates(d1.stmt, d2.stmt))):
                        killed.add(d1)
            defs = [d for d in keep if d not in killed]
        if len(defs) != 1:
            return None
        (d,) = defs
        if d is self.cfg.entry:
            return None
        if isinstance(d.stmt, ast.AugAssign):
            return None
        v = self.value_of_def(d, name)
        return (v, d) if v is not None else None

    def expand(self, expr, at=None, depth: int = 8, stop=(), allow_mutated=False, assume=()):
        """Copy of ``expr`` in which local names with a unique plain reaching
        definition are replaced by their defining expression (recursively)."""
        at_node = at if isinstance(at, Node) else self.node_of(at if at is not None else expr)
        if at_node is None:
            return expr
        view = self

        class T(ast.NodeTransformer):
            def __init__(self, node, depth):
                self.node = node
                self.depth = depth

            def visit_Lambda(self, n):
                return n

            def visit_Name(self, n):
                if not isinstance(n.ctx, ast.Load) or n.id in stop or self.depth <= 0:
                    return n
                if n.id in view.mutated and not allow_mutated:
                    return n
                r = view.single_def_value(n.id, self.node, assume=assume)
                if r is None:
                    return n
                v, d = r
                if d.kind in ("loop", "with", "handler"):
                    return n
                if isinstance(v, ast.Call) and isinstance(v.func, ast.Name) and v.func.id == "__iter_elem__":
                    return n
                # every free name of v must have the same reaching defs at d and at use
                for fn in names_in(v):
                    if view.IN[d].get(fn, frozenset()) != view.IN[self.node].get(fn, frozenset()):
                        if fn == n.id:
                            continue
                        return n
                return T(d, self.depth - 1).visit(copy.deepcopy(v))

        return T(at_node, depth).visit(copy.deepcopy(expr))

    def return_nodes(self):
        return [n for n in self.cfg.nodes if isinstance(n.stmt, ast.Return)]

    def assigns_to_attr(self, base: str | None = None):
        """(stmt, target) for every store whose target is an Attribute/Subscript."""
        out = []
        for s in self.statements():
            targets = []
            if isinstance(s, ast.Assign):
                targets = s.targets
            elif isinstance(s, (ast.AugAssign, ast.AnnAssign)):
                targets = [s.target]
            for t in targets:
                for tt in (t.elts if isinstance(t, (ast.Tuple, ast.List)) else [t]):
                    if isinstance(tt, (ast.Attribute, ast.Subscript)):
                        root = tt
                        while isinstance(root, (ast.Attribute, ast.Subscript)):
                            root = root.value
                        if base is None or (isinstance(root, ast.Name) and root.id == base):
                            out.append((s, tt))
        return out


_VIEWS: dict = {}


def view(model: Model, fi: FuncInfo) -> FuncView:
    k = (id(model), id(fi.node))
    v = _VIEWS.get(k)
    if v is None:
        v = FuncView(model, fi)
        _VIEWS[k] = v
    return v


def own_exprs(s):
    """Expression roots evaluated by statement ``s`` itself (not by nested blocks)."""
    if isinstance(s, ast.If) or isinstance(s, ast.While):
        return [s.test]
    if isinstance(s, (ast.For, ast.AsyncFor)):
        return [s.iter, s.target]
    if isinstance(s, (ast.With, ast.AsyncWith)):
        out = []
        for it in s.items:
            out.append(it.context_expr)
            if it.optional_vars is not None:
                out.append(it.optional_vars)
        return out
    if isinstance(s, ast.Try):
        return []
    if isinstance(s, (ast.FunctionDef, ast.AsyncFunctionDef, ast.ClassDef)):
        return []
    return [s]


class StmtIndex:
    """Parent links between statements of one function body."""

    def __init__(self, body):
        self.parent: dict[int, tuple] = {}  # id(stmt) -> (parent stmt, field, polarity)
        self.stmt_of: dict[int, ast.AST] = {}
        self.all: list = []
        self.root_body = body
        self._walk(body, None, "body")

    def _walk(self, body, parent, fld):
        for s in body:
            self.parent[id(s)] = (parent, fld)
            self.all.append(s)
            for root in own_exprs(s):
                for sub in walk_no_nested(root):
                    self.stmt_of.setdefault(id(sub), s)
            if isinstance(s, (ast.FunctionDef, ast.AsyncFunctionDef, ast.ClassDef)):
                continue
            for f in ("body", "orelse", "finalbody"):
                sub = getattr(s, f, None)
                if sub:
                    self._walk(sub, s, f)
            for h in getattr(s, "handlers", []) or []:
                self.parent[id(h)] = (s, "handlers")
                self._walk(h.body, h, "body")

    def statement(self, node):
        if id(node) in self.parent:
            return node
        return self.stmt_of.get(id(node))

    def ancestors(self, node):
        s = self.statement(node)
        out = []
        while s is not None:
            p = self.parent.get(id(s))
            if p is None or p[0] is None:
                break
            out.append(p)
            s = p[0]
        return out

    def guards(self, node):
        """[(test expr, polarity)] of enclosing ``if`` statements, innermost first."""
        out = []
        for parent, fld in self.ancestors(node):
            if isinstance(parent, ast.If):
                out.append((parent.test, fld == "body"))
        return out

    def effective_guards(self, node):
        """explicit guards plus the implicit ones established by earlier siblings (at any
        enclosing level) of the form ``if C: <always exits>`` (→ not C) or
        ``if C: ... else: <always exits>`` (→ C)"""
        from .normalize import always_exits

        out = list(self.guards(node))
        s = self.statement(node)
        while s is not None:
            p = self.parent.get(id(s))
            if p is None:
                break
            parent, fld = p
            if parent is None:
                block = self.root_body
            elif isinstance(parent, ast.ExceptHandler):
                block = parent.body
            else:
                block = getattr(parent, fld, []) if fld != "handlers" else []
            for prev in block:
                if prev is s:
                    break
                if isinstance(prev, ast.If):
                    if always_exits(prev.body) and not always_exits(prev.orelse):
                        out.append((prev.test, False))
                    elif prev.orelse and always_exits(prev.orelse) and not always_exits(prev.body):
                        out.append((prev.test, True))
            s = parent if not isinstance(parent, ast.ExceptHandler) else self.parent.get(id(parent), (None,))[0]
        return out

    def enclosing(self, node, kinds):
        for parent, fld in self.ancestors(node):
            if isinstance(parent, kinds):
                return parent, fld
        return None


def stmt_index(fv: "FuncView") -> StmtIndex:
    si = getattr(fv, "_si", None)
    if si is None:
        si = StmtIndex(fv.body)
        fv._si = si
    return si


def compare_parts(test):
    """(left, op, right) for a simple binary Compare, else None"""
    if isinstance(test, ast.Compare) and len(test.ops) == 1:
        return test.left, test.ops[0], test.comparators[0]
    return None


def flat_tests(test, polarity=True):
    """[(atomic test, polarity)] implied by ``test`` taken with ``polarity`` (conjunctions for
    True, disjunctions for False; other compound tests are returned as they are)"""
    if isinstance(test, ast.UnaryOp) and isinstance(test.op, ast.Not):
        return flat_tests(test.operand, not polarity)
    if isinstance(test, ast.BoolOp):
        if (isinstance(test.op, ast.And) and polarity) or (isinstance(test.op, ast.Or) and not polarity):
            out = []
            for v in test.values:
                out.extend(flat_tests(v, polarity))
            return out
    return [(test, polarity)]


def branch_table(stmts):
    """Flatten a dispatch written as an if/elif/else chain, as consecutive early-exit ifs, or
    any mixture: returns ([(test, body)], default_body).  ``stmts`` is a statement list whose
    first ``if`` starts the dispatch (statements before it are skipped).  For an elif chain the
    default is the final else (statements after the chain run for every branch and are not part
    of the dispatch); for consecutive early-exit ifs the default is what follows them."""
    from .normalize import always_exits

    table = []
    i = 0
    while i < len(stmts) and not isinstance(stmts[i], ast.If):
        i += 1
    if i >= len(stmts):
        return table, []
    s, rest = stmts[i], list(stmts[i + 1:])
    while True:
        table.append((s.test, s.body))
        if s.orelse:
            if len(s.orelse) == 1 and isinstance(s.orelse[0], ast.If):
                s, rest = s.orelse[0], []
                continue
            if always_exits(s.orelse) or not rest:
                return table, list(s.orelse)
            return table, list(s.orelse)
        if always_exits(s.body) and rest:
            if isinstance(rest[0], ast.If):
                s, rest = rest[0], rest[1:]
                continue
            return table, rest
        return table, []


def const_strings(node):
    return [n.value for n in ast.walk(node) if isinstance(n, ast.Constant) and isinstance(n.value, str)]


# ----------------------------------------------------------------------------------------------
# path-sensitive symbolic evaluation
class _Subst(ast.NodeTransformer):
    def __init__(self, env, decisions):
        self.env, self.decisions = env, decisions

    def visit_Lambda(self, n):
        return n

    def visit_Name(self, n):
        if isinstance(n.ctx, ast.Load) and n.id in self.env and self.env[n.id] is not None:
            return copy.deepcopy(self.env[n.id])
        return n

    def visit_IfExp(self, n):
        t = self.visit(copy.deepcopy(n.test))
        txt = U(t)
        for k, pol in (("%s" % txt, True), ("not %s" % txt, False)):
            if k in self.decisions:
                taken = self.decisions[k] if pol else not self.decisions[k]
                return self.visit(n.body if taken else n.orelse)
        return ast.copy_location(ast.IfExp(test=t, body=self.visit(n.body), orelse=self.visit(n.orelse)), n)


def symbolic_paths(fv: "FuncView", at, exprs, stop=(), limit=6000, opaque_calls=(), keep=()):
    """Enumerate the acyclic CFG paths from the function entry to ``at`` (statement,
    expression or CFG node).  For every path return (decisions, values) where
    ``decisions`` maps the text of each branch test taken on the path to its outcome and
    ``values`` are the expressions ``exprs`` with local names replaced by the value they
    have on that path (plain assignments and augmented assignments; loop variables,
    parameters and names in ``stop`` stay symbolic)."""
    target = fv.node_of(at)
    if target is None:
        return []
    try:
        paths = fv.cfg.paths(fv.cfg.entry, {target}, limit=limit)
    except RuntimeError:
        return []
    out = []
    for p in paths:
        if p[-1][0] is not target:
            continue
        env: dict = {}
        decisions: dict = {}
        for k, (node, lab) in enumerate(p[:-1]):
            nxt = p[k + 1][1]
            s = node.stmt
            if node.kind == "test" and s is not None and nxt in ("T", "F"):
                t = _Subst(env, decisions).visit(copy.deepcopy(s))
                decisions[U(t)] = nxt == "T"
                if U(s) != U(t):
                    decisions[U(s)] = nxt == "T"
            if s is None:
                continue
            if node.kind == "loop":
                for nm in CFG.defs_of(node):
                    env[nm] = None
                continue
            if isinstance(s, ast.Assign) and len(s.targets) == 1:
                t = s.targets[0]
                if isinstance(t, ast.Name):
                    env[t.id] = None if t.id in stop else _Subst(env, decisions).visit(copy.deepcopy(s.value))
                elif isinstance(t, (ast.Tuple, ast.List)):
                    # simultaneous assignment (x, y = y, x): every right-hand side is read before any target is bound
                    new_vals = {}
                    for nm in CFG.defs_of(node):
                        v = FuncView._component(t, s.value, nm)
                        # names in `keep` stay symbolic where they are computed, but copies between names are followed
                        if nm in keep and not isinstance(v, ast.Name):
                            v = None
                        new_vals[nm] = None if (v is None or nm in stop) else _Subst(env, decisions).visit(copy.deepcopy(v))
                    env.update(new_vals)
            elif isinstance(s, ast.AnnAssign) and isinstance(s.target, ast.Name) and s.value is not None:
                env[s.target.id] = None if s.target.id in stop else _Subst(env, decisions).visit(copy.deepcopy(s.value))
            elif isinstance(s, ast.AugAssign) and isinstance(s.target, ast.Name):
                prev = env.get(s.target.id)
                base = copy.deepcopy(prev) if prev is not None else ast.Name(id=s.target.id, ctx=ast.Load())
                env[s.target.id] = None if s.target.id in stop else ast.BinOp(left=base, op=s.op, right=_Subst(env, decisions).visit(copy.deepcopy(s.value)))
            else:
                for nm in CFG.defs_of(node):
                    env[nm] = None
            # a mutator method called on a local (`x.append(v)`, `x.update(d)`) changes the object as well
            if isinstance(s, ast.Expr) and isinstance(s.value, ast.Call) and isinstance(s.value.func, ast.Attribute) and s.value.func.attr in MUTATORS \
                    and isinstance(s.value.func.value, ast.Name) and env.get(s.value.func.value.id) is not None and s.value.func.value.id not in ("self", "cls"):
                nm_ = s.value.func.value.id
                if not (isinstance(env[nm_], ast.Call) and isinstance(env[nm_].func, ast.Name) and env[nm_].func.id == "__modified_in_place__"):
                    env[nm_] = ast.Call(func=ast.Name(id="__modified_in_place__", ctx=ast.Load()), args=[env[nm_]], keywords=[])
            # an in-place store through a local (`x[i] = v`, `x.flat[k] = v`, `x[m] += v`) changes the object the name is bound
            # to: from here on the name no longer stands for its defining expression
            tg_ = s.targets if isinstance(s, ast.Assign) else ([s.target] if isinstance(s, (ast.AugAssign, ast.AnnAssign)) else [])
            for t_ in tg_:
                for tt_ in (t_.elts if isinstance(t_, (ast.Tuple, ast.List)) else [t_]):
                    if isinstance(tt_, (ast.Subscript, ast.Attribute)):
                        root_ = tt_
                        while isinstance(root_, (ast.Subscript, ast.Attribute)):
                            root_ = root_.value
                        if isinstance(root_, ast.Name) and env.get(root_.id) is not None and root_.id not in ("self", "cls"):
                            env[root_.id] = ast.Call(func=ast.Name(id="__modified_in_place__", ctx=ast.Load()), args=[env[root_.id]], keywords=[])
        vals = [_Subst(env, decisions).visit(copy.deepcopy(e)) for e in exprs]
        out.append((decisions, vals))
    return out


def ifexp_cases(expr, conds=()):
    """[(conditions, value)] obtained by splitting conditional expressions at the top of
    ``expr``; conditions are (test text, outcome) pairs"""
    if isinstance(expr, ast.IfExp):
        t = U(expr.test)
        return ifexp_cases(expr.body, conds + ((t, True),)) + ifexp_cases(expr.orelse, conds + ((t, False),))
    # a conditional expression below the top (`(a if c else b) < x`): the expression once with each alternative
    if isinstance(expr, ast.AST) and len(conds) < 6:
        inner = _first_ifexp(expr)
        if inner is not None:
            t = U(inner.test)
            out = []
            for outcome in (True, False):
                class _R(ast.NodeTransformer):
                    # every conditional expression with this very test takes the same alternative
                    def visit_IfExp(self, n):
                        if U(n.test) == t:
                            return self.visit(copy.deepcopy(n.body if outcome else n.orelse))
                        return self.generic_visit(n)

                    def visit_Lambda(self, n):
                        return n

                e2 = _R().visit(copy.deepcopy(expr))
                out.extend(ifexp_cases(e2, conds + ((t, outcome),)))
            return out
    return [(conds, expr)]


def _first_ifexp(expr):
    work = [expr]
    while work:
        n = work.pop(0)
        if isinstance(n, ast.IfExp):
            return n
        if isinstance(n, (ast.Lambda, ast.ListComp, ast.SetComp, ast.DictComp, ast.GeneratorExp)):
            continue
        work.extend(ast.iter_child_nodes(n))
    return None


def _copy_keep(expr, keep):
    """the expression itself (the transformer below rebuilds only the path to ``keep``; identity of ``keep`` must survive, so
    no deep copy is taken here — NodeTransformer mutates in place, therefore work on a shallow structural copy)"""
    class _C(ast.NodeTransformer):
        def generic_visit(self, node):
            if node is keep:
                return node
            new = copy.copy(node)
            for field, old in ast.iter_fields(node):
                if isinstance(old, list):
                    setattr(new, field, [self.visit(x) if isinstance(x, ast.AST) else x for x in old])
                elif isinstance(old, ast.AST):
                    setattr(new, field, self.visit(old))
            return new

    return _C().visit(expr)


def value_cases(fv, at, expr, stop=(), keep=()):
    """[(conditions: dict test text -> bool, value text)] over all paths to ``at`` and all
    conditional-expression alternatives"""
    out = []
    for dec, (v,) in symbolic_paths(fv, at, [expr], stop=stop, keep=keep):
        for conds, val in ifexp_cases(v):
            d = dict(dec)
            d.update({t: o for t, o in conds})
            out.append((d, val))
    return out


def truth_of(decisions: dict, test_text: str):
    """outcome of ``test_text`` under ``decisions`` (True/False/None), looking through
    conjunctions/disjunctions/negations recorded in the decisions"""
    if test_text in decisions:
        return decisions[test_text]
    neg = _negated_text(test_text)
    if neg is not None and neg in decisions:
        return not decisions[neg]
    for k, v in decisions.items():
        try:
            t = ast.parse(k, mode="eval").body
        except SyntaxError:
            continue
        for sub, pol in flat_tests(t, v):
            if U(sub) == test_text:
                return pol
            if neg is not None and U(sub) == neg:
                return not pol
    return None


def _negated_text(test_text):
    """text of the exact negation of a simple comparison (== / != / is / is not / in / not in)"""
    from .normalize import NEG_EXACT

    try:
        t = ast.parse(test_text, mode="eval").body
    except SyntaxError:
        return None
    if isinstance(t, ast.Compare) and len(t.ops) == 1 and type(t.ops[0]) in NEG_EXACT:
        return U(ast.Compare(left=t.left, ops=[NEG_EXACT[type(t.ops[0])]()], comparators=t.comparators))
    if isinstance(t, ast.UnaryOp) and isinstance(t.op, ast.Not):
        return U(t.operand)
    if isinstance(t, (ast.Name, ast.Attribute, ast.Call, ast.Subscript)):
        return "not " + U(t)
    return None


def filtered_collection(fv, name, at):
    """Recognise ``name`` (as seen at ``at``) as the sub-sequence of a source iterable that
    satisfies a condition, written either as ``[x for x in SRC if COND]`` or as
    ``name = []; for x in SRC: if COND: name.append(x)``.
    Returns (source text, condition text with the element variable replaced by ``_``, defining statement) or None."""
    r = filtered_collection_defs(fv, name, at)
    if r is None or len(r) != 1 or r[0][1] is None:
        return None
    return r[0]


def filtered_collection_defs(fv, name, at):
    """like filtered_collection, for every definition of ``name`` that reaches ``at``: a list of (source text, condition text
    or None for an unfiltered copy of the source (list(SRC), SRC[:], [x for x in SRC]), defining statement); None when one
    of the definitions is neither"""
    node = fv.node_of(at)
    if node is None:
        return None
    defs = [d for d in fv.defs_reaching(name, node) if d.stmt is not None]
    if not defs or len(defs) != len(fv.defs_reaching(name, node)):
        return None

    def norm(cond, var):
        class R(ast.NodeTransformer):
            def visit_Name(self, n):
                return ast.copy_location(ast.Name(id="_", ctx=n.ctx), n) if n.id == var else n

        return U(R().visit(copy.deepcopy(cond)))

    out = []
    work = []
    for d in defs:
        v0 = fv.value_of_def(d, name)
        # a conditional expression selects between alternatives like two branch-wise definitions do
        for _c, alt in (ifexp_cases(v0) if v0 is not None else [((), v0)]):
            work.append((d, alt))
    for d, v in work:
        if isinstance(v, ast.Call) and dotted_name(v.func) in ("list", "tuple") and len(v.args) == 1 and not v.keywords:
            out.append((U(v.args[0]), None, d.stmt))
            continue
        if isinstance(v, (ast.Name, ast.Attribute)) and U(v) in ("self",):
            out.append((U(v), None, d.stmt))  # the collection itself
            continue
        if isinstance(v, ast.Subscript) and isinstance(v.slice, ast.Slice) and v.slice.lower is None and v.slice.upper is None and v.slice.step is None:
            out.append((U(v.value), None, d.stmt))
            continue
        if isinstance(v, ast.ListComp) and len(v.generators) == 1 and isinstance(v.generators[0].target, ast.Name):
            g = v.generators[0]
            if U(v.elt) == g.target.id and len(g.ifs) == 1:
                out.append((U(g.iter), norm(g.ifs[0], g.target.id), d.stmt))
                continue
            if U(v.elt) == g.target.id and not g.ifs:
                out.append((U(g.iter), None, d.stmt))
                continue
            return None
        if isinstance(v, ast.List) and not v.elts:
            si = stmt_index(fv)
            apps = [c for c in fv.calls() if isinstance(c.func, ast.Attribute) and c.func.attr == "append" and U(c.func.value) == name
                    and d in fv.defs_reaching(name, fv.node_of(c))]
            others = [c for c in fv.calls() if isinstance(c.func, ast.Attribute) and U(c.func.value) == name and c.func.attr in MUTATORS - {"append"}]
            if len(apps) != 1 or others:
                return None
            c = apps[0]
            lpq = si.enclosing(c, (ast.For,))
            if lpq is None or not isinstance(lpq[0].target, ast.Name):
                return None
            lp = lpq[0]
            var = lp.target.id
            if len(c.args) != 1 or U(c.args[0]) != var:
                return None
            conds = [(t, p) for t, p in si.effective_guards(c) if any(x is t for x in ast.walk(lp))]
            if len(conds) != 1 or not conds[0][1]:
                return None
            out.append((U(lp.iter), norm(conds[0][0], var), d.stmt))
            continue
        return None
    return out


def loop_as_comprehension(loop: ast.For, result: str):
    """``for x in E: [tmp = f(x);] [if cond:] result.append(v)``  →  equivalent list
    comprehension ``[v' for x in E if cond']`` with loop-local temporaries substituted.
    Returns None when the loop body has another shape."""
    import copy

    if not (isinstance(loop.target, ast.Name) or (isinstance(loop.target, ast.Tuple) and all(isinstance(e, ast.Name) for e in loop.target.elts))) or loop.orelse:
        return None
    env = {}
    body = list(loop.body)

    class Sub(ast.NodeTransformer):
        def visit_Name(self, n):
            if isinstance(n.ctx, ast.Load) and n.id in env:
                return copy.deepcopy(env[n.id])
            return n

    conds = []
    while body:
        s = body[0]
        if isinstance(s, ast.Assign) and len(s.targets) == 1 and isinstance(s.targets[0], ast.Name) and s.targets[0].id != result:
            env[s.targets[0].id] = Sub().visit(copy.deepcopy(s.value))
            body = body[1:]
            continue
        if isinstance(s, ast.If) and not s.orelse and len(body) == 1:
            conds.append(Sub().visit(copy.deepcopy(s.test)))
            body = list(s.body)
            continue
        if isinstance(s, ast.If) and len(s.body) == 1 and isinstance(s.body[0], ast.Continue) and not s.orelse:
            conds.append(ast.UnaryOp(op=ast.Not(), operand=Sub().visit(copy.deepcopy(s.test))))
            body = body[1:]
            continue
        break
    # appends to *other* lists filled by the same loop do not concern this result
    body = [b for b in body if not (isinstance(b, ast.Expr) and isinstance(b.value, ast.Call) and isinstance(b.value.func, ast.Attribute) and b.value.func.attr == "append"
                                    and isinstance(b.value.func.value, ast.Name) and b.value.func.value.id != result and b.value.func.value.id not in env)]
    if len(body) != 1 or not isinstance(body[0], ast.Expr) or not isinstance(body[0].value, ast.Call):
        return None
    c = body[0].value
    if not (isinstance(c.func, ast.Attribute) and c.func.attr == "append" and isinstance(c.func.value, ast.Name) and c.func.value.id == result and len(c.args) == 1):
        return None
    elt = Sub().visit(copy.deepcopy(c.args[0]))
    comp = ast.ListComp(elt=elt, generators=[ast.comprehension(target=loop.target, iter=loop.iter, ifs=conds, is_async=0)])
    return ast.copy_location(comp, loop)




# ----------------------------------------------------------------------------------------------
# canonical guards and aliases (recognisers compare these, never the literal spelling)
def canon_tests(test, polarity=True):
    """[(text, polarity)] of the atomic tests implied by ``test`` taken with ``polarity``:
    negative comparison operators (!=, is not, not in) are rewritten to their positive twin with
    the polarity flipped (exact for every operand), `a > b` is spelled `b < a`, `a >= b` as `b <= a`
    (polarity is never folded into an ordering: `not a < b` is not `a >= b` for NaN)."""
    from .normalize import NEG_EXACT

    out = []
    work = []
    for t, p in flat_tests(test, polarity):
        if isinstance(t, ast.Compare) and len(t.ops) > 1 and p:
            # a <= b < c  ≡  a <= b and b < c  (operands are evaluated once; they are pure here)
            l = t.left
            for op, r in zip(t.ops, t.comparators):
                work.append((ast.Compare(left=l, ops=[op], comparators=[r]), True))
                l = r
        else:
            work.append((t, p))
    for t, p in work:
        if isinstance(t, ast.Compare) and len(t.ops) == 1:
            op, l, r = t.ops[0], t.left, t.comparators[0]
            if isinstance(op, (ast.NotEq, ast.IsNot, ast.NotIn)):
                t = ast.Compare(left=l, ops=[NEG_EXACT[type(op)]()], comparators=[r])
                p = not p
            elif isinstance(op, ast.Gt):
                t = ast.Compare(left=r, ops=[ast.Lt()], comparators=[l])
            elif isinstance(op, ast.GtE):
                t = ast.Compare(left=r, ops=[ast.LtE()], comparators=[l])
            if isinstance(t.ops[0], ast.Eq) and U(t.comparators[0]) < U(t.left) and not isinstance(t.comparators[0], ast.Constant):
                t = ast.Compare(left=t.comparators[0], ops=[ast.Eq()], comparators=[t.left])
        out.append((U(t), p))
    return out


def resolve_closure_aliases(model, closure_fi, expr):
    """Names that a nested function reads from its enclosing function and that are there plain aliases of an attribute chain
    (``grid = phase_field.grid``) are replaced by that chain, so rules see the same text whether or not the alias was introduced."""
    parent = closure_fi.parent
    if parent is None:
        return expr
    pv = view(model, parent)
    own = {n.id for n in ast.walk(closure_fi.node) if isinstance(n, ast.Name) and isinstance(n.ctx, ast.Store)} | set(closure_fi.all_params)
    at = pv.node_of(closure_fi.node)

    class R(ast.NodeTransformer):
        def visit_Name(self, n):
            if isinstance(n.ctx, ast.Load) and n.id not in own and at is not None:
                r = pv.single_def_value(n.id, at)
                if r is not None and attr_chain(r[0]) is not None and isinstance(r[0], ast.Attribute) and n.id not in pv.mutated:
                    return ast.copy_location(copy.deepcopy(r[0]), n)
            return n

    return R().visit(copy.deepcopy(expr))


def truth_under(test, assume):
    """Kleene truth value (True/False/None) of ``test`` under a set of assumed (canonical text, polarity) facts;
    conjunctions, disjunctions and negations are evaluated structurally, so `a and b` is False as soon as `a` is assumed False
    and True when both are assumed True."""
    if isinstance(test, ast.UnaryOp) and isinstance(test.op, ast.Not):
        v = truth_under(test.operand, assume)
        return None if v is None else (not v)
    if isinstance(test, ast.BoolOp):
        vals = [truth_under(v, assume) for v in test.values]
        if isinstance(test.op, ast.And):
            if any(v is False for v in vals):
                return False
            return True if all(v is True for v in vals) else None
        if any(v is True for v in vals):
            return True
        return False if all(v is False for v in vals) else None
    facts = dict()
    for txt, pol in assume:
        facts[txt] = pol
    ct = canon_tests(test, True)
    if len(ct) == 1:
        txt, pol = ct[0]
        if txt in facts:
            return facts[txt] == pol
    return None


def contradicts(guards, assume) -> bool:
    """some guard (test, polarity) is decided the other way by the assumptions"""
    for t, p in guards:
        v = truth_under(t, assume)
        if v is not None and v != p:
            return True
    return False


def canon_guards(si, node, within=None, expand=None):
    """set of canonical (text, polarity) conditions under which ``node`` executes (explicit and
    early-exit guards); ``within`` restricts to tests located inside that statement; ``expand``
    (a callable on (test, at)) may resolve temporaries first"""
    out = set()
    for t, p in si.effective_guards(node):
        if within is not None and not any(x is t for x in ast.walk(within)):
            continue
        if expand is not None:
            t = expand(t, t)
        out.update(canon_tests(t, p))
    return out


def canon_want(*items):
    """canonical form of expected (test text, polarity) pairs"""
    out = set()
    for txt, pol in items:
        out.update(canon_tests(ast.parse(txt, mode="eval").body, pol))
    return out


def aliases(fv, name):
    """names that are plain copies of ``name`` or of which ``name`` is a plain copy
    (``a = b`` single assignments, transitively) — helper inlining and temporaries create them"""
    group = {name}
    changed = True
    pairs = []
    for s in fv.statements():
        if isinstance(s, ast.Assign) and len(s.targets) == 1 and isinstance(s.targets[0], ast.Name) and isinstance(s.value, ast.Name):
            pairs.append((s.targets[0].id, s.value.id))
        elif isinstance(s, ast.AnnAssign) and isinstance(s.target, ast.Name) and isinstance(s.value, ast.Name):
            pairs.append((s.target.id, s.value.id))
    nstores = {}
    for n in ast.walk(fv.fi.node):
        if isinstance(n, ast.Name) and isinstance(n.ctx, ast.Store):
            nstores[n.id] = nstores.get(n.id, 0) + 1
    pairs = [(a, b) for a, b in pairs if nstores.get(a, 0) == 1]  # the copy is the single definition of its target
    while changed:
        changed = False
        for a, b in pairs:
            if (a in group) != (b in group):
                group |= {a, b}
                changed = True
    return group


def mini_eval(n, env):
    """value of a small side-effect-free expression over integers/booleans given ``env`` (name → value);
    raises ValueError for anything outside (names not in env, calls, attributes …).  Used to compare
    guard conditions as truth tables over a small abstract domain instead of by their spelling."""
    if isinstance(n, ast.Constant) and (isinstance(n.value, (int, float, bool, str)) or n.value is None):
        return n.value
    if isinstance(n, (ast.Tuple, ast.List, ast.Set)):
        return [mini_eval(e, env) for e in n.elts]
    if isinstance(n, ast.Name):
        if n.id in env:
            return env[n.id]
        raise ValueError(f"unknown name {n.id}")
    if isinstance(n, ast.UnaryOp):
        v = mini_eval(n.operand, env)
        if isinstance(n.op, ast.Not):
            return not v
        if isinstance(n.op, ast.USub):
            return -v
    if isinstance(n, ast.BoolOp):
        if isinstance(n.op, ast.And):
            r = True
            for v in n.values:
                r = mini_eval(v, env)
                if not r:
                    return r
            return r
        r = False
        for v in n.values:
            r = mini_eval(v, env)
            if r:
                return r
        return r
    if isinstance(n, ast.BinOp) and isinstance(n.op, (ast.Add, ast.Sub, ast.Mult)):
        l, r = mini_eval(n.left, env), mini_eval(n.right, env)
        return l + r if isinstance(n.op, ast.Add) else (l - r if isinstance(n.op, ast.Sub) else l * r)
    if isinstance(n, ast.Compare):
        l = mini_eval(n.left, env)
        for op, c in zip(n.ops, n.comparators):
            r = mini_eval(c, env)
            ok = {ast.Lt: lambda: l < r, ast.LtE: lambda: l <= r, ast.Gt: lambda: l > r, ast.GtE: lambda: l >= r, ast.Eq: lambda: l == r,
                  ast.NotEq: lambda: l != r, ast.Is: lambda: l is r, ast.IsNot: lambda: l is not r,
                  ast.In: lambda: l in r, ast.NotIn: lambda: l not in r}.get(type(op))
            if isinstance(op, (ast.Lt, ast.LtE, ast.Gt, ast.GtE)) and (isinstance(l, str) != isinstance(r, str)):
                raise ValueError("ordering of a string and a number")
            if ok is None:
                raise ValueError("operator")
            if not ok():
                return False
            l = r
        return True
    raise ValueError(f"expression {ast.dump(n)[:40]}")


def dict_items(fv, expr, at):
    """{constant key: value expression} denoted by ``expr`` at ``at``: a dict literal, ``dict(k=v)``, or a local
    name bound once to one of those and then filled by unconditional constant-key stores ``name[k] = v`` that
    dominate ``at`` (no other mutation of the name before ``at``).  None when it cannot be resolved."""
    def literal(v):
        if isinstance(v, ast.Dict) and all(isinstance(k, ast.Constant) for k in v.keys):
            return {k.value: x for k, x in zip(v.keys, v.values)}
        if isinstance(v, ast.Call) and dotted_name(v.func) == "dict" and not v.args and all(k.arg for k in v.keywords):
            return {k.arg: k.value for k in v.keywords}
        return None

    lit = literal(expr)
    if lit is not None:
        return lit
    if not isinstance(expr, ast.Name):
        return None
    r = fv.single_def_value(expr.id, at if isinstance(at, Node) else fv.node_of(at))
    if r is None:
        return None
    v, d = r
    out = literal(v)
    if out is None:
        return None
    out = dict(out)
    at_stmt = stmt_index(fv).statement(at) if not isinstance(at, ast.stmt) else at
    for s in fv.statements():
        for n in walk_no_nested(s):
            if isinstance(n, ast.Name) and n.id == expr.id and s is not d.stmt and s is not at_stmt:
                # a use of the dict between its creation and `at`
                if isinstance(s, ast.Assign) and len(s.targets) == 1 and isinstance(s.targets[0], ast.Subscript) and s.targets[0].value is n \
                        and isinstance(s.targets[0].slice, ast.Constant):
                    if fv.dominates(d.stmt, s) and fv.dominates(s, at_stmt):
                        out[s.targets[0].slice.value] = s.value
                        continue
                    if not _may_precede(fv, s, at_stmt):
                        continue
                    return None
                if _may_precede(fv, s, at_stmt) and isinstance(n.ctx, ast.Load):
                    # passed around or mutated through a method before `at`: not resolvable
                    par_call = any(isinstance(c, ast.Call) and isinstance(c.func, ast.Attribute) and c.func.value is n for c in walk_no_nested(s))
                    if par_call:
                        return None
    return out


def _may_precede(fv, a, b):
    """can statement a execute before statement b?"""
    na, nb = fv.node_of(a), fv.node_of(b)
    if na is None or nb is None:
        return True
    seen, work = set(), [na]
    while work:
        x = work.pop()
        if x is nb:
            return True
        if x in seen:
            continue
        seen.add(x)
        work.extend(y for y, _ in x.succ)
    return False


def dotted_name(n):
    parts = []
    while isinstance(n, ast.Attribute):
        parts.append(n.attr)
        n = n.value
    if isinstance(n, ast.Name):
        parts.append(n.id)
        return ".".join(reversed(parts))
    return None


def call_bindings(fv, call, callee_fi, skip_self=None):
    """({parameter: value expression}, unresolved) for ``call`` against the signature of ``callee_fi``:
    positional arguments are matched to parameter names, keywords by name, and ``**name`` is expanded through
    dict_items.  ``unresolved`` lists what could not be matched (starred arguments, opaque ** dicts)."""
    a = callee_fi.node.args
    pos = [x.arg for x in a.posonlyargs + a.args]
    if skip_self is None:
        skip_self = bool(pos) and pos[0] in ("self", "cls") and isinstance(call.func, ast.Attribute)
    if skip_self:
        pos = pos[1:]
    out, unresolved = {}, []
    for i, arg in enumerate(call.args):
        if isinstance(arg, ast.Starred):
            unresolved.append("*" + U(arg.value))
            break
        if i < len(pos):
            out[pos[i]] = arg
        else:
            unresolved.append(f"positional#{i}")
    for k in call.keywords:
        if k.arg is not None:
            out[k.arg] = k.value
        else:
            items = dict_items(fv, k.value, call)
            if items is None:
                unresolved.append("**" + U(k.value))
            else:
                out.update(items)
    return out, unresolved


def enumerate_elem_subst(expr, loop):
    """in ``expr`` replace the element variable of ``for i, x in enumerate(SEQ[, 0])`` by ``SEQ[i]``
    (the two spellings of "element i of SEQ"); other loops leave the expression unchanged"""
    import copy

    it = loop.iter if isinstance(loop, ast.For) else None
    if not (isinstance(it, ast.Call) and isinstance(it.func, ast.Name) and it.func.id == "enumerate" and it.args and isinstance(loop.target, ast.Tuple)
            and len(loop.target.elts) == 2 and all(isinstance(e, ast.Name) for e in loop.target.elts)):
        return expr
    if len(it.args) > 1 and not (isinstance(it.args[1], ast.Constant) and it.args[1].value == 0):
        return expr
    iv, xv = loop.target.elts[0].id, loop.target.elts[1].id
    seq = it.args[0]

    class R(ast.NodeTransformer):
        def visit_Name(self, n):
            if n.id == xv and isinstance(n.ctx, ast.Load):
                return ast.Subscript(value=copy.deepcopy(seq), slice=ast.Name(id=iv, ctx=ast.Load()), ctx=ast.Load())
            return n

    return R().visit(copy.deepcopy(expr))


def element_index_form(target, it, index="__i"):
    """For an iteration ``for TARGET in IT`` (loop or comprehension generator) return {variable name: AST of the element it
    denotes, written with the common index ``index``} and the index range text, for the idioms that all mean "element i of each
    sequence": ``i in range(N)`` / ``x in SEQ`` / ``i, x in enumerate(SEQ)`` / ``a, b in zip(SEQ1, SEQ2)``.  None if not recognised."""
    import copy

    idx = ast.Name(id=index, ctx=ast.Load())

    def sub(seq):
        return ast.Subscript(value=copy.deepcopy(seq), slice=copy.deepcopy(idx), ctx=ast.Load())

    if isinstance(it, ast.Call) and isinstance(it.func, ast.Name):
        fn = it.func.id
        if fn == "range" and len(it.args) == 1 and isinstance(target, ast.Name):
            return {target.id: copy.deepcopy(idx)}, ast.unparse(it.args[0])
        if fn == "enumerate" and it.args and isinstance(target, ast.Tuple) and len(target.elts) == 2 and all(isinstance(e, ast.Name) for e in target.elts):
            if len(it.args) > 1 and not (isinstance(it.args[1], ast.Constant) and it.args[1].value == 0):
                return None
            return {target.elts[0].id: copy.deepcopy(idx), target.elts[1].id: sub(it.args[0])}, f"len({ast.unparse(it.args[0])})"
        if fn == "zip" and isinstance(target, ast.Tuple) and len(target.elts) == len(it.args) and all(isinstance(e, ast.Name) for e in target.elts) and not it.keywords:
            return {e.id: sub(a) for e, a in zip(target.elts, it.args)}, "zip:" + ",".join(ast.unparse(a) for a in it.args)
        return None
    if isinstance(target, ast.Name) and isinstance(it, (ast.Name, ast.Attribute)):
        return {target.id: sub(it)}, f"len({ast.unparse(it)})"
    return None


def terminal_values(fv, name, at, depth=6, stop=()):
    """set of expression texts ``name`` may hold at ``at``: every reaching plain definition is followed through renames and
    temporaries (each with all of *its* reaching definitions), so a value routed through helpers' locals resolves to the
    expressions it was originally computed from.  None when some definition is not a plain assignment."""
    node = at if isinstance(at, Node) else fv.node_of(at)
    if node is None:
        return None
    out = set()

    def rec(nm, nd, d_left):
        defs = fv.defs_reaching(nm, nd)
        if not defs:
            return False
        for d in defs:
            if d is fv.cfg.entry or d.stmt is None:
                out.add(nm)
                continue
            v = fv.value_of_def(d, nm)
            if v is None or d.kind in ("loop", "with", "handler"):
                return False
            inner = [x for x in ast.walk(v) if isinstance(x, ast.Name) and isinstance(x.ctx, ast.Load) and x.id not in stop]
            # a pure rename / component of a renamed tuple: follow it
            base = v
            while isinstance(base, ast.Subscript):
                base = base.value
            if isinstance(base, ast.Name) and base.id not in stop and d_left > 0 and base.id != nm:
                sub = terminal_values(fv, base.id, d, d_left - 1, stop)
                if sub is None:
                    return False
                tail = U(v)[len(base.id):]
                for t in sub:
                    # (a, b)[0] → a
                    txt = t + tail
                    try:
                        tn = ast.parse(txt, mode="eval").body
                        if isinstance(tn, ast.Subscript) and isinstance(tn.value, ast.Tuple) and isinstance(tn.slice, ast.Constant) and isinstance(tn.slice.value, int):
                            txt = U(tn.value.elts[tn.slice.value])
                    except (SyntaxError, IndexError):
                        pass
                    out.add(txt)
                continue
            out.add(U(v))
        return True

    return out if rec(name, node, depth) else None


def count_on_normal_paths(fv, stmts):
    """set of how many of ``stmts`` (statements/expressions) are executed along the acyclic paths from the function entry to a
    normal exit (return or falling off the end); paths that end in `raise` are not counted"""
    nodes = [fv.node_of(x) for x in stmts]
    out = set()
    for p in fv.cfg.paths(fv.cfg.entry, {fv.cfg.exit, fv.cfg.raise_exit}):
        if p[-1][0] is fv.cfg.raise_exit:
            continue
        on = {id(n) for n, _ in p}
        out.add(sum(1 for n in nodes if n is not None and id(n) in on))
    return out


# ----------------------------------------------------------------------------------------------
# specialisation of a function for fixed values of (flag) parameters
class _NonNull:
    """abstract value: some object that is not None (a freshly constructed array / record / instance)"""

    def __repr__(self):
        return "<non-None>"


NONNULL = _NonNull()
_UNKNOWN = object()


_DECIDE: list = [None]  # the `decide` callback of the specialisation in progress


def _abs_eval(n, env):
    """constant / NONNULL / _UNKNOWN for an expression under env (name → python constant or NONNULL); expressions that the
    structural evaluation leaves open are put to the specialisation's `decide` callback (truth of a test)"""
    v = _abs_eval0(n, env)
    if (v is _UNKNOWN or v is NONNULL) and _DECIDE[0] is not None and not (isinstance(n, ast.Name) and n.id in env):
        r = _DECIDE[0](n)
        if r is not None:
            return r
    return v


def _abs_eval0(n, env):
    if isinstance(n, ast.Constant):
        return n.value
    if isinstance(n, ast.Name):
        return env.get(n.id, _UNKNOWN)
    if isinstance(n, ast.NamedExpr):
        return _abs_eval(n.value, env)
    if isinstance(n, ast.Call):
        d = dotted_name(n.func) or ""
        if d.split(".")[0] in ("np", "numpy") or (d and d.split(".")[-1][:1].isupper()):
            return NONNULL  # numpy constructors and class instantiations never give None
        return _UNKNOWN
    if isinstance(n, (ast.List, ast.Tuple, ast.Dict, ast.Set, ast.ListComp, ast.DictComp, ast.SetComp, ast.GeneratorExp, ast.JoinedStr, ast.Lambda)):
        return NONNULL
    if isinstance(n, ast.UnaryOp) and isinstance(n.op, ast.Not):
        v = _abs_eval(n.operand, env)
        if v is _UNKNOWN or v is NONNULL:
            return _UNKNOWN
        return not v
    if isinstance(n, ast.BoolOp):
        vals = [_abs_eval(v, env) for v in n.values]
        if isinstance(n.op, ast.And):
            for v in vals:
                if v is _UNKNOWN or v is NONNULL:
                    return _UNKNOWN
                if not v:
                    return v
            return vals[-1]
        for v in vals:
            if v is _UNKNOWN or v is NONNULL:
                return _UNKNOWN
            if v:
                return v
        return vals[-1]
    if isinstance(n, ast.IfExp):
        t = _abs_eval(n.test, env)
        if t is _UNKNOWN or t is NONNULL:
            return _UNKNOWN
        return _abs_eval(n.body if t else n.orelse, env)
    if isinstance(n, ast.Compare) and len(n.ops) == 1:
        l, r = _abs_eval(n.left, env), _abs_eval(n.comparators[0], env)
        op = n.ops[0]
        if isinstance(op, (ast.Is, ast.IsNot)):
            res = _UNKNOWN
            if l is not _UNKNOWN and r is not _UNKNOWN:
                if l is NONNULL or r is NONNULL:
                    other = r if l is NONNULL else l
                    res = False if other is None else _UNKNOWN
                elif l is None or r is None or isinstance(l, bool) or isinstance(r, bool):
                    res = l is r
            if res is _UNKNOWN:
                return _UNKNOWN
            return res if isinstance(op, ast.Is) else not res
        if isinstance(op, (ast.Eq, ast.NotEq)) and l is not _UNKNOWN and r is not _UNKNOWN and l is not NONNULL and r is not NONNULL:
            try:
                return (l == r) if isinstance(op, ast.Eq) else (l != r)
            except Exception:  # pragma: no cover
                return _UNKNOWN
    return _UNKNOWN


class _Fold(ast.NodeTransformer):
    """replace decided conditional expressions / boolean tests inside an expression"""

    def __init__(self, env):
        self.env = env

    def visit_Lambda(self, n):
        return n

    def visit_IfExp(self, n):
        t = _abs_eval(n.test, self.env)
        if t is _UNKNOWN or t is NONNULL:
            self.generic_visit(n)
            return n
        return self.visit(n.body if t else n.orelse)

    def visit_Name(self, n):
        if isinstance(n.ctx, ast.Load) and n.id in self.env and self.env[n.id] is not NONNULL and n.id in self.params:
            return ast.copy_location(ast.Constant(value=self.env[n.id]), n)
        return n

    params: frozenset = frozenset()


def specialize_body(body, env, params=frozenset(), decide=None):
    """statements of ``body`` for the given constant environment: decided branches are replaced by the arm taken,
    decided conditional expressions by their value, code after an unconditional exit is dropped.  ``params`` are the names
    whose occurrences are replaced by their constant.  Returns (statements, environment after the block, exits)"""
    from .normalize import always_exits

    out = []
    env = dict(env)

    def assigned_in(stmts):
        names = set()
        for s in stmts:
            for x in ast.walk(s):
                if isinstance(x, ast.Name) and isinstance(x.ctx, (ast.Store, ast.Del)):
                    names.add(x.id)
        return names

    def fold(e):
        f = _Fold(env)
        f.params = params
        return f.visit(copy.deepcopy(e))

    for s in body:
        if isinstance(s, ast.If):
            t = _abs_eval(s.test, env)
            if t is not _UNKNOWN and t is not NONNULL:
                sub, env, ex = specialize_body(s.body if t else s.orelse, env, params, decide)
                out.extend(sub)
                if ex:
                    return out, env, True
                continue
            s2 = copy.copy(s)
            s2.test = fold(s.test)
            b1, e1, x1 = specialize_body(s.body, env, params, decide)
            b2, e2, x2 = specialize_body(s.orelse, env, params, decide)
            s2.body = b1 or [ast.copy_location(ast.Pass(), s)]
            s2.orelse = b2
            out.append(s2)
            if x1 and x2:
                return out, env, True
            if x1:
                env = e2
            elif x2:
                env = e1
            else:
                env = {k: v for k, v in e1.items() if k in e2 and (e2[k] is v or (e2[k] == v and type(e2[k]) is type(v)))}
            continue
        if isinstance(s, (ast.For, ast.While, ast.AsyncFor)):
            for nm in assigned_in([s]):
                env.pop(nm, None)
            s2 = copy.copy(s)
            s2.body, _e, _x = specialize_body(s.body, env, params, decide)
            s2.body = s2.body or [ast.copy_location(ast.Pass(), s)]
            if isinstance(s, ast.While):
                s2.test = fold(s.test)
            else:
                s2.iter = fold(s.iter)
            out.append(s2)
            continue
        if isinstance(s, (ast.With, ast.AsyncWith)):
            s2 = copy.copy(s)
            s2.items = [ast.withitem(context_expr=fold(i.context_expr), optional_vars=i.optional_vars) for i in s.items]
            for i in s.items:
                if i.optional_vars is not None:
                    for nm in assigned_in([ast.Expr(value=i.optional_vars)]):
                        env.pop(nm, None)
            s2.body, env, ex = specialize_body(s.body, env, params, decide)
            s2.body = s2.body or [ast.copy_location(ast.Pass(), s)]
            out.append(s2)
            if ex:
                return out, env, True
            continue
        if isinstance(s, ast.Try):
            for nm in assigned_in([s]):
                env.pop(nm, None)
            s2 = copy.copy(s)
            s2.body = specialize_body(s.body, env, params, decide)[0] or [ast.copy_location(ast.Pass(), s)]
            s2.handlers = []
            for h in s.handlers:
                h2 = copy.copy(h)
                h2.body = specialize_body(h.body, env, params, decide)[0] or [ast.copy_location(ast.Pass(), s)]
                s2.handlers.append(h2)
            s2.orelse = specialize_body(s.orelse, env, params, decide)[0]
            s2.finalbody = specialize_body(s.finalbody, env, params, decide)[0]
            out.append(s2)
            continue
        if isinstance(s, (ast.FunctionDef, ast.AsyncFunctionDef, ast.ClassDef)):
            env.pop(s.name, None)
            out.append(s)
            continue
        # simple statements
        s2 = copy.copy(s)
        for fld in ("value", "test", "exc", "msg"):
            v = getattr(s, fld, None)
            if isinstance(v, ast.AST):
                setattr(s2, fld, fold(v))
        if isinstance(s, ast.Assign) and len(s.targets) == 1 and isinstance(s.targets[0], ast.Name):
            v = _abs_eval(s.value, env)
            if v is _UNKNOWN:
                env.pop(s.targets[0].id, None)
            else:
                env[s.targets[0].id] = v
        elif isinstance(s, ast.AnnAssign) and isinstance(s.target, ast.Name) and s.value is not None:
            v = _abs_eval(s.value, env)
            if v is _UNKNOWN:
                env.pop(s.target.id, None)
            else:
                env[s.target.id] = v
        else:
            for nm in assigned_in([s]):
                env.pop(nm, None)
        # walrus targets inside the statement
        for x in ast.walk(s):
            if isinstance(x, ast.NamedExpr) and isinstance(x.target, ast.Name):
                env.pop(x.target.id, None)
        out.append(s2)
        if isinstance(s, (ast.Return, ast.Raise, ast.Continue, ast.Break)):
            return out, env, True
    return out, env, bool(out) and always_exits(out)


def specialize(model, fi, consts: dict, decide=None):
    """FuncView of ``fi`` for fixed values of some parameters (flags): `f(…, inplace=True)` analysed as its own function.
    ``decide(test) → True/False/None`` settles further branch tests (e.g. the emptiness of a collection)"""
    import dataclasses

    node = copy.copy(fi.node)
    saved = _DECIDE[0]
    _DECIDE[0] = decide
    try:
        body, _env, _x = specialize_body(list(fi.node.body), dict(consts), frozenset(consts), decide)
    finally:
        _DECIDE[0] = saved
    node.body = body or [ast.Pass()]
    ast.fix_missing_locations(node)
    fi2 = dataclasses.replace(fi, node=node)
    return fi2, FuncView(model, fi2)


def call_keywords(fv, call):
    """{keyword: value} of a call with `**name` resolved when name is a literal dictionary at the call; None if unresolvable"""
    out = {}
    for k in call.keywords:
        if k.arg is not None:
            out[k.arg] = k.value
        else:
            items = dict_items(fv, k.value, call)
            if items is None:
                return None
            out.update(items)
    return out
