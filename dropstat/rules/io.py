"""IOAGREE / LAYOUT — writer and reader tables that must agree (C08, C14, C19)."""

from __future__ import annotations

import ast
import re

from ..astutil import U, view, arg_or_kw, kwarg, names_in, stmt_index, compare_parts
from ..cfg import walk_no_nested
from ..model import dotted, AnchorMissing

EM = "droplets.emulsions"
TR = "droplets.droplet_tracks"
DROP = "droplets.droplets"


def attrs_written(fv):
    """{key: [stmt]} for X.attrs['key'] = v"""
    out = {}
    for s in fv.statements():
        if isinstance(s, ast.Assign):
            t = s.targets[0]
            if isinstance(t, ast.Subscript) and isinstance(t.value, ast.Attribute) and t.value.attr == "attrs" and isinstance(t.slice, ast.Constant):
                out.setdefault(t.slice.value, []).append(s)
    return out


def attrs_read(fv):
    out = {}
    for n in fv.cfg.nodes:
        for root in fv._roots(n):
            for x in walk_no_nested(root):
                if isinstance(x, ast.Subscript) and isinstance(x.ctx, ast.Load) and isinstance(x.value, ast.Attribute) and x.value.attr == "attrs" and isinstance(x.slice, ast.Constant):
                    out.setdefault(x.slice.value, []).append(x)
    return out


def all_paths_write(fv, stmts) -> bool:
    block = {fv.node_of(s) for s in stmts}
    seen, work = set(), [fv.cfg.entry]
    while work:
        n = work.pop()
        if n in seen or n in block:
            continue
        seen.add(n)
        if n is fv.cfg.exit:
            return False
        work.extend(x for x, lab in n.succ if lab != "exc")
    return True


def _emptiness_of_guards(si, node, name="self"):
    from .empty import nonempty_guard

    for t, p in si.effective_guards(node):
        if nonempty_guard(t, name, p):
            return False
        if not isinstance(t, ast.BoolOp) and nonempty_guard(t, name, not p):
            return True
    return None


def check_dataset_pair(ctx, writer_q, reader_q, kind):
    """writer/reader of one dataset kind: attrs keys, sentinel, class name"""
    from ..astutil import value_cases
    from .collections import emptiness

    m = ctx.model
    w, r = m.func(writer_q), m.func(reader_q)
    wv, rv = view(m, w), view(m, r)
    wsi = stmt_index(wv)
    site = f"{kind}:dataset"
    wr, rd = attrs_written(wv), attrs_read(rv)
    for key in sorted(rd):
        ok = key in wr and all_paths_write(wv, wr[key])
        ctx.decide(ok, "IOAGREE", f"{site}:attrs[{key}]", (w, wr[key][0]) if key in wr else w,
                   f"attribute '{key}' read by {r.name} is written on every path of {w.name}",
                   f"attribute '{key}' is read by {reader_q} but " + ("not written at all" if key not in wr else "not written on every path") + f" by {writer_q}: reading such a file raises KeyError")
    if not rd:
        ctx.undecided("IOAGREE", f"{site}:attrs", r, "reader reads no attributes")
    # class tag per emptiness of the collection
    tags = set()
    for st in wr.get("droplet_class", []):
        for dec, val in value_cases(wv, st, st.value):
            e = emptiness(dec, "self")
            if e is None:
                e = _emptiness_of_guards(wsi, st)
            tags.add((e, U(val)))
    w_sent = sorted(v for e, v in tags if e is True)
    cls_val = sorted(v for e, v in tags if e is False)
    # reader's sentinel: comparison of the class attribute with a string literal
    r_sent = []
    for n in ast.walk(r.node):
        if isinstance(n, ast.Compare) and len(n.ops) == 1 and isinstance(n.ops[0], (ast.Eq, ast.NotEq)):
            sides = [n.left, n.comparators[0]]
            lits = [x for x in sides if isinstance(x, ast.Constant) and isinstance(x.value, str)]
            oth = [x for x in sides if x not in lits]
            if len(lits) == 1 and oth and U(rv.expand(oth[0], rv.node_of(n) or n, allow_mutated=True)).endswith(".attrs['droplet_class']"):
                r_sent.append(U(lits[0]))
    ctx.decide(len(w_sent) == 1 and w_sent == sorted(set(r_sent)), "IOAGREE", f"{site}:sentinel", r, f"empty collections are tagged {w_sent[0] if w_sent else '?'} and recognised by the same literal",
               f"the writer tags empty collections with {w_sent} but the reader tests for {sorted(set(r_sent))}")
    # payload
    from ..astutil import specialize, call_keywords
    from .empty import nonempty_guard

    def decide_for(nonempty):
        def decide(t):
            if isinstance(t, ast.BoolOp):
                return None
            if nonempty_guard(t, "self", True, exact=True):
                return nonempty
            if nonempty_guard(t, "self", False, exact=True):
                return not nonempty
            return None
        return decide

    # the writer analysed once for a non-empty and once for an empty collection
    branches = {}
    cds = []
    for empty in (False, True):
        _fi_s, sv = specialize(m, w, {}, decide=decide_for(not empty))
        cs = [c for c in sv.calls() if U(sv.expand(c.func, c, allow_mutated=True)).split(".")[-1] == "create_dataset"]
        cds.extend(cs)
        if len(cs) == 1:
            branches[empty] = (cs[0], sv)
    ok = set(branches) == {True, False}
    if ok:
        (full, fvs), (emp, evs) = branches[False], branches[True]
        kf, ke = call_keywords(fvs, full), call_keywords(evs, emp)
        d_ = (kf or {}).get("data")
        sh = (ke or {}).get("shape")
        ok = d_ is not None and U(fvs.expand(d_, full, stop=("self",))) == "self.data" and sh is not None and U(evs.expand(sh, emp)) == "()" and len(full.args) >= 1 and len(emp.args) >= 1 \
            and len(w.params + w.kwonly) >= 3 and U(full.args[0]) == U(emp.args[0]) == (w.params + w.kwonly)[2] and "data" not in (ke or {}) and "shape" not in (kf or {})
    okc = cls_val in (["self[0].__class__.__name__"], ["type(self[0]).__name__"])
    ctx.decide(bool(ok and okc), "IOAGREE", f"{site}:payload", (w, cds[0]) if cds else w,
               "non-empty: dataset = self.data tagged with the members' class name; empty: shape-() dataset under the same key",
               f"writer payload not (data=self.data + class name of the members | empty shape-() dataset): class tag {cls_val}")


def check_registry(ctx):
    """class name written → registry keyed by cls.__name__ → constructor(**fields)"""
    m = ctx.model
    isc = m.func(f"{DROP}.DropletBase.__init_subclass__")
    iv = view(m, isc)
    reg = [s for s in iv.statements() if isinstance(s, ast.Assign) and isinstance(s.targets[0], ast.Subscript) and U(s.targets[0].value) == "cls._subclasses"
           and U(iv.expand(s.targets[0].slice, s)) == "cls.__name__" and U(s.value) == "cls"]
    ctx.decide(len(reg) == 1, "IOAGREE", "registry:key", isc, "every droplet class registers itself under cls.__name__",
               "droplet classes are not registered as cls._subclasses[cls.__name__] = cls: the class name stored in files cannot be resolved")
    dfd = m.func(f"{DROP}.droplet_from_data")
    dv = view(m, dfd)
    p0, p1 = dfd.params[0], dfd.params[1]
    rets = [n.stmt for n in dv.return_nodes()]
    build = False
    if len(rets) == 1:
        txt = U(dv.expand(rets[0].value, rets[0])).replace(" ", "")
        build = txt == f"DropletBase._subclasses[{p0}](**{{key:{p1}[key]forkeyin{p1}.dtype.names}})"
    ctx.decide(build, "IOAGREE", "registry:lookup", dfd, "reader resolves the stored name in the registry and rebuilds the droplet from all dtype fields",
               "droplet_from_data does not look the stored class name up in DropletBase._subclasses and call cls(**{field: data[field]}) over all fields")
    for q in (f"{EM}.Emulsion._from_hdf_dataset", f"{TR}.DropletTrack._from_hdf_dataset"):
        r = m.func(q)
        rv = view(m, r)
        cs = [c for c in rv.calls(nested=True) if (rv.callee(c) or "").endswith("droplet_from_data")]
        ok = False
        if len(cs) == 1:
            node = rv.node_of(cs[0])
            a0 = cs[0].args[0]
            if node is None:
                # inside a comprehension: resolve from the enclosing statement
                for n in rv.cfg.nodes:
                    if n.stmt is not None and any(x is cs[0] for x in ast.walk(n.stmt)):
                        node = n
            ok = node is not None and U(rv.expand(a0, node, allow_mutated=True)) == "dataset.attrs['droplet_class']"
        ctx.decide(ok, "IOAGREE", f"{q}:class", (r, cs[0]) if cs else r, "members are rebuilt with the class named in the file",
                   "the reader does not rebuild members via droplet_from_data(dataset.attrs['droplet_class'], row)")
        # every stored row becomes a member: the rows are taken from the dataset as it is — no filter, no mask, no sub-range
        # (an unset interface width is stored as NaN: "skip rows with undefined values" drops valid droplets)
        if len(cs) == 1 and q.endswith("Emulsion._from_hdf_dataset"):
            comp = None
            for n_ in ast.walk(r.node):
                if isinstance(n_, (ast.ListComp, ast.GeneratorExp)) and any(x is cs[0] for x in ast.walk(n_.elt)):
                    comp = n_
            loop = stmt_index(rv).enclosing(cs[0], (ast.For,)) if comp is None else None
            src = filt = None
            at_ = None
            if comp is not None and len(comp.generators) == 1:
                src, filt = comp.generators[0].iter, comp.generators[0].ifs
                for nn in rv.cfg.nodes:
                    if nn.stmt is not None and any(x is comp for x in ast.walk(nn.stmt)):
                        at_ = nn
            elif loop is not None:
                src, filt, at_ = loop[0].iter, [t_ for t_, _p in stmt_index(rv).effective_guards(cs[0]) if any(x is t_ for x in ast.walk(loop[0]))], loop[0]
            if src is not None:
                sx = rv.expand(src, at_, allow_mutated=True, stop=("dataset",)) if at_ is not None else src
                whole = U(sx) in ("dataset", "dataset[()]", "dataset[:]", "dataset[...]", "iter(dataset)", "list(dataset)", "np.asarray(dataset)", "np.array(dataset)")
                ctx.decide(whole and not filt, "IOAGREE", f"{q}:all-rows", (r, cs[0]), "one member per stored row: the rows are read from the dataset unfiltered",
                           f"members are rebuilt from `{U(sx)[:60]}`" + (f" under the filter `{U(filt[0])[:50]}`" if filt else "") + ", not from every row of the dataset: rows are dropped while reading "
                           "(an unset interface width is stored as NaN, so a finiteness filter discards valid droplets) and the emulsion reads back shorter than it was written")


def check_one_class(ctx):
    m = ctx.model
    fi = m.func(f"{EM}.Emulsion.data")
    fv = view(m, fi)
    si = stmt_index(fv)
    site = fi.qualname
    # the guard: if len(S) > 1: raise TypeError
    guards = []
    for s in fv.statements():
        if isinstance(s, ast.If) and s.body and isinstance(s.body[-1], ast.Raise) and "TypeError" in U(s.body[-1]):
            cp = compare_parts(s.test)
            if cp and isinstance(cp[0], ast.Call) and dotted(cp[0].func) == "len" and U(cp[2]) in ("1", "2") and isinstance(cp[1], (ast.Gt, ast.NotEq, ast.GtE)):
                guards.append((s, U(cp[0].args[0])))
    if len(guards) != 1:
        ctx.violate("IOAGREE", site + ":one-class", fi, "Emulsion.data does not raise TypeError for members of more than one class before forming the array")
        return
    gs, S = guards[0]
    elts = []
    for s in fv.statements():
        if isinstance(s, ast.Assign) and U(s.targets[0]) == S and isinstance(s.value, ast.SetComp) and U(s.value.generators[0].iter) == "self":
            elts.append((s, U(s.value.elt), U(s.value.generators[0].target)))
    for c in fv.calls():
        if U(c.func) == f"{S}.add" and len(c.args) == 1:
            lpq = si.enclosing(c, (ast.For,))
            if lpq is not None and U(lpq[0].iter) == "self":
                elts.append((lpq[0], U(c.args[0]), U(lpq[0].target)))
    if len(elts) != 1:
        ctx.undecided("IOAGREE", site + ":one-class", (fi, gs), f"construction of `{S}` not recognised")
        return
    st, elt, var = elts[0]
    by_class = elt in (f"{var}.__class__", f"type({var})")
    if not by_class:
        ctx.violate("IOAGREE", site + ":one-class", (fi, st),
                    f"mixed emulsions are detected by `{elt}` instead of the droplet class: classes that share a data layout (PerturbedDroplet3D / PerturbedDroplet3DAxisSym) are written under the first member's class name and read back as that class")
        return
    arr = [x for x in fv.statements() if isinstance(x, ast.Assign) and "np.array([" in U(fv.expand(x.value, x))]
    # the contiguous array is formed by numpy's own dtype discovery: members of one class with different layouts (mode counts)
    # make np.array raise; a forced dtype / astype would silently cast (truncate or broadcast) their amplitudes
    casts = []
    for c in fv.calls():
        nm = (fv.callee(c) or U(c.func)).split(".")[-1]
        if nm in ("array", "asarray", "fromiter", "stack", "concatenate") and any(g for g in ast.walk(fv.expand(c, c)) if isinstance(g, (ast.ListComp, ast.GeneratorExp)) and U(g.generators[0].iter) == "self") \
                and (kwarg(c, "dtype") is not None or len(c.args) > 1):
            casts.append(c)
        if nm == "astype" and isinstance(c.func, ast.Attribute):
            casts.append(c)
    rets_ = [n.stmt for n in fv.return_nodes() if n.stmt.value is not None and not isinstance(n.stmt.value, ast.Call)]
    if arr:
        ctx.decide(not casts, "IOAGREE", site + ":no-cast", (fi, casts[0] if casts else arr[0]),
                   "the data array of a non-empty emulsion is formed without a forced dtype: members whose layouts differ raise instead of being cast",
                   f"`{U(casts[0])[:90] if casts else ''}` forces a dtype on the members' records: droplets of one class with a different number of amplitudes are silently cast (truncated/broadcast) and the file reads back different parameters instead of the write raising")
    ok = fv.dominates(st, gs) and (not arr or fv.dominates(gs, arr[0]))
    ctx.decide(ok, "IOAGREE", site + ":one-class", (fi, gs), "an emulsion of several droplet classes raises TypeError before any data array is formed (one class per dataset)",
               "the class check does not precede the formation of the data array")


def fstring_key(node):
    """(prefix, format spec) of f"prefix{i:spec}" """
    if isinstance(node, ast.JoinedStr) and len(node.values) == 2 and isinstance(node.values[0], ast.Constant) and isinstance(node.values[1], ast.FormattedValue):
        fv_ = node.values[1]
        spec = U(fv_.format_spec)[2:-1] if fv_.format_spec is not None else ""
        return node.values[0].value, spec, U(fv_.value)
    return None


def check_sequence_keys(ctx, writer_q, reader_q, member_writer, kind):
    m = ctx.model
    w, r = m.func(writer_q), m.func(reader_q)
    wv, rv = view(m, w), view(m, r)
    site = f"{kind}:keys"
    cs = [c for c in wv.calls() if isinstance(c.func, ast.Attribute) and c.func.attr == member_writer]
    ok, detail, where = False, "member writer not called", w
    if len(cs) == 1:
        where = cs[0]
        key = cs[0].args[1] if len(cs[0].args) > 1 else kwarg(cs[0], "key")
        key = wv.expand(key, cs[0]) if key is not None else None
        fk = fstring_key(key) if key is not None else None
        detail = f"key `{U(key) if key is not None else None}`"
        if fk:
            prefix, spec, var = fk
            lp = stmt_index(wv).enclosing(cs[0], (ast.For,))
            idx_ok = lp is not None and isinstance(lp[0].iter, ast.Call) and dotted(lp[0].iter.func) == "enumerate" and var in names_in(lp[0].target.elts[0] if isinstance(lp[0].target, ast.Tuple) else lp[0].target)
            ok = bool(re.fullmatch(r"0[1-9]\d*d", spec)) and idx_ok
            detail += f" (format spec '{spec}')"
            if idx_ok and not re.fullmatch(r"0[1-9]\d*d", spec):
                rd = [n for n in ast.walk(r.node) if isinstance(n, ast.Call) and dotted(n.func) == "sorted"]
                ctx.violate("IOAGREE", site, (w, where), f"{detail}: members are written under sequence numbers without zero padding but read back in sorted key order — 'x_10' sorts before 'x_2', so collections with more than 10 members come back in a different order")
                return
    # the reader treats every top-level key of the file as a member: the writer may create nothing else at top level
    extra = [c_ for c_ in wv.calls(nested=True) if isinstance(c_.func, ast.Attribute) and c_.func.attr in ("create_dataset", "create_group", "require_dataset", "require_group") and U(c_.func.value) == "fp"]
    extra += [s_ for s_ in wv.statements() if isinstance(s_, ast.Assign) and isinstance(s_.targets[0], ast.Subscript) and U(s_.targets[0].value) == "fp"]
    if extra:
        ctx.violate("IOAGREE", site + ":top-level", (w, extra[0]), f"`{U(extra[0])[:70]}` stores something else than a member at the top level of the file: the reader iterates over all top-level keys "
                    "and interprets each as a member, so reading such a file raises or returns a spurious member")
    else:
        ctx.hold("IOAGREE", site + ":top-level", w, "only members are stored at the top level of the file (additional information goes to attributes)")
    rd = [n for n in ast.walk(r.node) if isinstance(n, ast.Call) and dotted(n.func) == "sorted" and n.args and U(n.args[0]) in ("fp.keys()", "fp", "list(fp.keys())", "list(fp)")]
    keyed = [n for n in rd if n.keywords or len(n.args) > 1]
    if ok and keyed:
        ctx.violate("IOAGREE", site, (r, keyed[0]), f"the reader orders the members with `{U(keyed[0])[:90]}` instead of by their zero-padded sequence keys: members come back in another order than they were "
                    "written whenever that sort key is not increasing along the collection (e.g. non-monotonic times)")
        return
    ctx.decide(ok and len(rd) == 1, "IOAGREE", site, (w, where),
               "members are written under zero-padded fixed-width sequence numbers and read back in sorted key order: order is preserved",
               f"{detail}; reader iterates sorted(fp.keys()): {len(rd) == 1}")


def check_file_modes(ctx, rule="IOAGREE"):
    """Every to_file truncates its target (mode 'w'); every from_file opens read-only.  A writer that appends to an existing
    file leaves members of an earlier, longer collection behind, and the reader returns them."""
    m = ctx.model
    n = 0
    for fi in m.all_functions():
        short = fi.qualname.split(".")[-1]
        if short not in ("to_file", "from_file") or not fi.qualname.startswith("droplets."):
            continue
        fv = view(m, fi)
        opens = [c for c in fv.calls(nested=True) if (fv.callee(c) or U(c.func)).endswith("h5py.File") or U(c.func) in ("h5py.File", "File")]
        for c in opens:
            mode = arg_or_kw(c, 1, "mode")
            want = "w" if short == "to_file" else "r"
            mv = fv.expand(mode, c) if mode is not None else None
            got = mv.value if isinstance(mv, ast.Constant) else None
            n += 1
            if short == "to_file":
                ok = got in ("w", "w-", "x")
                shown = repr(got) if got is not None else (U(mode) if mode is not None else "default ('r')")
                bad = f"`{U(c)[:80]}` opens the target with mode {shown}: an existing file is not truncated, so datasets of a previously saved, longer collection survive and are read back as extra members"
            else:
                ok = got == "r" or mode is None
                bad = f"`{U(c)[:80]}` opens the file with mode {got!r}; reading must not modify the file"
            ctx.decide(ok, rule, f"{fi.qualname}:mode", (fi, c), f"file opened with mode '{want}'", bad)
    # a member writer may not delete/replace existing keys (it writes into a fresh file)
    for fi in m.all_functions():
        if fi.qualname.split(".")[-1] != "_write_hdf_dataset" or not fi.qualname.startswith("droplets."):
            continue
        dels = [s_ for s_ in ast.walk(fi.node) if isinstance(s_, ast.Delete)]
        ctx.decide(not dels, rule, f"{fi.qualname}:fresh", (fi, dels[0] if dels else fi.node), "member writers only create datasets",
                   f"`{U(dels[0])[:60] if dels else ''}` deletes existing entries: the writer is prepared for files that are not truncated")
    return n


def check_timecourse_time(ctx):
    """time attribute of time-course frames: written next to every frame's dataset, read back from there"""
    m = ctx.model
    w, r = m.func(f"{EM}.EmulsionTimeCourse.to_file"), m.func(f"{EM}.EmulsionTimeCourse.from_file")
    wr, rd = attrs_written(view(m, w)), attrs_read(view(m, r))
    ok = "time" in wr and "time" in rd and U(wr["time"][0].value) == "time"
    ctx.decide(ok, "IOAGREE", "EmulsionTimeCourse:attrs[time]", (w, wr["time"][0]) if "time" in wr else w, "every frame's time is stored next to its dataset and read from there",
               "the frame time is not written to / read from dataset.attrs['time'] for every frame (an empty frame must carry its time as well)")
    rv = view(m, r)
    ap = [c for c in rv.calls() if isinstance(c.func, ast.Attribute) and c.func.attr == "append" and arg_or_kw(c, 1, "time") is not None]
    oka = False
    if len(ap) == 1 and ap[0].args:
        # whatever the dataset handle is called: the emulsion read from a dataset is appended with that same dataset's time
        E_ = U(rv.expand(ap[0].args[0], ap[0], allow_mutated=True))
        T_ = U(rv.expand(arg_or_kw(ap[0], 1, "time"), ap[0], allow_mutated=True))
        pre_, suf_ = "Emulsion._from_hdf_dataset(", ")"
        if E_.startswith(pre_) and E_.endswith(suf_):
            D_ = E_[len(pre_):-len(suf_)]
            oka = T_ == f"{D_}.attrs['time']"
    ctx.decide(oka, "IOAGREE", "EmulsionTimeCourse:reader", (r, ap[0]) if ap else r, "each frame is appended with its stored time", "frames are not appended as (Emulsion._from_hdf_dataset(dataset), time=dataset.attrs['time'])")


def check_pair_iteration(ctx, rule="IOAGREE"):
    """The writers walk a time course through items(): it must hand out every (time, member) pair, in order.  Anything keyed
    by the time (a dict) collapses frames that share a time stamp (two runs recorded into one course, a restart)."""
    m = ctx.model
    n = 0
    for q, members in ((f"{EM}.EmulsionTimeCourse.items", "emulsions"), (f"{TR}.DropletTrack.items", "droplets")):
        if not m.has_func(q):
            continue
        fi = m.func(q)
        fv = view(m, fi)
        rets = [r_.stmt for r_ in fv.return_nodes() if r_.stmt.value is not None]
        yields = [y for y in ast.walk(fi.node) if isinstance(y, (ast.Yield, ast.YieldFrom))]
        ok = False
        shown = ""
        if len(rets) == 1 and not yields:
            ex = fv.expand(rets[0].value, rets[0])
            shown = U(ex)
            while isinstance(ex, ast.Call) and U(ex.func) in ("iter", "list", "tuple") and len(ex.args) == 1:
                ex = ex.args[0]
            ok = U(ex) == f"zip(self.times, self.{members})"
        elif len(yields) == 1 and isinstance(yields[0], ast.YieldFrom):
            shown = U(yields[0].value)
            ok = shown == f"zip(self.times, self.{members})"
        n += 1
        ctx.decide(ok, rule, f"{fi.qualname}:pairs", (fi, rets[0]) if rets else fi, f"items() hands out every (time, member) pair: zip(self.times, self.{members})",
                   f"items() yields `{shown[:70]}` instead of zip(self.times, self.{members}): pairs are dropped, merged or reordered (frames that share a time stamp collapse when keyed by time), "
                   "so the file written through items() has other frames than the object")
    return n


def check_time_column(ctx):
    m = ctx.model
    w = m.func(f"{TR}.DropletTrack.data")
    wv = view(m, w)
    site = "DropletTrack:time-column"
    # np.empty(n, dtype=DT): DT = [("time", float64)] + <first droplet>.data.dtype.descr
    alloc = [c for c in wv.calls() if (wv.callee(c) or "").endswith("numpy.empty") and kwarg(c, "dtype") is not None]
    ok, name, where = False, None, w
    if len(alloc) == 1:
        where = alloc[0]
        dt = wv.expand(kwarg(alloc[0], "dtype"), alloc[0])
        if isinstance(dt, ast.BinOp) and isinstance(dt.op, ast.Add) and isinstance(dt.left, ast.List) and len(dt.left.elts) == 1:
            e = dt.left.elts[0]
            if isinstance(e, ast.Tuple) and len(e.elts) == 2 and isinstance(e.elts[0], ast.Constant):
                name = e.elts[0].value
                ty = U(e.elts[1])
                right = U(dt.right)
                ok = ty in ("'f8'", "'<f8'", "float", "np.float64", "'float64'", "np.double", "'d'") and right in ("self.first.data.dtype.descr", "self.droplets[0].data.dtype.descr", "self[0].data.dtype.descr")
                if ty not in ("'f8'", "'<f8'", "float", "np.float64", "'float64'", "np.double", "'d'"):
                    ctx.violate("IOAGREE", site + ":type", (w, alloc[0]), f"the time column is typed `{ty}`, not a fixed 64-bit float: times such as 0.25 are truncated/rounded when the first time stamp is an integer, so the file reads back different times")
                    ok = None
    if ok is not None:
        ctx.decide(bool(ok), "IOAGREE", site + ":type", (w, where), "time column is a 64-bit float prepended to the droplet fields",
                   "the track's table does not prepend a ('time', 64-bit float) column to the first droplet's dtype")
    rows = [s for s in wv.statements() if isinstance(s, ast.Assign) and isinstance(s.targets[0], ast.Subscript) and isinstance(s.targets[0].slice, ast.Name)]
    okr = False
    if len(rows) == 1:
        from ..astutil import enumerate_elem_subst

        iv = U(rows[0].targets[0].slice)
        rowx = wv.expand(rows[0].value, rows[0], stop=(iv,))
        lpq_ = stmt_index(wv).enclosing(rows[0], (ast.For,))
        if lpq_ is not None:
            rowx = enumerate_elem_subst(rowx, lpq_[0])
            cover = U(lpq_[0].iter) in ("range(len(self))", "range(len(self.times))", "range(len(self.droplets))", "enumerate(self.times)", "enumerate(self.droplets)") or \
                U(wv.expand(lpq_[0].iter, lpq_[0])) in ("range(len(self))", "range(len(self.times))", "range(len(self.droplets))")
        else:
            cover = False
        okr = cover and U(rowx) == f"(self.times[{iv}],) + self.droplets[{iv}].data.tolist()"
    ctx.decide(okr, "IOAGREE", site + ":rows", (w, rows[0]) if rows else w, "row i = (times[i], *droplets[i].data)", "rows are not (self.times[i],) + self.droplets[i].data.tolist()")
    r = m.func(f"{TR}.DropletTrack._from_hdf_dataset")
    rv = view(m, r)
    rsi = stmt_index(rv)
    drop = [c for c in rv.calls() if (rv.callee(c) or "").endswith("rec_drop_fields")]
    ap = [c for c in rv.calls() if isinstance(c.func, ast.Attribute) and c.func.attr == "append" and arg_or_kw(c, 1, "time") is not None]
    okd = oka = False
    if len(drop) == 1 and len(ap) == 1:
        okd = U(drop[0].args[0]) == "dataset" and U(drop[0].args[1]) == repr(name)
        lpq = rsi.enclosing(ap[0], (ast.For,))
        if lpq is not None and isinstance(lpq[0].iter, ast.Call) and dotted(lpq[0].iter.func) == "zip" and isinstance(lpq[0].target, ast.Tuple) and len(lpq[0].target.elts) == 2:
            tv, rowv = (U(e) for e in lpq[0].target.elts)
            z0, z1 = (U(rv.expand(a, lpq[0])) for a in lpq[0].iter.args)
            okd = okd and z0 == f"dataset[{name!r}]" and z1.replace(" ", "") == f"rfn.rec_drop_fields(dataset,{name!r})"
            oka = U(arg_or_kw(ap[0], 1, "time")) == tv and U(rv.expand(ap[0].args[0], ap[0], stop=(rowv, tv, "dataset"))).replace("dataset.attrs['droplet_class']", "droplet_class") == f"droplet_from_data(droplet_class, {rowv})"
    ctx.decide(okd, "IOAGREE", site + ":reader", (r, drop[0]) if drop else r, f"reader takes the times from column '{name}' and drops exactly that column",
               f"reader does not split off the '{name}' column written by DropletTrack.data")
    ctx.decide(oka, "IOAGREE", site + ":append", (r, ap[0]) if ap else r, "each row is rebuilt as a droplet and appended with its stored time", "rows are not appended as (droplet_from_data(class, row), time=<stored time>)")


def check_exact_eq(ctx):
    m = ctx.model
    fi = m.func(f"{DROP}.DropletBase.__eq__")
    cs = [c for c in ast.walk(fi.node) if isinstance(c, ast.Call) and (dotted(c.func) or "").endswith("allclose")]
    ok = len(cs) == 1 and U(kwarg(cs[0], "rtol")) == "0" and U(kwarg(cs[0], "atol")) == "0" and U(kwarg(cs[0], "equal_nan")) == "True"
    ctx.decide(ok, "IOAGREE", "equality:exact", fi, "droplet equality is exact (rtol=atol=0, NaN = NaN)", "droplet equality is not exact: round trips could differ unnoticed")
    for q in (f"{EM}.EmulsionTimeCourse.__eq__", f"{TR}.DropletTrack.__eq__"):
        g = m.func(q)
        rets = [s for s in ast.walk(g.node) if isinstance(s, ast.Return)]
        gv = view(m, g)
        ok = len(rets) == 1 and "self.times == other.times" in U(gv.expand(rets[0].value, rets[0]))
        ctx.decide(ok, "IOAGREE", q, g, "equality compares the times and the members", "equality ignores the times")


# ----------------------------------------------------------------------------- LAYOUT
def class_layout(ctx, cname):
    """(dtype field names in order, effective __init__ params, fields stored in the __init__ chain)"""
    m = ctx.model
    ci = m.cls(cname)
    from .refine import dtype_layout

    fields = [f for f, _ in dtype_layout(ctx, cname)]
    init = m.method(ci, "__init__")
    params = [p for p in init.all_params if p != "self"] if init else []
    stored = set()
    for c in m.mro(ci):
        for fi in c.methods.get("__init__", []):
            for s in ast.walk(fi.node):
                if isinstance(s, ast.Assign) and isinstance(s.targets[0], ast.Attribute) and U(s.targets[0].value) == "self":
                    stored.add(s.targets[0].attr)
    return fields, params, stored, init


def check_layouts(ctx, rule="LAYOUT"):
    m = ctx.model
    base = m.cls("DropletBase")
    n = 0
    for ci in m.subclasses(base):
        if "ABCMeta" in " ".join(U(k.value) for k in ci.node.keywords) and not ci.attrs.get("dim"):
            pass
        fields, params, stored, init = class_layout(ctx, ci.name)
        if not fields or init is None:
            continue
        # constructor chain: an own __init__ hands every parameter its parent also takes on to super().__init__
        own_init = ci.methods.get("__init__", [])
        if own_init and init is own_init[0]:
            parents = [c_ for c_ in m.mro(ci)[1:] if "__init__" in c_.methods]
            if parents:
                pinit = parents[0].methods["__init__"][0]
                sup = [c_ for c_ in ast.walk(init.node) if isinstance(c_, ast.Call) and isinstance(c_.func, ast.Attribute) and c_.func.attr == "__init__"
                       and isinstance(c_.func.value, ast.Call) and U(c_.func.value.func) == "super"]
                if len(sup) == 1:
                    from ..astutil import call_bindings

                    bnd, unres = call_bindings(view(m, init), sup[0], pinit, skip_self=True)
                    shared = [p_ for p_ in params if p_ in [q_ for q_ in pinit.all_params if q_ != "self"]]
                    iv_ = view(m, init)
                    dropped = [p_ for p_ in shared if p_ not in bnd or p_ not in names_in(bnd[p_])]
                    # … and hands them on as given: a parameter rebound before the call (padded, clipped, converted) changes what the caller asked for
                    rebound = [p_ for p_ in shared if p_ in bnd and isinstance(bnd[p_], ast.Name) and bnd[p_].id == p_
                               and not all(d_ is iv_.cfg.entry for d_ in iv_.defs_reaching(p_, sup[0]))]
                    if rebound and not dropped:
                        ctx.violate(rule, f"{ci.qualname}:ctor-chain", (init, sup[0]), f"the constructor rebinds {rebound} before handing it to super().__init__: the stored value is not the one "
                                    "the caller supplied (e.g. amplitudes padded to another length: the droplet has more amplitudes than requested)")
                        n += 1
                        continue
                    # … and does not overwrite afterwards what the parent has stored for them (readers rebuild droplets through
                    # the constructor: a constructor that adjusts a stored field makes the read-back differ from what was written)
                    rewrites = []
                    for s_ in ast.walk(init.node):
                        tg_ = s_.targets if isinstance(s_, ast.Assign) else ([s_.target] if isinstance(s_, ast.AugAssign) else [])
                        for t_ in tg_:
                            txt_ = U(t_)
                            for p_ in shared:
                                if txt_.startswith(f"self.data['{p_}']") or txt_.startswith(f'self.data["{p_}"]') or txt_ == f"self.{p_}" or txt_.startswith(f"self.{p_}["):
                                    rewrites.append((s_, p_))
                    if rewrites and not dropped:
                        ctx.violate(rule, f"{ci.qualname}:ctor-chain", (init, rewrites[0][0]), f"`{U(rewrites[0][0])[:60]}` overwrites the field `{rewrites[0][1]}` that the parent constructor has just stored from the "
                                    "caller's value: a droplet rebuilt through the constructor (file reading, from_droplet, copy) no longer carries the values it was built from")
                        n += 1
                        continue
                    if not unres:
                        ctx.decide(not dropped, rule, f"{ci.qualname}:ctor-chain", (init, sup[0]),
                                   f"super().__init__ receives every shared parameter {shared}",
                                   f"`{U(sup[0])[:80]}` does not pass {dropped} on to the parent constructor: the value given by the caller (file reading, from_droplet, locate_droplets) is silently "
                                   "replaced by the parent's default, e.g. a supplied interface width comes back as None")
        n += 1
        site = f"{ci.qualname}:layout"
        ok = fields == params and set(fields) <= stored
        ctx.decide(ok, rule, site, init,
                   f"dtype fields {fields} = constructor parameters = fields stored by the constructors",
                   f"dtype fields {fields}, constructor parameters {params}, fields stored {sorted(stored)} disagree: cls(**{{field: data[field]}}) (file reading, from_droplet) fails or drops a field")
    return n


# ----------------------------------------------------------------------------- NaN ⇄ unset width
def _nan_truth(test, var):
    """truth value of ``test`` when ``var`` holds a float NaN (None = unknown)"""
    if isinstance(test, ast.UnaryOp) and isinstance(test.op, ast.Not):
        t = _nan_truth(test.operand, var)
        return None if t is None else not t
    if isinstance(test, ast.BoolOp):
        vals = [_nan_truth(v, var) for v in test.values]
        if isinstance(test.op, ast.And):
            if any(v is False for v in vals):
                return False
            return True if all(v is True for v in vals) else None
        if any(v is True for v in vals):
            return True
        return False if all(v is False for v in vals) else None
    if isinstance(test, ast.Compare) and len(test.ops) == 1:
        l, op, r = test.left, test.ops[0], test.comparators[0]
        sides = (U(l), U(r))
        if var not in sides:
            return None
        other = r if U(l) == var else l
        if isinstance(op, (ast.Is, ast.IsNot)) and isinstance(other, ast.Constant) and other.value is None:
            return isinstance(op, ast.IsNot)
        if isinstance(other, ast.Constant) and isinstance(other.value, (int, float)) or (isinstance(other, ast.UnaryOp) and isinstance(other.operand, ast.Constant)):
            if isinstance(op, (ast.Lt, ast.LtE, ast.Gt, ast.GtE, ast.Eq)):
                return False  # every ordered comparison with NaN is False
            if isinstance(op, ast.NotEq):
                return True
        return None
    if isinstance(test, ast.Call) and U(test.func).split(".")[-1] == "isnan" and len(test.args) == 1 and U(test.args[0]) == var:
        return True
    if isinstance(test, ast.Name) and test.id == var:
        return True  # bool(nan) is True
    return None


def check_nan_width(ctx, rule="IOAGREE"):
    """An unset width is stored as NaN in the data record; readers rebuild droplets by passing
    the stored field back to the constructor, i.e. through the width setter with value = NaN.
    The setter must store NaN for NaN (every ordered comparison with NaN is False, so the
    polarity of the range test matters: `value < 0 → raise` passes NaN, `value >= 0 → store,
    else raise` rejects it)."""
    m = ctx.model
    try:
        fi = m.func(f"{DROP}.DiffuseDroplet.interface_width@setter")
    except KeyError:
        ctx.undecided(rule, "DiffuseDroplet.interface_width:nan", None, "width setter not found")
        return
    var = fi.params[1]
    site = fi.qualname + ":nan"

    env = {var: "nan"}

    def classify(v):
        t = U(v)
        if isinstance(v, ast.Name) and v.id in env:
            return env[v.id]
        if t.endswith("nan") or t in ("float('nan')", "float('NaN')"):
            return "nan"
        if isinstance(v, ast.Call) and U(v.func) in ("float", "np.float64", "np.double") and len(v.args) == 1:
            return classify(v.args[0])
        if isinstance(v, ast.IfExp) and env.get(var) == "nan":
            t_ = _nan_truth(v.test, var)
            if t_ is not None:
                return classify(v.body if t_ else v.orelse)
        return None

    def run(stmts):
        """→ ('raise'|'store'|'fall'|'unknown', node)"""
        for s in stmts:
            if isinstance(s, ast.If):
                t = _nan_truth(s.test, var) if env.get(var) == "nan" else None
                if t is None:
                    return "unknown", s
                res = run(s.body if t else s.orelse)
                if res[0] != "fall" or isinstance(res[1], ast.Return):
                    return res
            elif isinstance(s, ast.Raise):
                return "raise", s
            elif isinstance(s, ast.Return):
                return "fall", s
            elif isinstance(s, ast.Assign) and isinstance(s.targets[0], ast.Subscript) and "interface_width" in U(s.targets[0]):
                return ("store", s) if classify(s.value) == "nan" else ("unknown", s)
            elif isinstance(s, (ast.Assign, ast.AnnAssign)) and isinstance(s.targets[0] if isinstance(s, ast.Assign) else s.target, ast.Name):
                tname = (s.targets[0] if isinstance(s, ast.Assign) else s.target).id
                env[tname] = classify(s.value) if s.value is not None else None
        return "fall", None

    res, node = run(fi.node.body)
    where = (fi, node) if node is not None else fi
    if res == "store":
        ctx.hold(rule, site, where, "a stored NaN (unset width) passes the setter and is stored as NaN again when a file is read")
    elif res == "raise":
        ctx.violate(rule, site, where, f"the width setter raises for NaN (`{U(node)[:60]}` is reached because every ordered comparison with NaN is False): "
                    "a droplet with an unset width is written as NaN and cannot be read back")
    elif res == "fall":
        ctx.violate(rule, site, where, "the width setter stores nothing for NaN: an unset width read from a file keeps a stale value")
    else:
        ctx.undecided(rule, site, where, f"behaviour for NaN not decidable at `{U(node)[:60]}`")


def check_no_cached_state(ctx, rule="IOAGREE", modules=("droplets.droplets", "droplets.emulsions", "droplets.droplet_tracks")):
    """Droplets, emulsions and tracks are mutable (positions, radii, members can be edited in place): anything derived from
    them — in particular the arrays the writers store — must be recomputed on access.  A memoising decorator on a method or
    property of these classes makes a later save write the state of an earlier one."""
    m = ctx.model
    bad = []
    n = 0
    for fi in m.all_functions():
        if fi.module.name not in modules or fi.cls is None:
            continue
        n += 1
        for d in fi.decorators:
            last = (d or "").split(".")[-1]
            if last in ("cached_property", "lru_cache", "cache", "memoize", "cached"):
                bad.append((fi, d))
        # a hand-written memo: a query (get_…, a property getter) that stores a result on the instance
        if (fi.name.startswith("get_") or fi.kind == "property") and fi.kind != "setter":
            for t_ in ast.walk(fi.node):
                if isinstance(t_, ast.Attribute) and isinstance(t_.ctx, ast.Store) and isinstance(t_.value, ast.Name) and t_.value.id == "self":
                    bad.append((fi, f"self.{t_.attr} = … (a result kept on the instance)"))
                    break
    ctx.decide(not bad, rule, "mutable-classes:no-cache", bad[0][0] if bad else None,
               f"no method or property of the droplet/emulsion/track classes is memoised ({n} examined)",
               f"`{bad[0][0].qualname if bad else ''}` is decorated with `{bad[0][1] if bad else ''}`: its value is computed once and kept although the object can be edited in place "
               "afterwards (track.last.radius = …, emulsion[i].position = …); a second save then writes the stale array and the file reads back a state the object no longer has")


def check_writers_propagate(ctx, rule="IOAGREE"):
    """A writer either stores every member or raises: an exception of a member writer (mixed classes cannot form one table …)
    is never caught and skipped, otherwise the file silently lacks that member and reads back a shorter collection."""
    m = ctx.model
    for fi in m.all_functions():
        short = fi.qualname.split(".")[-1]
        if short not in ("to_file", "_write_hdf_dataset") or not fi.qualname.startswith("droplets."):
            continue
        fv = view(m, fi)
        si = stmt_index(fv)
        bad = None
        for c in fv.calls(nested=True):
            nm = c.func.attr if isinstance(c.func, ast.Attribute) else (c.func.id if isinstance(c.func, ast.Name) else "")
            if nm not in ("_write_hdf_dataset", "create_dataset") and not (isinstance(c.func, ast.Attribute) and False):
                continue
            for parent, fld in si.ancestors(c):
                if isinstance(parent, ast.Try) and fld == "body":
                    for h in parent.handlers:
                        if not any(isinstance(x, ast.Raise) for x in ast.walk(h)):
                            bad = (c, h)
        ctx.decide(bad is None, rule, f"{fi.qualname}:propagates", (fi, bad[1]) if bad else fi, "failures of a member writer propagate to the caller",
                   f"`except {U(bad[1].type) if bad and bad[1].type is not None else ''}` around `{U(bad[0])[:60] if bad else ''}` swallows the failure of one member: the write succeeds but the file lacks "
                   "that member, so it reads back different from what was saved instead of the write raising")


def check_track_one_layout(ctx, rule="IOAGREE"):
    """DropletTrack.data allocates its table with the first droplet's dtype and assigns the other droplets row by row (numpy
    casts silently).  Like its sibling Emulsion.data it must therefore reject — before the table is formed — members of
    another class (same layout, e.g. PerturbedDroplet3D / …AxisSym: the file names one class) or another layout (fewer modes:
    amplitudes are broadcast)."""
    m = ctx.model
    fi = m.func(f"{TR}.DropletTrack.data")
    fv = view(m, fi)
    si = stmt_index(fv)
    site = fi.qualname + ":one-class"
    alloc = [c for c in fv.calls() if (fv.callee(c) or "").endswith("numpy.empty") or (fv.callee(c) or "").endswith("numpy.zeros")]
    raises = [s_ for s_ in fv.statements() if isinstance(s_, ast.Raise) and "TypeError" in U(s_)]
    ok_cls = ok_lay = False
    where = fi
    for r in raises:
        if alloc and not all(fv.dominates(top_stmt(si, r), a_) or True for a_ in alloc):
            continue
        txts = " ".join(U(fv.expand(t_, t_)) for t_, _p in si.effective_guards(r))
        # the loop/generator the raise sits in must range over all members
        lpq = si.enclosing(r, (ast.For,))
        over_all = (lpq is not None and U(lpq[0].iter) in ("self.droplets", "self", "self.droplets[1:]", "self[1:]")) or "for" in txts
        if not over_all:
            continue
        where = (fi, r)
        member = {n_.id for n_ in ast.walk(lpq[0].target) if isinstance(n_, ast.Name)} if lpq is not None else set()
        if "__class__" in txts or "type(" in txts:
            # the class of *each member* (the loop variable) is compared, not that of one fixed droplet
            cls_cmps = [c_ for t_, _p in si.effective_guards(r) for c_ in ast.walk(fv.expand(t_, t_))
                        if isinstance(c_, ast.Compare) and len(c_.ops) == 1 and ("__class__" in U(c_) or "type(" in U(c_))]
            ok_cls = not member or not cls_cmps or any(names_in(c_) & member for c_ in cls_cmps)
        # the complete dtype is compared (field names *and* shapes: a member with fewer modes has the same names)
        for t_, _p in si.effective_guards(r):
            for cmp_ in ast.walk(fv.expand(t_, t_)):
                if isinstance(cmp_, ast.Compare) and len(cmp_.ops) == 1 and isinstance(cmp_.ops[0], (ast.Eq, ast.NotEq)):
                    sides = [U(cmp_.left), U(cmp_.comparators[0])]
                    if all(x.endswith(".dtype") or x.endswith(".dtype.descr") for x in sides):
                        ok_lay = True
    before = bool(alloc) and any(all(_precedes(fv, r, a_) for a_ in alloc) for r in raises) if raises else False
    ctx.decide(ok_cls and ok_lay and before, rule, site, where,
               "a track whose droplets differ in class or data layout raises TypeError before the table is formed (one class and one layout per dataset)",
               "DropletTrack.data forms its table from the first droplet's dtype without rejecting members of another class or layout: a track mixing PerturbedDroplet3D and "
               "PerturbedDroplet3DAxisSym (same layout) is written under the first class' name and reads back as that class; a member with fewer modes is silently broadcast — the file reads back different instead of the write raising")


def top_stmt(si, node):
    st = si.statement(node)
    anc = si.ancestors(st)
    return anc[-1][0] if anc else st


def _precedes(fv, a, b):
    """statement a (or the loop that contains it) is executed before b on every path to b"""
    si = stmt_index(fv)
    ta = top_stmt(si, a)
    return fv.dominates(ta, b)


def check_readers_total(ctx, rule="IOAGREE"):
    """A reader accepts everything the matching writer produces, in particular empty collections and collections of empty
    members: a consistency check added to a reader may not raise when the quantity it inspects is derived from *no* member
    (a set of dimensions of the non-empty tracks is empty for an empty list: `len(dims) != 1` raises)."""
    from ..astutil import mini_eval

    m = ctx.model
    for fi in m.all_functions():
        short = fi.qualname.split(".")[-1]
        if short not in ("from_file", "_from_hdf_dataset") or not fi.qualname.startswith("droplets.") or fi.module.name == "droplets.droplets":
            continue
        fv = view(m, fi)
        si = stmt_index(fv)
        bad = None
        for r in [s_ for s_ in fv.statements() if isinstance(s_, ast.Raise)]:
            for t_, p_ in si.effective_guards(r):
                for c_ in [x_ for x_ in ast.walk(t_) if isinstance(x_, ast.Call) and dotted(x_.func) == "len" and x_.args and isinstance(x_.args[0], ast.Name)]:
                    dv = fv.single_def_value(c_.args[0].id, r)
                    if dv is None or not isinstance(dv[0], (ast.SetComp, ast.ListComp, ast.GeneratorExp, ast.DictComp)):
                        continue
                    # outcome of the guard when the comprehension selects nothing
                    try:
                        txt = U(t_).replace(U(c_), "LEN0")
                        val = bool(mini_eval(ast.parse(txt, mode="eval").body, {"LEN0": 0}))
                    except (ValueError, SyntaxError):
                        continue
                    if val == p_:
                        bad = (r, t_)
        ctx.decide(bad is None, rule, f"{fi.qualname}:total", (fi, bad[0]) if bad else fi, "no consistency check of the reader raises for an empty collection",
                   f"`{U(bad[1])[:60] if bad else ''}` is {'true' if bad else ''} when no member contributes (empty collection / only empty members), so reading a file that the writer produced "
                   "for such a collection raises instead of returning it")
