"""ITER-ONCE: a parameter declared as a one-shot ``Iterable``/``Iterator`` must be
consumed at most once on every path (a second consumption sees an exhausted
generator and silently yields nothing)."""

from __future__ import annotations

import ast

from ..astutil import U, view
from ..cfg import walk_no_nested


def iterable_params(fi):
    out = []
    a = fi.node.args
    for p in a.posonlyargs + a.args + a.kwonlyargs:
        if p.annotation is None:
            continue
        txt = U(p.annotation)
        head = txt.split("|")[0].strip()
        if head.startswith(("Iterable", "Iterator", "Generator", "collections.abc.Iterable", "typing.Iterable")):
            out.append(p.arg)
    return out


def _uses(root, name):
    """Consuming loads of ``name`` in an expression tree."""
    n_use = 0
    skip = set()
    for n in ast.walk(root):
        if isinstance(n, ast.Call) and isinstance(n.func, ast.Name) and n.func.id in ("isinstance", "hasattr", "callable", "type"):
            for s in ast.walk(n):
                skip.add(id(s))
        if isinstance(n, ast.Compare) and all(isinstance(o, (ast.Is, ast.IsNot)) for o in n.ops):
            for s in ast.walk(n):
                skip.add(id(s))
    for n in ast.walk(root):
        if isinstance(n, ast.Name) and n.id == name and isinstance(n.ctx, ast.Load) and id(n) not in skip:
            n_use += 1
    return n_use


def check_function(ctx, fi, rule="ITER-ONCE"):
    params = iterable_params(fi)
    if not params:
        return 0
    fv = view(ctx.model, fi)
    n_inst = 0
    for p in params:
        # count per CFG node; the parameter binding only (re-definitions end tracking)
        cost = {}
        for node in fv.cfg.nodes:
            defs = fv.IN[node].get(p, frozenset())
            if fv.cfg.entry not in defs:
                continue  # parameter value cannot reach here
            c = 0
            for root in fv._roots(node):
                if node.kind == "loop" and root is node.stmt.target:
                    continue
                c += _uses(root, p)
            # nested lambdas/defs capturing p count once per definition
            cost[node] = c
        # longest path over the CFG without revisiting nodes; a use inside a loop counts twice
        in_loop = set()
        for node in fv.cfg.nodes:
            if node.kind == "loop" or (node.kind == "test" and any(lab == "T" and False for _, lab in node.succ)):
                pass
        # nodes on a cycle
        idx = {n: i for i, n in enumerate(fv.cfg.nodes)}

        def on_cycle(n):
            seen, work = set(), [m for m, _ in n.succ]
            while work:
                y = work.pop()
                if y is n:
                    return True
                if y in seen:
                    continue
                seen.add(y)
                work.extend(z for z, _ in y.succ)
            return False

        def reevaluated(n):
            """is the expression of node n evaluated more than once per call?  A for-loop
            evaluates its iterable once per entry: its own body's back edges do not count."""
            if n.kind != "loop":
                return on_cycle(n)
            seen, work = set(), [m for m, lab in n.succ if lab in ("done",)]
            # break targets: the after-loop node is the successor reached by 'done'; breaks go there too
            while work:
                y = work.pop()
                if y is n:
                    return True
                if y in seen:
                    continue
                seen.add(y)
                work.extend(z for z, _ in y.succ)
            return False

        weight = {n: (c * 2 if c and reevaluated(n) else c) for n, c in cost.items()}
        memo = {}

        def best(n, stack):
            if n in memo:
                return memo[n]
            if n in stack:
                return 0
            stack.add(n)
            m = 0
            for s, lab in n.succ:
                m = max(m, best(s, stack))
            stack.discard(n)
            memo[n] = weight.get(n, 0) + m
            return memo[n]

        total = best(fv.cfg.entry, set())
        site = f"{fi.qualname}:{p}"
        n_inst += 1
        if total > 1:
            worst = [n for n, w in weight.items() if w]
            where = worst[-1].stmt if worst else fi.node
            ctx.violate(rule, site, (fi, where),
                        f"one-shot iterable parameter `{p}` can be consumed {total} times on one path "
                        f"(uses at lines {sorted({n.line for n in worst})}); a generator argument is exhausted after the first")
        else:
            ctx.hold(rule, site, fi, f"`{p}` is consumed at most once on every path")
    return n_inst


def check_local_iterators(ctx, fi, rule="ITER-ONCE"):
    """a local bound once to a one-shot iterator (`zip`, `map`, `filter`, `iter`, `enumerate`, `reversed`, a generator expression, or
    the package's own `items()` methods, which return `zip` objects) is consumed at most once on every path: a second loop over it
    sees an exhausted iterator and silently does nothing"""
    from ..astutil import stmt_index

    fv = view(ctx.model, fi)
    si = stmt_index(fv)
    ONE_SHOT = {"zip", "map", "filter", "iter", "enumerate", "reversed"}
    stores = {}
    for n in ast.walk(fi.node):
        if isinstance(n, ast.Name) and isinstance(n.ctx, ast.Store):
            stores[n.id] = stores.get(n.id, 0) + 1
    n_inst = 0
    for st in fv.statements():
        if not (isinstance(st, ast.Assign) and len(st.targets) == 1 and isinstance(st.targets[0], ast.Name)):
            continue
        x = st.targets[0].id
        v = st.value
        one_shot = isinstance(v, ast.GeneratorExp) or (isinstance(v, ast.Call) and ((isinstance(v.func, ast.Name) and v.func.id in ONE_SHOT)
                                                                                  or (isinstance(v.func, ast.Attribute) and v.func.attr == "items" and U(v.func.value) == "self")))
        if not one_shot or stores.get(x) != 1:
            continue
        uses = []
        for s2 in fv.statements():
            if s2 is st:
                continue
            roots = [s2.iter] if isinstance(s2, (ast.For,)) else ([s2.test] if isinstance(s2, (ast.If, ast.While)) else ([] if isinstance(s2, (ast.With, ast.Try, ast.FunctionDef)) else [s2]))
            if any(_uses(r, x) for r in roots):
                uses.append(s2)
        n_inst += 1
        bad = None
        for a in uses:
            na = fv.node_of(a)
            if na is None:
                continue
            seen, work = set(), [m for m, lab in na.succ if lab != "exc"]
            while work:
                y = work.pop()
                if id(y) in seen:
                    continue
                seen.add(id(y))
                work.extend(z for z, lab in y.succ if lab != "exc")
            for b in uses:
                nb = fv.node_of(b)
                if b is not a and nb is not None and id(nb) in seen:
                    bad = (a, b)
                    break
            if bad:
                break
        ctx.decide(bad is None, rule, f"{fi.qualname}:{x}", (fi, bad[1]) if bad else (fi, st), f"the one-shot iterator `{x}` is consumed at most once on every path",
                   f"`{x} = {U(v)[:50]}` is a one-shot iterator and is consumed at line {getattr(bad[0], 'lineno', '?') if bad else ''} and again at line {getattr(bad[1], 'lineno', '?') if bad else ''}: "
                   "the second consumer sees it exhausted and silently does nothing (e.g. no frame is written)")
    return n_inst
