"""Rules over the mask locators of image_analysis (C01): coordinate-frame typestate
(FRAME), cell-volume factor (DIM), wrap-into-box flow (FLOW), periodic merge (MERGE),
half-open periodic window and padding/shift agreement on cylinders (WINDOW, PADSHIFT)."""

from __future__ import annotations

import ast
from fractions import Fraction

from ..algebra import Converter, Expr, NotAlgebraic
from ..astutil import U, view, arg_or_kw, kwarg, names_in, stmt_index, compare_parts
from ..cfg import walk_no_nested
from ..dim import DimEval, Unit, LEN, L, ONE, Obj
from ..model import dotted

IMG = "droplets.image_analysis"
CART = f"{IMG}._locate_droplets_in_mask_cartesian"
SPHR = f"{IMG}._locate_droplets_in_mask_spherical"
CYL1 = f"{IMG}._locate_droplets_in_mask_cylindrical_single"
CYL = f"{IMG}._locate_droplets_in_mask_cylindrical"

INDEX, CELL, GRID, CART_F = "index", "cell", "grid", "cartesian"


class FrameEval:
    """frame of position-valued expressions inside one function"""

    def __init__(self, model, fi):
        self.fv = view(model, fi)
        self.fi = fi
        self.problems = []
        self.transforms = []  # (call, src, dst, frame of argument)
        self.busy = set()

    def name(self, nm, node):
        key = (nm, node.idx)
        if key in self.busy:
            return None
        self.busy.add(key)
        try:
            res = None
            for d in self.fv.defs_reaching(nm, node):
                if d is self.fv.cfg.entry or d.stmt is None:
                    continue
                if isinstance(d.stmt, ast.AugAssign):
                    continue
                v = self.fv.value_of_def(d, nm)
                if v is None:
                    continue
                f = self.expr(v, d)
                if f is None:
                    continue
                if res is None:
                    res = f
                elif res != f:
                    return "mixed"
            return res
        finally:
            self.busy.discard(key)

    def expr(self, n, node):
        fv = self.fv
        if isinstance(n, ast.Name):
            return self.name(n.id, node)
        if isinstance(n, ast.Call):
            name = fv.callee(n) or ""
            short = name.split(".")[-1]
            if name == "scipy.ndimage.center_of_mass":
                return INDEX
            if short in ("asarray", "asanyarray", "array", "atleast_1d", "atleast_2d", "copy", "float") and n.args:
                return self.expr(n.args[0], node)
            if isinstance(n.func, ast.Attribute) and n.func.attr == "transform" and len(n.args) >= 1:
                src = arg_or_kw(n, 1, "source")
                dst = arg_or_kw(n, 2, "target")
                s = src.value if isinstance(src, ast.Constant) else None
                t = dst.value if isinstance(dst, ast.Constant) else None
                af = self.expr(n.args[0], node)
                self.transforms.append((n, s, t, af))
                if af is not None and s is not None and af != s and af != "mixed":
                    self.problems.append((n, f"`{U(n)[:80]}` converts from '{s}' coordinates but its argument is in {af} coordinates"
                                          + (" (array indices from ndimage.center_of_mass, where the centre of cell i is at i; cell coordinates place it at i + 0.5): every position is off by half a cell" if af == INDEX and s == CELL else "")))
                return t
            if isinstance(n.func, ast.Attribute) and n.func.attr == "normalize_point" and n.args:
                af = self.expr(n.args[0], node)
                if af is not None and af not in (GRID, "mixed"):
                    self.problems.append((n, f"normalize_point expects grid coordinates but receives {af} coordinates: `{U(n)[:70]}`"))
                return GRID
            return None
        if isinstance(n, ast.BinOp) and isinstance(n.op, (ast.Add, ast.Sub)):
            l, r = self.expr(n.left, node), self.expr(n.right, node)
            for a, b in ((l, n.right), (r, n.left)):
                if a == INDEX and isinstance(b, ast.Constant) and b.value == 0.5 and isinstance(n.op, ast.Add):
                    return CELL
            return l or r
        if isinstance(n, ast.Subscript):
            base = self.expr(n.value, node)
            if base is None and isinstance(n.value, ast.Subscript):
                pass
            return base
        if isinstance(n, ast.Attribute) and n.attr in ("start", "stop"):
            return CELL
        if isinstance(n, (ast.Tuple, ast.List)):
            fr = {self.expr(e, node) for e in n.elts} - {None}
            return fr.pop() if len(fr) == 1 else None
        return None


def check_frames(ctx):
    m = ctx.model
    for q in (CART, CYL1, SPHR):
        fi = m.func(q)
        fe = FrameEval(m, fi)
        fv = fe.fv
        for c in fv.calls():
            if isinstance(c.func, ast.Attribute) and c.func.attr in ("transform", "normalize_point"):
                # evaluate outermost calls only once
                fe.expr(c, fv.node_of(c))
        seen = set()
        for c, s, t, af in fe.transforms:
            if id(c) in seen:
                continue
            seen.add(id(c))
            site = f"{q}:transform({s}→{t})"
            prob = [p for p in fe.problems if p[0] is c]
            if prob:
                ctx.violate("FRAME", site, (fi, c), prob[0][1])
            elif af is None:
                ctx.undecided("FRAME", site, (fi, c), f"frame of `{U(c.args[0])[:50]}` not inferable")
            else:
                ctx.hold("FRAME", site, (fi, c), f"argument is in {af} coordinates as the conversion from '{s}' requires")
        for c, msg in fe.problems:
            if not any(c is t[0] for t in fe.transforms):
                ctx.violate("FRAME", f"{q}:normalize_point", (fi, c), msg)


def check_cartesian_flow(ctx):
    """positions: transform(cell→grid) → normalize_point → from_volume(position, volume); volume = count × cell volume"""
    m = ctx.model
    fi = m.func(CART)
    fv = view(m, fi)
    si = stmt_index(fv)
    site = CART
    fvc = [c for c in fv.calls(nested=True) if U(c.func).endswith("from_volume")]
    if len(fvc) != 1:
        ctx.undecided("FLOW", site + ":construct", fi, "no single from_volume construction")
        return
    c = fvc[0]
    gen = None
    for n in ast.walk(fi.node):
        if isinstance(n, (ast.GeneratorExp, ast.ListComp)) and any(x is c for x in ast.walk(n)):
            gen = n
    ok = False
    posname = volname = None
    if gen is not None and len(gen.generators) == 1:
        g = gen.generators[0]
        it = g.iter
        if isinstance(it, ast.Call) and dotted(it.func) == "zip" and len(it.args) == 2 and isinstance(g.target, ast.Tuple):
            tp, tv = (U(e) for e in g.target.elts)
            ok = [U(a) for a in c.args] == [tp, tv]
            posname = U(it.args[0].value) if isinstance(it.args[0], ast.Subscript) else U(it.args[0])
            volname = U(it.args[1].value) if isinstance(it.args[1], ast.Subscript) else U(it.args[1])
            ok = ok and isinstance(it.args[0], ast.Subscript) and isinstance(it.args[1], ast.Subscript) and U(it.args[0].slice) == U(it.args[1].slice)
    ctx.decide(ok, "FLOW", site + ":construct", (fi, c), "each droplet = from_volume(position_k, volume_k) with the same cluster index k for both",
               "droplets are not built as SphericalDroplet.from_volume(position, volume) from the same cluster's position and volume")
    if not posname:
        return
    # last definition of positions before the construction passes normalize_point(transform(cell→grid))
    st = si.statement(gen) or si.statement(c)
    defs = [s for s in fv.statements() if isinstance(s, ast.Assign) and U(s.targets[0]) == posname]
    last = defs[-1] if defs else None
    okn = last is not None and U(last.value) == f"grid.normalize_point(grid.transform({posname}, 'cell', 'grid'))" and fv.dominates(last, st)
    loops = [s for s in fv.statements() if isinstance(s, ast.For) and "periodic" in U(s.iter)]
    okn = okn and all(fv.dominates(lp, last) for lp in loops)
    ctx.decide(bool(okn), "FLOW", site + ":wrap", (fi, last) if last is not None else fi,
               "after all merging, positions are converted cell→grid and wrapped into the box by normalize_point before the droplets are built",
               "located positions are not passed through grid.normalize_point(grid.transform(positions, 'cell', 'grid')) after the periodic merging and before construction: positions along periodic axes can lie outside the grid bounds")


def check_cartesian_volume(ctx):
    m = ctx.model
    fi = m.func(CART)
    fv = view(m, fi)
    ev = DimEval(m, fi, attr_units={"discretization": LEN}, expr_units={"mask.data": ONE})
    site = CART + ":volume"
    ev.call_units.update({"scipy.ndimage.sum": ONE, "scipy.ndimage.sum_labels": ONE})
    want = L({"d": 1})
    cons = [c for c in fv.calls(nested=True) if U(c.func).endswith("from_volume")]
    at = stmt_index(fv).statement(cons[0]) if cons else None
    if at is None:
        for n in fv.cfg.nodes:
            if n.stmt is not None and cons and any(x is cons[0] for x in ast.walk(n.stmt)):
                at = n.stmt
    known, bad = 0, None
    if at is not None:
        for d, u in ev.name_units_per_def("volumes", at):
            if isinstance(u, Unit):
                known += 1
                if not u.same(want):
                    bad = (d, u)
    if bad:
        d, u = bad
        ctx.violate("DIM", site, (fi, d.stmt), f"`{U(d.stmt)[:80]}` gives the cluster volumes the unit {u.show()}, expected {want.show()} (cell count × product of all per-axis spacings): wrong volumes on grids whose spacing is not 1")
    elif known:
        ctx.hold("DIM", site, (fi, at), f"cluster volume = cell count × Π_i spacing_i (unit {want.show()})")
    else:
        ctx.undecided("DIM", site, fi, "unit of the cluster volumes not inferable")
    for kind, node, msg, key in ev.mismatches:
        ctx.violate(kind, f"{site}:{key}", (fi, node), msg)
    com = [c for c in fv.calls() if (fv.callee(c) or "") == "scipy.ndimage.center_of_mass"]
    okc = len(com) == 1 and [U(a) for a in com[0].args[:2]] == ["mask.data", "labels"] and kwarg(com[0], "index") is not None and U(kwarg(com[0], "index")) == "indices"
    sm = [c for c in fv.calls() if (fv.callee(c) or "") in ("scipy.ndimage.sum", "scipy.ndimage.sum_labels")]
    oks = len(sm) == 1 and kwarg(sm[0], "index") is not None and U(kwarg(sm[0], "index")) == "indices"
    idx = [s for s in fv.statements() if isinstance(s, (ast.Assign, ast.AnnAssign)) and U(s.targets[0] if isinstance(s, ast.Assign) else s.target) == "indices"]
    oki = bool(idx) and U(idx[0].value) == "range(1, num_labels + 1)"
    ctx.decide(okc and oks and oki, "DIM", site + ":labels", (fi, com[0]) if com else fi, "positions and volumes are measured for the same labels 1…num_labels",
               "centre of mass and volume are not measured over the same label list range(1, num_labels + 1)")


def check_merge(ctx):
    """periodic merge: shift upper cluster by one period (in cells), volume-weighted mean, volumes add, relabel"""
    m = ctx.model
    fi = m.func(CART)
    fv = view(m, fi)
    si = stmt_index(fv)
    site = CART + ":merge"
    outer = [s for s in fv.statements() if isinstance(s, ast.For) and "periodic" in U(s.iter)]
    if len(outer) != 1:
        ctx.undecided("MERGE", site, fi, "loop over the periodic axes not found")
        return
    lp = outer[0]
    axv = U(lp.target)
    ok_it = U(lp.iter) in ("np.flatnonzero(grid.periodic)", "np.nonzero(grid.periodic)[0]", "np.where(grid.periodic)[0]")
    ctx.decide(ok_it, "MERGE", site + ":axes", (fi, lp), "every periodic axis is processed", f"merging iterates `{U(lp.iter)}` instead of all periodic axes")
    # mean
    means = [s for s in ast.walk(lp) if isinstance(s, ast.Assign) and isinstance(s.value, ast.BinOp) and isinstance(s.value.op, ast.Div)]
    okm = False
    if means:
        s = means[0]
        try:
            e = Converter().conv(s.value)
            atoms = sorted(e.atoms())
            ex = fv.expand(s.value, s, stop=("positions", "volumes", "labels", "grid", axv))
            # names bound by tuple assignment: v_l, v_h = volumes[i_l-1], volumes[i_h-1]
            okm = True
            pl, ph, vl, vh = "pos_l", "pos_h", "v_l", "v_h"
            want = (Expr.atom(pl) * Expr.atom(vl) + Expr.atom(ph) * Expr.atom(vh)) * (Expr.atom(vl) + Expr.atom(vh)).inverse()
            # accept any naming: two position atoms, two volume atoms
            if len(atoms) >= 4:
                names = sorted(names_in(s.value))
                okm = False
                import itertools

                for a, b, c, d in itertools.permutations(names, 4):
                    w = (Expr.atom(a) * Expr.atom(c) + Expr.atom(b) * Expr.atom(d)) * (Expr.atom(c) + Expr.atom(d)).inverse()
                    if w == e:
                        pl, ph, vl, vh = a, b, c, d
                        okm = True
                        break
        except NotAlgebraic:
            okm = False
        ctx.decide(okm, "MERGE", site + ":mean", (fi, s), "merged position = volume-weighted mean of the two clusters' positions",
                   f"merged position `{U(s.value)[:70]}` is not (p₁·V₁ + p₂·V₂)/(V₁ + V₂)")
    else:
        ctx.violate("MERGE", site + ":mean", (fi, lp), "no volume-weighted mean of the two cluster positions")
        return
    # tuple bindings
    bind = {}
    for s in ast.walk(lp):
        if isinstance(s, ast.Assign) and isinstance(s.targets[0], ast.Tuple) and isinstance(s.value, ast.Tuple) and len(s.targets[0].elts) == len(s.value.elts):
            for t, v in zip(s.targets[0].elts, s.value.elts):
                bind[U(t)] = U(v)
    okb = okm and bind.get(vl, "").startswith("volumes[") and bind.get(vh, "").startswith("volumes[") and bind.get(pl, "").startswith("positions[") and bind.get(ph, "").startswith("positions[") \
        and bind.get(vl, "")[8:] == bind.get(pl, "")[10:] and bind.get(vh, "")[8:] == bind.get(ph, "")[10:] and bind.get(vl) != bind.get(vh)
    ctx.decide(bool(okb), "MERGE", site + ":operands", (fi, means[0]), "positions and volumes of the same two labels enter the mean",
               f"the weighted mean does not pair each cluster's position with its own volume (bindings {bind})")
    # shift by one period in cell units, on the upper cluster, before the mean
    mods = []
    for s in ast.walk(lp):
        if isinstance(s, ast.AugAssign) and isinstance(s.target, ast.Subscript):
            mods.append(s)
        elif isinstance(s, ast.Assign) and isinstance(s.targets[0], ast.Subscript) and U(s.targets[0].value) not in ("positions", "volumes", "labels", "low", "high"):
            mods.append(s)
    shifts = [s for s in mods if isinstance(s, ast.AugAssign) and isinstance(s.op, ast.Sub) and U(s.value) == f"grid.shape[{axv}]" and U(s.target.slice) == axv]
    oks = len(shifts) == 1 and len(mods) == 1
    high_side = False
    if oks:
        tgt = U(shifts[0].target.value)
        # the shifted cluster is the one found on the high boundary index (-1)
        hb = bind.get(tgt, "")
        idxs = {}
        for s in ast.walk(lp):
            if isinstance(s, ast.Assign) and isinstance(s.targets[0], ast.Tuple) and U(s.value).startswith("(labels["):
                for t, v in zip(s.targets[0].elts, s.value.elts):
                    idxs[U(t)] = U(v)
        for k, v in idxs.items():
            if k in hb:
                high_side = v == "labels[h]"
        oks = fv.dominates(shifts[0], means[0])
    ctx.decide(bool(oks and high_side), "MERGE", site + ":shift", (fi, shifts[0]) if shifts else (fi, lp),
               "the cluster on the upper boundary is shifted down by exactly one period (grid.shape[ax] cells, positions are in cell units) before averaging; nothing else modifies positions inside the loop",
               "inside the periodic merge loop positions are modified other than by the single shift `pos_upper[ax] -= grid.shape[ax]` before the mean "
               f"({[U(s)[:50] for s in mods]}): e.g. wrapping the merged position inside the loop breaks clusters that straddle two periodic boundaries (a later merge averages images that are a period apart)")
    # volumes add and both labels updated, relabel
    va = [s for s in ast.walk(lp) if isinstance(s, ast.Assign) and len(s.targets) == 2 and all(U(t).startswith("volumes[") for t in s.targets)]
    okv = False
    if va and okm:
        try:
            okv = Converter().conv(va[0].value) == Expr.atom(vl) + Expr.atom(vh)
        except NotAlgebraic:
            okv = False
    pa = [s for s in ast.walk(lp) if isinstance(s, ast.Assign) and len(s.targets) == 2 and all(U(t).startswith("positions[") for t in s.targets)]
    rl = [s for s in ast.walk(lp) if isinstance(s, ast.Assign) and U(s.targets[0]).startswith("labels[labels ==")]
    ctx.decide(bool(okv and len(pa) == 1 and len(rl) == 1), "MERGE", site + ":update", (fi, va[0]) if va else (fi, lp),
               "both clusters get the summed volume and the merged position; one label is replaced by the other",
               "after a merge the two clusters do not both carry V₁ + V₂ and the merged position, with one label replaced by the other")
    # merge condition
    conds = [s for s in ast.walk(lp) if isinstance(s, ast.If)]
    okc = any(U(s.test) in ("i_l > 0 and i_h > 0 and i_l != i_h", "i_l > 0 and i_h > 0 and (i_l != i_h)") for s in conds)
    ctx.decide(okc, "MERGE", site + ":condition", (fi, conds[0]) if conds else (fi, lp), "two different non-background labels facing each other across the boundary are merged",
               "merge condition is not (both labels non-zero and different)")


def check_cylindrical(ctx):
    m = ctx.model
    fi = m.func(CYL)
    fv = view(m, fi)
    si = stmt_index(fv)
    site = CYL
    # WINDOW
    tests = [s for s in fv.statements() if isinstance(s, ast.If) and isinstance(s.test, ast.Compare) and len(s.test.ops) == 2]
    ok, where = False, fi
    detail = "no chained window test"
    if tests:
        t = tests[0].test
        where = tests[0]
        ops = tuple(type(o) for o in t.ops)
        lo, mid, hi = U(t.left), U(t.comparators[0]), U(t.comparators[1])
        bounds = [s for s in fv.statements() if isinstance(s, ast.Assign) and U(s.targets[0]) == f"({lo}, {hi})"]
        okb = len(bounds) == 1 and U(bounds[0].value) == "grid.axes_bounds[1]"
        half_open = ops in ((ast.LtE, ast.Lt), (ast.Lt, ast.LtE))
        ok = okb and half_open and mid.endswith(".position[2]")
        detail = f"`{U(t)}`"
        if okb and not half_open:
            ctx.violate("WINDOW", site, (fi, tests[0]),
                        f"the window {detail} that selects one periodic image is closed on both sides: a droplet centred exactly on the periodic boundary is kept twice (at z_min and at z_max)"
                        if ops == (ast.LtE, ast.LtE) else f"the window {detail} is open on both sides: a droplet centred exactly on the periodic boundary is dropped")
            ok = None
    if ok is not None:
        ctx.decide(bool(ok), "WINDOW", site, (fi, where), "exactly one periodic image is kept: z_min ≤ z < z_max with the bounds of the periodic axis",
                   f"window test {detail} is not the half-open interval of grid.axes_bounds[1]")
    # PADSHIFT: pad (cells) / dim_z == shift / grid.length
    pads = [c for c in fv.calls() if (fv.callee(c) or "").endswith("numpy.pad")]
    shifts = [s for s in fv.statements() if isinstance(s, ast.AugAssign) and isinstance(s.op, ast.Sub) and U(s.target).endswith(".position[2]")]
    if len(pads) == 1 and len(shifts) == 1:
        c = pads[0]
        pw = c.args[1] if len(c.args) > 1 else kwarg(c, "pad_width")
        mode = kwarg(c, "mode")
        okp = isinstance(pw, ast.List) and len(pw.elts) == 2 and U(pw.elts[0]) in ("[0, 0]", "(0, 0)") and isinstance(pw.elts[1], (ast.List, ast.Tuple)) and len(pw.elts[1].elts) == 2 \
            and U(pw.elts[1].elts[0]) == U(pw.elts[1].elts[1]) and isinstance(mode, ast.Constant) and mode.value == "wrap" and U(c.args[0]) == "mask.data"
        ratio_ok, detail = False, ""
        if okp:
            p_ex = fv.expand(pw.elts[1].elts[0], c, stop=("grid",))
            s_ex = fv.expand(shifts[0].value, shifts[0], stop=("grid",))
            has_floor = any(isinstance(x, ast.BinOp) and isinstance(x.op, ast.FloorDiv) for x in ast.walk(p_ex))
            try:
                env = {"dim_z": Expr.atom("NZ"), "grid.shape[1]": Expr.atom("NZ")}
                cvp = Converter(env=env)
                # dim_r, dim_z = grid.shape
                pe = cvp.conv(ast.parse(U(p_ex).replace("grid.shape[1]", "dim_z"), mode="eval").body) if not has_floor else None
                se = Converter().conv(s_ex)
                if pe is not None:
                    cp_ = pe * Expr.atom("NZ").inverse()
                    cs_ = se * Expr.atom("grid.length").inverse()
                    ratio_ok = cp_ == cs_ and not cp_.atoms()
                    detail = f"padding {pe.show()} cells, shift {se.show()}"
                else:
                    detail = f"padding `{U(p_ex)}` is a rounded number of cells, shift `{U(s_ex)}`"
            except (NotAlgebraic, SyntaxError) as exc:
                detail = str(exc)
        ctx.decide(bool(okp and ratio_ok), "PADSHIFT", site, (fi, shifts[0]),
                   "the image is padded periodically by whole periods on both sides and the located z positions are shifted back by the same length",
                   f"padding and back-shift disagree ({detail}): the padded cells times the spacing must equal the length subtracted from the positions for every cell count (odd counts included), otherwise all z positions are biased")
    else:
        ctx.undecided("PADSHIFT", site, fi, "padding / shift statements not found")
    # periodic branch condition and the spanning signal handling
    conds = [s for s in fi.node.body if isinstance(s, ast.If)]
    okc = bool(conds) and U(conds[0].test) == "grid.periodic[1]"
    ctx.decide(okc, "WINDOW", site + ":branch", (fi, conds[0]) if conds else fi, "padding is used exactly for a periodic z axis", "the periodic treatment is not selected by grid.periodic[1]")
    # on-axis selection and volumes in the single-grid helper
    h = m.func(CYL1)
    hv = view(m, h)
    sel = [s for s in hv.statements() if isinstance(s, ast.If) and U(s.test) == "slices[0].start == 0"]
    ctx.decide(len(sel) == 1, "FLOW", CYL1 + ":on-axis", (h, sel[0]) if sel else h, "only clusters containing the symmetry axis (radial slice starts at 0) are located",
               "clusters are not selected by slices[0].start == 0 (touching the symmetry axis)")
    vol = [c for c in hv.calls() if (hv.callee(c) or "") in ("scipy.ndimage.sum_labels", "scipy.ndimage.sum")]
    okv = bool(vol) and all(U(c.args[0]) == "cell_volumes" and U(c.args[1]) == "labels" and U(kwarg(c, "index")) == "indices" for c in vol)
    cv = [s for s in hv.statements() if isinstance(s, ast.Assign) and U(s.targets[0]) == "cell_volumes"]
    okcv = len(cv) == 1 and U(cv[0].value) == "np.outer(vol_r, dz)" and any(isinstance(s, ast.Assign) and U(s.targets[0]) == "(vol_r, dz)" and U(s.value) == "grid.cell_volume_data" for s in hv.statements())
    ctx.decide(okv and okcv, "DIM", CYL1 + ":volume", (h, vol[0]) if vol else h, "cluster volume = Σ of the cylindrical cell volumes (outer(vol_r, dz)) over the cluster's cells",
               "cluster volumes on cylindrical grids are not the per-label sum of np.outer(*grid.cell_volume_data)")
    cons = [c for c in hv.calls(nested=True) if U(c.func).endswith("from_volume")]
    okk = len(cons) == 1 and U(cons[0].args[0]).replace(" ", "") in ("np.array([0,0,p[2]])", "np.array([0.0,0.0,p[2]])") and U(cons[0].args[1]) == "v"
    ctx.decide(okk, "FLOW", CYL1 + ":construct", (h, cons[0]) if cons else h, "droplets sit on the axis at the cluster's z (cartesian) with the cluster's volume",
               "droplets are not built as from_volume([0, 0, z_cluster], volume_cluster)")


def check_spherical(ctx):
    m = ctx.model
    fi = m.func(SPHR)
    fv = view(m, fi)
    sel = [s for s in fv.statements() if isinstance(s, ast.If) and U(s.test) == "slices[0].start == 0"]
    rad = [s for s in fv.statements() if isinstance(s, ast.Assign) and U(s.targets[0]) == "radius"]
    ok = len(sel) == 1 and len(rad) == 1 and U(rad[0].value).replace(" ", "") == "float(grid.transform(slices[0].stop,'cell','grid').flat[-1])"
    ctx.decide(ok, "FLOW", SPHR + ":radius", (fi, rad[0]) if rad else fi, "radius = radial coordinate of the outer boundary (slice stop, a cell-boundary coordinate) of the cluster touching the origin",
               "the radius on radially symmetric grids is not grid.transform(slices[0].stop, 'cell', 'grid') of the cluster that starts at the origin")
    cons = [c for c in fv.calls() if U(c.func) == "SphericalDroplet" and kwarg(c, "radius") is not None and U(kwarg(c, "radius")) == "radius"]
    okc = len(cons) == 1 and U(cons[0].args[0]) == "np.zeros(grid.dim)"
    ctx.decide(okc, "FLOW", SPHR + ":construct", (fi, cons[0]) if cons else fi, "the droplet is centred at the origin", "the located droplet is not centred at the origin of the symmetric grid")
