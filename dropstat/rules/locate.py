"""Rules over the mask locators of image_analysis (C01): coordinate-frame typestate
(FRAME), cell-volume factor (DIM), wrap-into-box flow (FLOW), periodic merge (MERGE),
half-open periodic window and padding/shift agreement on cylinders (WINDOW, PADSHIFT)."""

from __future__ import annotations

import ast
from fractions import Fraction

from ..algebra import Converter, Expr, NotAlgebraic
from ..astutil import aliases, U, view, arg_or_kw, kwarg, names_in, stmt_index, compare_parts
from ..cfg import walk_no_nested
from ..dim import DimEval, Unit, LEN, L, ONE, Obj
from ..model import dotted

IMG = "droplets.image_analysis"
CART = f"{IMG}._locate_droplets_in_mask_cartesian"
SPHR = f"{IMG}._locate_droplets_in_mask_spherical"
CYL1 = f"{IMG}._locate_droplets_in_mask_cylindrical_single"
CYL = f"{IMG}._locate_droplets_in_mask_cylindrical"

INDEX, CELL, GRID, CART_F = "index", "cell", "grid", "cartesian"


class FrameEval:
    """frame of position-valued expressions inside one function"""

    def __init__(self, model, fi):
        self.fv = view(model, fi)
        self.fi = fi
        self.problems = []
        self.transforms = []  # (call, src, dst, frame of argument)
        self.busy = set()

    def name(self, nm, node):
        key = (nm, node.idx)
        if key in self.busy:
            return None
        self.busy.add(key)
        try:
            res = None
            for d in self.fv.defs_reaching(nm, node):
                if d is self.fv.cfg.entry or d.stmt is None:
                    continue
                if isinstance(d.stmt, ast.AugAssign):
                    continue
                v = self.fv.value_of_def(d, nm)
                if v is None:
                    continue
                if isinstance(v, ast.List) and not v.elts:
                    # a list filled by append: the frame of what is appended
                    for c_ in self.fv.calls():
                        if isinstance(c_.func, ast.Attribute) and c_.func.attr == "append" and U(c_.func.value) == nm and len(c_.args) == 1:
                            nd_ = self.fv.node_of(c_)
                            fa = self.expr(c_.args[0], nd_) if nd_ is not None else None
                            if fa is not None:
                                res = fa if res in (None, fa) else "mixed"
                    continue
                f = self.expr(v, d)
                if f is None:
                    continue
                if res is None:
                    res = f
                elif res != f:
                    return "mixed"
            return res
        finally:
            self.busy.discard(key)

    def expr(self, n, node):
        fv = self.fv
        if isinstance(n, ast.Name):
            return self.name(n.id, node)
        if isinstance(n, ast.Call):
            name = fv.callee(n) or ""
            short = name.split(".")[-1]
            if name == "scipy.ndimage.center_of_mass":
                return INDEX
            if short in ("asarray", "asanyarray", "array", "atleast_1d", "atleast_2d", "copy", "float") and n.args:
                return self.expr(n.args[0], node)
            if isinstance(n.func, ast.Attribute) and n.func.attr == "transform" and len(n.args) >= 1:
                src = arg_or_kw(n, 1, "source")
                dst = arg_or_kw(n, 2, "target")
                s = src.value if isinstance(src, ast.Constant) else None
                t = dst.value if isinstance(dst, ast.Constant) else None
                af = self.expr(n.args[0], node)
                self.transforms.append((n, s, t, af))
                if af is not None and s is not None and af != s and af != "mixed":
                    self.problems.append((n, f"`{U(n)[:80]}` converts from '{s}' coordinates but its argument is in {af} coordinates"
                                          + (" (array indices from ndimage.center_of_mass, where the centre of cell i is at i; cell coordinates place it at i + 0.5): every position is off by half a cell" if af == INDEX and s == CELL else "")))
                return t
            if isinstance(n.func, ast.Attribute) and n.func.attr == "normalize_point" and n.args:
                af = self.expr(n.args[0], node)
                if af is not None and af not in (GRID, "mixed"):
                    self.problems.append((n, f"normalize_point expects grid coordinates but receives {af} coordinates: `{U(n)[:70]}`"))
                return GRID
            return None
        if isinstance(n, ast.BinOp) and isinstance(n.op, (ast.Add, ast.Sub)):
            l, r = self.expr(n.left, node), self.expr(n.right, node)
            for a, b in ((l, n.right), (r, n.left)):
                if a == INDEX and isinstance(b, ast.Constant) and b.value == 0.5 and isinstance(n.op, ast.Add):
                    return CELL
            return l or r
        if isinstance(n, ast.BinOp) and isinstance(n.op, (ast.FloorDiv, ast.Mod)):
            l = self.expr(n.left, node)
            if l in (CELL, INDEX):
                # a coordinate rounded down to an integer: the mid-point of a cluster with an odd extent sits between two
                # integers, so the position is biased by half a cell
                self.rounded = getattr(self, "rounded", []) + [n]
                return l
            return None
        if isinstance(n, ast.BinOp) and isinstance(n.op, (ast.Div, ast.Mult)):
            l, r = self.expr(n.left, node), self.expr(n.right, node)
            if (l in (CELL, INDEX)) != (r in (CELL, INDEX)) and isinstance(n.right if l else n.left, ast.Constant):
                return l or r  # a coordinate scaled by a pure number (mean of two boundaries)
            return None
        if isinstance(n, ast.Subscript) and U(n.value) in ("np.c_", "np.r_", "numpy.c_", "numpy.r_"):
            elts = n.slice.elts if isinstance(n.slice, ast.Tuple) else [n.slice]
            fr = {self.expr(e, node) for e in elts} - {None}
            return fr.pop() if len(fr) == 1 else None
        if isinstance(n, (ast.ListComp, ast.GeneratorExp)):
            return self.expr(n.elt, node)
        if isinstance(n, ast.Subscript):
            base = self.expr(n.value, node)
            if base is None and isinstance(n.value, ast.Subscript):
                pass
            return base
        if isinstance(n, ast.Attribute) and n.attr in ("start", "stop"):
            return CELL
        if isinstance(n, (ast.Tuple, ast.List)):
            fr = {self.expr(e, node) for e in n.elts} - {None}
            return fr.pop() if len(fr) == 1 else None
        return None


def check_frames(ctx):
    m = ctx.model
    for q in (CART, CYL1, SPHR):
        fi = m.func(q)
        fe = FrameEval(m, fi)
        fv = fe.fv
        for c in fv.calls():
            if isinstance(c.func, ast.Attribute) and c.func.attr in ("transform", "normalize_point"):
                # evaluate outermost calls only once
                fe.expr(c, fv.node_of(c))
        seen = set()
        for c, s, t, af in fe.transforms:
            if id(c) in seen:
                continue
            seen.add(id(c))
            site = f"{q}:transform({s}→{t})"
            prob = [p for p in fe.problems if p[0] is c]
            if prob:
                ctx.violate("FRAME", site, (fi, c), prob[0][1])
            elif af is None:
                ctx.undecided("FRAME", site, (fi, c), f"frame of `{U(c.args[0])[:50]}` not inferable")
            else:
                ctx.hold("FRAME", site, (fi, c), f"argument is in {af} coordinates as the conversion from '{s}' requires")
        for c, msg in fe.problems:
            if not any(c is t[0] for t in fe.transforms):
                ctx.violate("FRAME", f"{q}:normalize_point", (fi, c), msg)
        for n_ in getattr(fe, "rounded", []):
            ctx.violate("FRAME", f"{q}:rounded", (fi, n_), f"`{U(n_)[:60]}` rounds a cell coordinate down to an integer before it is converted: for a cluster that spans an odd number of cells the mid-point "
                        "lies half a cell above the rounded value, so the located centre is biased by half a cell (up to a full cell from the true centre)")


def check_cartesian_flow(ctx):
    """positions: transform(cell→grid) → normalize_point → from_volume(position, volume); volume = count × cell volume"""
    m = ctx.model
    fi = m.func(CART)
    fv = view(m, fi)
    si = stmt_index(fv)
    site = CART
    fvc = [c for c in fv.calls(nested=True) if U(c.func).endswith("from_volume")]
    if len(fvc) != 1:
        ctx.undecided("FLOW", site + ":construct", fi, "no single from_volume construction")
        return
    c = fvc[0]
    gen = None
    for n in ast.walk(fi.node):
        if isinstance(n, (ast.GeneratorExp, ast.ListComp)) and any(x is c for x in ast.walk(n)):
            gen = n
    ok = False
    posname = volname = None
    g = None
    if gen is not None and len(gen.generators) == 1:
        g = gen.generators[0]
    else:
        # explicit loop: for position, volume in zip(P[k], V[k]): emulsion.append(from_volume(position, volume))
        lpq = si.enclosing(c, (ast.For,))
        if lpq is not None:
            g = lpq[0]
            gen = lpq[0]
    if g is not None:
        it = fv.expand(g.iter, g if isinstance(g, ast.For) else c, stop=("positions", "volumes"), allow_mutated=True, depth=2) if not isinstance(g.iter, ast.Call) else g.iter
        if isinstance(it, ast.Call) and dotted(it.func) == "zip" and len(it.args) == 2 and isinstance(g.target, ast.Tuple):
            tp, tv = (U(e) for e in g.target.elts)
            ok = [U(a) for a in c.args] == [tp, tv]
            posname = U(it.args[0].value) if isinstance(it.args[0], ast.Subscript) else U(it.args[0])
            volname = U(it.args[1].value) if isinstance(it.args[1], ast.Subscript) else U(it.args[1])
            ok = ok and isinstance(it.args[0], ast.Subscript) and isinstance(it.args[1], ast.Subscript) and U(it.args[0].slice) == U(it.args[1].slice)
    ctx.decide(ok, "FLOW", site + ":construct", (fi, c), "each droplet = from_volume(position_k, volume_k) with the same cluster index k for both",
               "droplets are not built as SphericalDroplet.from_volume(position, volume) from the same cluster's position and volume")
    if not posname:
        return
    # last definition of positions before the construction passes normalize_point(transform(cell→grid))
    st = si.statement(gen) or si.statement(c)
    defs = [s for s in fv.statements() if isinstance(s, ast.Assign) and U(s.targets[0]) == posname]
    last = defs[-1] if defs else None
    import re as _re

    # the wrapped array may keep its name or get a new one (`grid_positions = normalize_point(transform(positions, …))`)
    okn = last is not None and _re.fullmatch(r"grid\.normalize_point\(grid\.transform\((\w+), 'cell', 'grid'\)\)", U(last.value)) is not None and fv.dominates(last, st)
    loops = [s for s in fv.statements() if isinstance(s, ast.For) and "periodic" in U(s.iter)]
    loops = [s for s in loops if not any(s is not o and any(x is s for x in ast.walk(o)) for o in loops)]  # outermost only
    okn = okn and all(fv.dominates(lp, last) for lp in loops)
    ctx.decide(bool(okn), "FLOW", site + ":wrap", (fi, last) if last is not None else fi,
               "after all merging, positions are converted cell→grid and wrapped into the box by normalize_point before the droplets are built",
               "located positions are not passed through grid.normalize_point(grid.transform(positions, 'cell', 'grid')) after the periodic merging and before construction: positions along periodic axes can lie outside the grid bounds")


def check_cartesian_volume(ctx):
    m = ctx.model
    fi = m.func(CART)
    fv = view(m, fi)
    ev = DimEval(m, fi, attr_units={"discretization": LEN}, expr_units={"mask.data": ONE})
    site = CART + ":volume"
    ev.call_units.update({"scipy.ndimage.sum": ONE, "scipy.ndimage.sum_labels": ONE})
    want = L({"d": 1})
    cons = [c for c in fv.calls(nested=True) if U(c.func).endswith("from_volume")]
    at = stmt_index(fv).statement(cons[0]) if cons else None
    if at is None:
        for n in fv.cfg.nodes:
            if n.stmt is not None and cons and any(x is cons[0] for x in ast.walk(n.stmt)):
                at = n.stmt
    # the cell volume is the product of *every* axis' own spacing: an expression that picks the spacing of one fixed axis
    # (grid.discretization[0] ** n) is right only for isotropic grids
    one_axis = None
    for s_ in fv.statements():
        if isinstance(s_, (ast.Assign, ast.AugAssign)) and s_.value is not None:
            tg_ = s_.targets[0] if isinstance(s_, ast.Assign) else s_.target
            if isinstance(tg_, ast.Name) and ("volume" in tg_.id):
                ex_ = fv.expand(s_.value, s_, allow_mutated=True, stop=("grid", "mask", "labels"))
                for n_ in ast.walk(ex_):
                    if isinstance(n_, ast.Subscript) and U(n_.value) in ("grid.discretization", "mask.grid.discretization") and isinstance(n_.slice, ast.Constant) \
                            and not any(isinstance(c_, ast.Call) and U(c_.func).split(".")[-1] in ("prod", "product", "reduce") and any(z is n_ for z in ast.walk(c_)) for c_ in ast.walk(ex_)):
                        pw_ = [b_ for b_ in ast.walk(ex_) if isinstance(b_, ast.BinOp) and isinstance(b_.op, ast.Pow) and any(z is n_ for z in ast.walk(b_.left))]
                        if pw_ and one_axis is None:
                            one_axis = (s_, U(pw_[0]))
    if one_axis is not None:
        ctx.violate("DIM", site, (fi, one_axis[0]), f"`{one_axis[1][:70]}` takes the spacing of one axis to the power of the number of axes as the cell volume: on grids with "
                    "different spacings per axis the located volumes (and thereby radii) are wrong; the cell volume is the product of every axis' own spacing")
        return
    known, bad = 0, None
    if at is not None:
        for d, u in ev.name_units_per_def("volumes", at):
            if isinstance(u, Unit):
                known += 1
                if not u.same(want):
                    bad = (d, u)
    if bad:
        d, u = bad
        ctx.violate("DIM", site, (fi, d.stmt), f"`{U(d.stmt)[:80]}` gives the cluster volumes the unit {u.show()}, expected {want.show()} (cell count × product of all per-axis spacings): wrong volumes on grids whose spacing is not 1")
    elif known:
        ctx.hold("DIM", site, (fi, at), f"cluster volume = cell count × Π_i spacing_i (unit {want.show()})")
    else:
        ctx.undecided("DIM", site, fi, "unit of the cluster volumes not inferable")
    for kind, node, msg, key in ev.mismatches:
        ctx.violate(kind, f"{site}:{key}", (fi, node), msg)
    def _measure_args(c):
        """(input, labels, index) of an ndimage measurement, positional or by keyword, temporaries resolved"""
        out = []
        for pos, nm in ((0, "input"), (1, "labels"), (2, "index")):
            a = arg_or_kw(c, pos, nm)
            out.append(U(fv.expand(a, c, stop=("mask", "labels", "num_labels"))) if a is not None else None)
        return out

    com = [c for c in fv.calls() if (fv.callee(c) or "") == "scipy.ndimage.center_of_mass"]
    sm = [c for c in fv.calls() if (fv.callee(c) or "") in ("scipy.ndimage.sum", "scipy.ndimage.sum_labels")]
    want_args = ["mask.data", "labels", "range(1, num_labels + 1)"]
    okc = len(com) == 1 and _measure_args(com[0]) == want_args
    oks = len(sm) == 1 and _measure_args(sm[0]) == want_args
    oki = True
    ctx.decide(okc and oks and oki, "DIM", site + ":labels", (fi, com[0]) if com else fi, "positions and volumes are measured for the same labels 1…num_labels",
               "centre of mass and volume are not measured over the same label list range(1, num_labels + 1)")


def check_merge(ctx):
    """periodic merge: shift upper cluster by one period (in cells), volume-weighted mean, volumes add, relabel"""
    m = ctx.model
    fi = m.func(CART)
    fv = view(m, fi)
    si = stmt_index(fv)
    site = CART + ":merge"
    def _first_test(loop):
        b = [x for x in loop.body if not (isinstance(x, ast.Expr) and isinstance(x.value, ast.Constant))]
        return b[0] if b and isinstance(b[0], ast.If) else None

    def _it(loop):
        """the iterable of a loop with hoisted temporaries resolved (`periodic_axes = np.flatnonzero(grid.periodic)`)"""
        return U(fv.expand(loop.iter, loop, stop=("grid", "mask")))

    outer = [s for s in fv.statements() if isinstance(s, ast.For) and ("periodic" in _it(s) or (_first_test(s) is not None and "periodic" in U(_first_test(s).test)))]
    outer = [s for s in outer if not any(s is not o and any(x is s for x in ast.walk(o)) for o in outer)]
    if len(outer) != 1:
        ctx.undecided("MERGE", site, fi, "loop over the periodic axes not found")
        return
    lp = outer[0]
    axv = U(lp.target)
    # which axes does the loop process?  (truth table over one axis being periodic or not, whatever the selection is spelled like)
    it_txt = _it(lp)
    verdict, why = None, ""
    if it_txt in ("np.flatnonzero(grid.periodic)", "np.nonzero(grid.periodic)[0]", "np.where(grid.periodic)[0]", "np.flatnonzero(grid.periodic).tolist()"):
        verdict = True
    else:
        flag = None  # expression that is true for a periodic axis
        if isinstance(lp.target, ast.Tuple) and len(lp.target.elts) == 2 and it_txt == "enumerate(grid.periodic)":
            axv = U(lp.target.elts[0])
            flag = U(lp.target.elts[1])
        elif isinstance(lp.target, ast.Name) and it_txt in ("range(grid.num_axes)", "range(grid.dim)", "range(len(grid.periodic))", "range(len(grid.shape))"):
            flag = f"grid.periodic[{axv}]"
        ft = _first_test(lp)
        if flag is not None and ft is not None:
            from ..astutil import canon_tests

            tests = canon_tests(ft.test, True)
            others = [x for x in lp.body if x is not ft and not (isinstance(x, ast.Expr) and isinstance(x.value, ast.Constant))]
            if tests == [(flag, True)] and not ft.orelse and not others:
                verdict = True  # if periodic: BODY
            elif tests == [(flag, False)] and len(ft.body) == 1 and isinstance(ft.body[0], ast.Continue) and not ft.orelse:
                verdict = True  # if not periodic: continue
            elif tests == [(flag, False)] and len(ft.body) == 1 and isinstance(ft.body[0], ast.Break):
                verdict, why = False, "the loop stops at the first non-periodic axis (`break`): periodic axes that follow a non-periodic one are never merged"
            elif tests == [(flag, True)] and any(isinstance(x, (ast.Break, ast.Return)) for x in ast.walk(ast.Module(body=ft.orelse, type_ignores=[]))):
                verdict, why = False, "the loop stops at the first non-periodic axis: periodic axes that follow a non-periodic one are never merged"
    if verdict is None:
        ctx.undecided("MERGE", site + ":axes", (fi, lp), f"selection of the periodic axes not recognised: `{it_txt}`")
    else:
        ctx.decide(verdict, "MERGE", site + ":axes", (fi, lp), "every periodic axis is processed", why or f"merging iterates `{it_txt}` instead of all periodic axes")
    side = {}  # list name -> 'low' | 'high'

    def res(expr, at):
        return fv.expand(expr, at, stop=("positions", "volumes", "labels", "grid", axv) + tuple(side), allow_mutated=True, depth=10)

    conv = Converter()
    # ---- which index list is the low / the high boundary?
    for c in ast.walk(lp):
        if isinstance(c, ast.Call) and isinstance(c.func, ast.Attribute) and c.func.attr == "append" and len(c.args) == 1 and isinstance(c.args[0], ast.List) and len(c.args[0].elts) == 1:
            v = U(c.args[0].elts[0])
            if v in ("0", "-1"):
                side[U(c.func.value)] = "low" if v == "0" else "high"
        # comprehension form: L = [[0] if a == ax else <range> for a in axes]
        if isinstance(c, (ast.Assign, ast.AnnAssign)) and isinstance(c.value, ast.ListComp) and isinstance(c.value.elt, ast.IfExp):
            tgt = c.targets[0] if isinstance(c, ast.Assign) else c.target
            ie = c.value.elt
            cpt = compare_parts(ie.test)
            if isinstance(tgt, ast.Name) and cpt is not None and isinstance(cpt[1], (ast.Eq, ast.NotEq)) and axv in (U(cpt[0]), U(cpt[2])):
                on_ax = ie.body if isinstance(cpt[1], ast.Eq) else ie.orelse
                if isinstance(on_ax, ast.List) and len(on_ax.elts) == 1 and U(on_ax.elts[0]) in ("0", "-1"):
                    side[tgt.id] = "low" if U(on_ax.elts[0]) == "0" else "high"
        # copy-and-replace form: L = list(ALL); L[ax] = [0]  (ALL holds the full index range of every axis)
        if isinstance(c, ast.Assign) and len(c.targets) == 1 and isinstance(c.targets[0], ast.Subscript) and isinstance(c.targets[0].value, ast.Name) and U(c.targets[0].slice) == axv \
                and isinstance(c.value, ast.List) and len(c.value.elts) == 1 and U(c.value.elts[0]) in ("0", "-1"):
            side[c.targets[0].value.id] = "low" if U(c.value.elts[0]) == "0" else "high"
    zl = []
    for s in ast.walk(lp):
        if isinstance(s, ast.For):
            it_ = s.iter if isinstance(s.iter, ast.Call) else fv.expand(s.iter, s, stop=tuple(side), allow_mutated=True, depth=3)
            if isinstance(it_, ast.Call) and dotted(it_.func) == "zip" and len(it_.args) == 2:
                zl.append((s, it_))
    idx_side = {}
    if zl and isinstance(zl[0][0].target, ast.Tuple) and len(zl[0][0].target.elts) == 2:
        for tv, a in zip(zl[0][0].target.elts, zl[0][1].args):
            lists = [n.id for n in ast.walk(a) if isinstance(n, ast.Name) and n.id in side]
            if len(lists) == 1:
                idx_side[U(tv)] = side[lists[0]]
    # ---- the mean
    means = []
    for s in ast.walk(lp):
        if isinstance(s, ast.Assign) and isinstance(s.targets[0], ast.Name):
            r = res(s.value, s)
            if isinstance(r, ast.BinOp) and isinstance(r.op, ast.Div) and "positions[" in U(r) and "volumes[" in U(r):
                means.append((s, r))
    if len(means) != 1:
        ctx.violate("MERGE", site + ":mean", (fi, lp), "no volume-weighted mean of the two cluster positions inside the periodic merge loop")
        return
    ms, mr = means[0]
    try:
        e = conv.conv(mr)
    except NotAlgebraic as exc:
        ctx.undecided("MERGE", site + ":mean", (fi, ms), str(exc))
        return
    pos_atoms = sorted(a for a in e.atoms() if a.startswith("positions["))
    vol_atoms = sorted(a for a in e.atoms() if a.startswith("volumes["))
    okm = False
    pair = None
    if len(pos_atoms) == 2 and len(vol_atoms) == 2:
        for (p1, p2) in ((pos_atoms[0], pos_atoms[1]), (pos_atoms[1], pos_atoms[0])):
            v1, v2 = "volumes[" + p1[len("positions["):], "volumes[" + p2[len("positions["):]
            want = (Expr.atom(p1) * Expr.atom(v1) + Expr.atom(p2) * Expr.atom(v2)) * (Expr.atom(v1) + Expr.atom(v2)).inverse()
            if e == want:
                okm = True
                pair = (p1, p2, v1, v2)
    ctx.decide(okm, "MERGE", site + ":mean", (fi, ms), "merged position = volume-weighted mean of the two clusters' positions, each position weighted with the same cluster's volume",
               f"merged position `{U(ms.value)[:70]}` (= {e.show()[:120]}) is not (p₁·V₁ + p₂·V₂)/(V₁ + V₂) with each cluster's own volume")
    if not okm:
        return
    p1, p2, v1, v2 = pair
    ctx.hold("MERGE", site + ":operands", (fi, ms), f"operands {p1}, {p2} with {v1}, {v2}")
    # ---- in-loop modifications of positions before the mean: exactly the one-period shift of the upper cluster
    mods = []
    mean_name = U(ms.targets[0])
    for s in ast.walk(lp):
        if isinstance(s, ast.AugAssign) and isinstance(s.target, ast.Subscript):
            base = res(s.target.value, s)
            if U(base).startswith("positions[") or U(s.target.value) == mean_name:
                mods.append((s, U(base)))
        elif isinstance(s, ast.AugAssign) and U(s.target) == mean_name:
            mods.append((s, mean_name))
        elif isinstance(s, ast.Assign) and isinstance(s.targets[0], ast.Subscript) and isinstance(s.targets[0].value, ast.Name) and s.targets[0].value.id not in ("positions", "volumes", "labels"):
            base = res(s.targets[0].value, s)
            if U(base).startswith("positions[") or U(s.targets[0].value) == mean_name:
                mods.append((s, U(base)))
        elif isinstance(s, ast.Assign) and U(s.targets[0]) == mean_name and s is not ms:
            mods.append((s, mean_name))
    shifts = [(s, b) for s, b in mods if isinstance(s, ast.AugAssign) and isinstance(s.op, ast.Sub)
              and U(fv.expand(s.value, s, stop=("grid", axv), allow_mutated=True)) == f"grid.shape[{axv}]" and U(s.target.slice) == axv]
    # ---- alignment of the *other* periodic axes: a cluster that was merged across another periodic boundary before may be
    # given relative to another periodic image; the operand is moved to the image closest to the other operand
    # (x[a] -= round((x[a] - y[a]) / shape[a]) * shape[a] for every periodic a != ax) before the mean is taken
    def _is_align(s):
        if not (isinstance(s, ast.AugAssign) and isinstance(s.op, ast.Sub) and isinstance(s.target, ast.Subscript) and isinstance(s.target.slice, ast.Name)):
            return None
        av = s.target.slice.id
        if av == axv:
            return None
        inner = si.enclosing(s, (ast.For,))
        if inner is None or inner[0] is lp or not isinstance(inner[0].target, ast.Name) or inner[0].target.id != av:
            return None
        if _it(inner[0]) not in ("np.flatnonzero(grid.periodic)", "np.nonzero(grid.periodic)[0]", "np.where(grid.periodic)[0]"):
            return None
        g = canon_guards(si, s, within=inner[0])
        if g != canon_want((f"{av} == {axv}", False)) and g != canon_want((f"{axv} == {av}", False)):
            return None
        tb = U(res(s.target.value, s))
        val = fv.expand(s.value, s, stop=("positions", "volumes", "labels", "grid", axv, av) + tuple(side), allow_mutated=True, depth=10)
        cv = Converter()
        try:
            got = cv.conv(val)
        except NotAlgebraic:
            return None
        for other in (p1, p2):
            if other == tb:
                continue
            for fn in ("np.round", "np.rint", "round"):
                want_src = f"{fn}(({tb}[{av}] - {other}[{av}]) / grid.shape[{av}]) * grid.shape[{av}]"
                try:
                    if got == cv.conv(ast.parse(want_src, mode="eval").body):
                        return (tb, other, inner[0])
                except (NotAlgebraic, SyntaxError):
                    continue
        return None

    from ..astutil import canon_guards, canon_want

    aligns = []
    for s_, b_ in mods:
        r_ = _is_align(s_)
        if r_ is not None:
            aligns.append((s_, r_))
    align_stmts = {id(s_) for s_, _ in aligns}
    rest = [(s_, b_) for s_, b_ in mods if id(s_) not in align_stmts]
    oks = len(shifts) == 1 and len(rest) == 1
    ok_img = bool(aligns) and all(fv.dominates(r_[2], ms) for _s, r_ in aligns)
    ctx.decide(ok_img, "MERGE", site + ":image", (fi, aligns[0][0]) if aligns else (fi, ms),
               "before averaging, the operand is moved to the periodic image closest to the other operand along every other periodic axis",
               "the two cluster positions are averaged without aligning their periodic images along the *other* periodic axes: a cluster that was already merged across another periodic boundary "
               "is given relative to a shifted image there, so a droplet cut by two periodic boundaries (e.g. radius 2 at (14.9, 1.1) on a periodic 16×16 grid) is located a period-fraction away from its centre")
    mods = rest
    high_side = False
    if oks:
        sh, base = shifts[0]
        # base = positions[labels[<idx>] - 1]: idx must be the high-boundary index
        for iv, sd in idx_side.items():
            if f"labels[{iv}]" in base:
                high_side = sd == "high"
        oks = fv.dominates(sh, ms)
    # the period is a cell count: positions must still be in cell coordinates inside the loop
    fe = FrameEval(m, fi)
    try:
        pframe = fe.name("positions", fv.node_of(lp))
    except Exception:
        pframe = None
    if pframe is not None and pframe != "mixed":
        ctx.decide(pframe == CELL, "FRAME", site + ":period", (fi, shifts[0][0]) if shifts else (fi, lp),
                   "positions are in cell coordinates while clusters are merged, so one period is grid.shape[ax]",
                   f"positions are in {pframe} coordinates inside the periodic merge loop, but the upper cluster is shifted by the cell count grid.shape[ax]: "
                   "on grids whose spacing is not 1 the shift is not one period and the merged centre is wrong")
    ctx.decide(bool(oks and high_side), "MERGE", site + ":shift", (fi, shifts[0][0]) if shifts else (fi, lp),
               "the cluster on the upper boundary is shifted down by exactly one period (grid.shape[ax] cells, positions are in cell units) before averaging; nothing else modifies positions inside the loop",
               "inside the periodic merge loop positions are modified other than by the single shift `pos_upper[ax] -= grid.shape[ax]` before the mean "
               f"({[U(s)[:50] for s, _ in mods]}): e.g. wrapping the merged position inside the loop breaks clusters that straddle two periodic boundaries (a later merge averages images that are a period apart)")
    # ---- stores: both clusters get the merged position and the summed volume; relabel
    pstores, vstores = {}, {}
    for s in ast.walk(lp):
        if isinstance(s, ast.Assign) and isinstance(s.targets[0], ast.Subscript):
            t = U(res(s.targets[0], s)) if False else U(ast.Subscript(value=s.targets[0].value, slice=res(s.targets[0].slice, s), ctx=ast.Load()))
            if t.startswith("positions["):
                pstores[t] = s
            elif t.startswith("volumes["):
                vstores[t] = s
    okp = set(pstores) == {p1, p2} and all(U(res(s.value, s)) == U(mr) or U(s.value) == U(ms.targets[0]) for s in pstores.values())
    okv = set(vstores) == {v1, v2}
    if okv:
        try:
            okv = all(conv.conv(res(s.value, s)) == Expr.atom(v1) + Expr.atom(v2) for s in vstores.values())
        except NotAlgebraic:
            okv = False
    rl = [s for s in ast.walk(lp) if isinstance(s, ast.Assign) and U(s.targets[0]).startswith("labels[labels ==")]
    ctx.decide(bool(okv and okp and len(rl) == 1), "MERGE", site + ":update", (fi, list(vstores.values())[0]) if vstores else (fi, lp),
               "both clusters get the summed volume and the merged position; one label is replaced by the other",
               "after a merge the two clusters do not both carry V₁ + V₂ and the merged position, with one label replaced by the other")
    # ---- boundary enumeration: along every other axis a the full index range of *that* axis
    import re as _re

    ranges = []
    # (the per-axis index ranges may be built once before the loop over the periodic axes and copied inside it)
    scope = fi.node
    for n in ast.walk(scope):
        if isinstance(n, ast.Call) and (dotted(n.func) or "").split(".")[-1] in ("arange", "range") and len(n.args) == 1:
            mm = _re.fullmatch(r"grid\.shape\[(\w+)\]", U(n.args[0]))
            if mm:
                ranges.append((n, mm.group(1)))
    axis_vars = set()
    axis_iter = {}  # temporaries naming the axis range
    for x in fv.statements():
        if isinstance(x, ast.Assign) and isinstance(x.targets[0], ast.Name) and U(x.value).startswith("range("):
            axis_iter[x.targets[0].id] = x.value
    for n in ast.walk(scope):
        tgt = it = None
        if isinstance(n, ast.For) and n is not lp:
            tgt, it = n.target, n.iter
        elif isinstance(n, ast.comprehension):
            tgt, it = n.target, n.iter
        if tgt is not None and isinstance(tgt, ast.Name) and U(axis_iter.get(it.id, it) if isinstance(it, ast.Name) else it) in ("range(grid.num_axes)", "range(len(grid.shape))", "range(grid.dim)", "range(mask.data.ndim)", "range(labels.ndim)"):
            axis_vars.add(tgt.id)
    if not ranges or not axis_vars:
        ctx.undecided("MERGE", site + ":boundary", (fi, lp), "enumeration of the boundary points not recognised")
    else:
        badr = [(n, k) for n, k in ranges if k not in axis_vars]
        ctx.decide(not badr and len(ranges) >= 1 and len(side) >= 2, "MERGE", site + ":boundary", (fi, (badr or ranges)[0][0]),
                   "the two boundary faces are enumerated over the full index range of every transverse axis (its own length)",
                   f"`{U(badr[0][0]) if badr else ''}` enumerates a transverse axis with the length of axis `{badr[0][1] if badr else ''}`: on grids whose axes have different "
                   "lengths parts of the periodic boundary are never examined (clusters touching there are not merged and are reported twice) or the index runs out of bounds")
    # ---- merge condition: both labels non-zero and different (decided as a truth table over small integer labels,
    # so that any equivalent spelling — guard clause, De Morgan, flipped comparisons — is the same condition)
    from ..astutil import mini_eval

    zloop = zl[0][0] if zl else lp
    labs = sorted({f"labels[{iv}]" for iv in idx_side})
    okc, why = None, ""
    if len(labs) == 2:
        guards = [(t, p) for t, p in si.effective_guards(ms) if any(x is t for x in ast.walk(zloop))]
        exprs = []
        for t, p in guards:
            txt = U(res(t, ms))
            for k_, lab in enumerate(labs):
                txt = txt.replace(lab, "AB"[k_])
            exprs.append((txt, p))
        try:
            table = {}
            for A in (0, 1, 2):
                for B in (0, 1, 2):
                    table[(A, B)] = all(bool(mini_eval(ast.parse(txt, mode="eval").body, {"A": A, "B": B})) == p for txt, p in exprs)
            okc = all(v == (A > 0 and B > 0 and A != B) for (A, B), v in table.items()) and bool(exprs)
            why = f"conditions {exprs}"
        except Exception as exc:  # unknown names in the guard: not decidable here
            okc, why = None, f"guard not evaluable ({type(exc).__name__}): {exprs}"
    if okc is None:
        ctx.undecided("MERGE", site + ":condition", (fi, ms), why or "labels on the two faces not identified")
    else:
        ctx.decide(okc, "MERGE", site + ":condition", (fi, ms), "two different non-background labels facing each other across the boundary are merged (truth table over labels 0, 1, 2)",
                   f"merge condition is not (both labels non-zero and different): {why}")


def check_cylindrical(ctx):
    m = ctx.model
    fi = m.func(CYL)
    fv = view(m, fi)
    si = stmt_index(fv)
    site = CYL
    # WINDOW: the condition under which a shifted candidate is kept, in canonical form (chained or split comparisons,
    # temporaries and guard clauses are the same condition)
    from ..astutil import canon_guards, canon_tests

    keeps = [c for c in fv.calls() if isinstance(c.func, ast.Attribute) and c.func.attr == "append" and si.enclosing(c, (ast.For,)) is not None]
    shifted = [s for s in fv.statements() if isinstance(s, ast.AugAssign) and isinstance(s.op, ast.Sub) and U(s.target).endswith(".position[2]")]
    keeps = [c for c in keeps if shifted and si.enclosing(c, (ast.For,))[0] is (si.enclosing(shifted[0], (ast.For,)) or (None,))[0]]
    if len(keeps) != 1:
        ctx.undecided("WINDOW", site, fi, "the loop keeping the central periodic image was not found")
    else:
        kp = keeps[0]
        lp_ = si.enclosing(kp, (ast.For,))[0]
        zexpr = U(shifted[0].target)
        stop_names = ("grid", "mask", U(lp_.target))
        conds = set()
        for t, p in si.effective_guards(kp):
            if not any(x is t for x in ast.walk(lp_)):
                continue
            conds.update(canon_tests(fv.expand(t, kp, allow_mutated=True, stop=stop_names), p))
        lo_ok = [("grid.axes_bounds[1][0]", "mask.grid.axes_bounds[1][0]"), ("grid.axes_bounds[1][1]", "mask.grid.axes_bounds[1][1]")]
        want = [{(f"{lo} <= {zexpr}", True), (f"{zexpr} < {hi}", True)} for lo in lo_ok[0] for hi in lo_ok[1]]
        closed = [{(f"{lo} <= {zexpr}", True), (f"{zexpr} <= {hi}", True)} for lo in lo_ok[0] for hi in lo_ok[1]]
        if conds in want:
            ctx.hold("WINDOW", site, (fi, kp), "exactly one periodic image is kept: z_min ≤ z < z_max with the bounds of the periodic axis")
        elif conds in closed:
            ctx.violate("WINDOW", site, (fi, kp), f"the window {sorted(conds)} that selects one periodic image is closed on both sides: a droplet centred exactly on the periodic boundary is kept twice (at z_min and at z_max)")
        else:
            ctx.violate("WINDOW", site, (fi, kp), f"window test {sorted(conds)} is not the half-open interval [z_min, z_max) of grid.axes_bounds[1]: a droplet centred exactly on the periodic boundary is dropped or kept at the wrong end")
    # PADSHIFT: pad (cells) / dim_z == shift / grid.length
    pads = [c for c in fv.calls() if (fv.callee(c) or "").endswith("numpy.pad")]
    shifts = [s for s in fv.statements() if isinstance(s, ast.AugAssign) and isinstance(s.op, ast.Sub) and U(s.target).endswith(".position[2]")]
    if len(pads) == 1 and len(shifts) == 1:
        c = pads[0]
        pw = c.args[1] if len(c.args) > 1 else kwarg(c, "pad_width")
        mode = kwarg(c, "mode")
        okp = isinstance(pw, ast.List) and len(pw.elts) == 2 and U(pw.elts[0]) in ("[0, 0]", "(0, 0)") and isinstance(pw.elts[1], (ast.List, ast.Tuple)) and len(pw.elts[1].elts) == 2 \
            and U(pw.elts[1].elts[0]) == U(pw.elts[1].elts[1]) and isinstance(mode, ast.Constant) and mode.value == "wrap" and U(c.args[0]) == "mask.data"
        ratio_ok, detail = False, ""
        if okp:
            p_ex = fv.expand(pw.elts[1].elts[0], c, stop=("grid",))
            s_ex = fv.expand(shifts[0].value, shifts[0], stop=("grid",))
            has_floor = any(isinstance(x, ast.BinOp) and isinstance(x.op, ast.FloorDiv) for x in ast.walk(p_ex))
            try:
                env = {"dim_z": Expr.atom("NZ"), "grid.shape[1]": Expr.atom("NZ")}
                cvp = Converter(env=env)
                # dim_r, dim_z = grid.shape
                pe = cvp.conv(ast.parse(U(p_ex).replace("grid.shape[1]", "dim_z"), mode="eval").body) if not has_floor else None
                se = Converter().conv(s_ex)
                if pe is not None:
                    cp_ = pe * Expr.atom("NZ").inverse()
                    cs_ = se * Expr.atom("grid.length").inverse()
                    ratio_ok = cp_ == cs_ and not cp_.atoms()
                    detail = f"padding {pe.show()} cells, shift {se.show()}"
                else:
                    detail = f"padding `{U(p_ex)}` is a rounded number of cells, shift `{U(s_ex)}`"
            except (NotAlgebraic, SyntaxError) as exc:
                detail = str(exc)
        ctx.decide(bool(okp and ratio_ok), "PADSHIFT", site, (fi, shifts[0]),
                   "the image is padded periodically by whole periods on both sides and the located z positions are shifted back by the same length",
                   f"padding and back-shift disagree ({detail}): the padded cells times the spacing must equal the length subtracted from the positions for every cell count (odd counts included), otherwise all z positions are biased")
    else:
        ctx.undecided("PADSHIFT", site, fi, "padding / shift statements not found")
    # periodic branch condition and the spanning signal handling
    padg = canon_guards(si, pads[0], expand=lambda t, at: fv.expand(t, pads[0], allow_mutated=True, stop=("grid", "mask"))) if pads else None
    okc = padg in ({("grid.periodic[1]", True)}, {("mask.grid.periodic[1]", True)})
    if pads:
        ctx.decide(okc, "WINDOW", site + ":branch", (fi, pads[0]), "padding is used exactly for a periodic z axis", "the periodic treatment is not selected by grid.periodic[1]")
    else:
        ctx.undecided("WINDOW", site + ":branch", fi, "periodic padding (np.pad … mode='wrap') not found")
    # on-axis selection and volumes in the single-grid helper
    h = m.func(CYL1)
    hv = view(m, h)
    hsi = stmt_index(hv)
    # the label list is filled exactly for clusters whose radial slice starts at 0, with the label (1-based) of that cluster
    app = [c for c in hv.calls() if isinstance(c.func, ast.Attribute) and c.func.attr == "append" and U(c.func.value) == "indices"]
    ok_sel = False
    if len(app) == 1:
        from ..algebra import Converter as _Cv, Expr as _Ex, NotAlgebraic as _NA

        lpq = hsi.enclosing(app[0], (ast.For,))
        if lpq is not None:
            lp_ = lpq[0]
            it = lp_.iter
            # the number of clusters: len(object_slices) or the count returned by ndimage.label
            counts = {"len(object_slices)"}
            for s_ in hv.statements():
                if isinstance(s_, ast.Assign) and isinstance(s_.targets[0], ast.Tuple) and len(s_.targets[0].elts) == 2 and isinstance(s_.value, ast.Call) and (hv.callee(s_.value) or "").endswith("ndimage.label"):
                    counts.add(U(s_.targets[0].elts[1]))
            # position (0-based) of the cluster whose radial slice is tested, as an expression in the loop variable
            idx = pos = None
            stop_names = ["object_slices", "labels", "mask", "grid"]
            if isinstance(it, ast.Call) and dotted(it.func) == "enumerate" and it.args and U(it.args[0]) == "object_slices" and isinstance(lp_.target, ast.Tuple) and len(lp_.target.elts) == 2:
                idx = U(lp_.target.elts[0])
                k0 = it.args[1] if len(it.args) > 1 else (kwarg(it, "start") or ast.Constant(value=0))
                elem = U(lp_.target.elts[1])
                stop_names += [idx, elem]
                pos_of = {elem: ast.BinOp(left=ast.Name(id=idx, ctx=ast.Load()), op=ast.Sub(), right=k0)}
                full_cover = True
            elif isinstance(it, ast.Call) and dotted(it.func) == "range" and isinstance(lp_.target, ast.Name) and 1 <= len(it.args) <= 2:
                idx = lp_.target.id
                stop_names += [idx]
                pos_of = {}
                lo_ = it.args[0] if len(it.args) == 2 else ast.Constant(value=0)
                hi_ = it.args[-1]
                full_cover = None  # decided below from the position expression
            else:
                idx = None
            if idx is not None:
                conds = []
                for t, p in hsi.effective_guards(app[0]):
                    cp = compare_parts(t)
                    if cp is not None:
                        conds.append((hv.expand(cp[0], app[0], allow_mutated=True, stop=tuple(stop_names)), type(cp[1]).__name__, U(cp[2]), p))
                sel = None
                for left, op, right, pol in conds:
                    if right == "0" and ((op == "Eq" and pol) or (op == "NotEq" and not pol)) and isinstance(left, ast.Attribute) and left.attr == "start" \
                            and isinstance(left.value, ast.Subscript) and U(left.value.slice) == "0":
                        base = left.value.value  # the slices tuple of one cluster
                        if isinstance(base, ast.Name) and base.id in pos_of:
                            sel = pos_of[base.id]
                        elif isinstance(base, ast.Subscript) and U(base.value) == "object_slices":
                            sel = base.slice
                lab = hv.expand(app[0].args[0], app[0], stop=tuple(stop_names))
                if sel is not None:
                    try:
                        cv_ = _Cv()
                        one_based = (cv_.conv(lab) - cv_.conv(sel)) == _Ex.const(1)
                        if full_cover is None:
                            class _At(ast.NodeTransformer):
                                def __init__(self, val):
                                    self.val = val

                                def visit_Name(self, n_):
                                    return copy.deepcopy(self.val) if n_.id == idx else n_

                            import copy

                            first = cv_.conv(_At(lo_).visit(copy.deepcopy(sel)))
                            hi_txts = set()
                            end_ = _At(hi_).visit(copy.deepcopy(sel))
                            # the position one past the last iteration equals the number of clusters
                            full_cover = first.is_zero() and any(cv_.conv(end_) == cv_.conv(ast.parse(c_, mode="eval").body) for c_ in counts)
                        ok_sel = bool(one_based and full_cover)
                    except (_NA, SyntaxError):
                        ok_sel = False
    ctx.decide(ok_sel, "FLOW", CYL1 + ":on-axis", (h, app[0]) if app else h, "exactly the clusters containing the symmetry axis (radial slice starts at 0) are located, identified by their 1-based label",
               "the list of located clusters is not filled with the (1-based) label of exactly those clusters whose radial slice starts at 0")
    vol = [c for c in hv.calls() if (hv.callee(c) or "") in ("scipy.ndimage.sum_labels", "scipy.ndimage.sum")]
    stops = ("labels", "indices", "grid", "mask")

    def ex_(a, at):
        return U(hv.expand(a, at, allow_mutated=True, stop=stops)).replace(" ", "") if a is not None else None

    okv = bool(vol) and all(ex_(arg_or_kw(c, 0, "input"), c) == "np.outer(grid.cell_volume_data[0],grid.cell_volume_data[1])" and ex_(arg_or_kw(c, 1, "labels"), c) == "labels"
                            and ex_(arg_or_kw(c, 2, "index"), c) == "indices" for c in vol)
    ctx.decide(okv, "DIM", CYL1 + ":volume", (h, vol[0]) if vol else h, "cluster volume = Σ of the cylindrical cell volumes (outer(vol_r, dz)) over the cluster's cells",
               "cluster volumes on cylindrical grids are not the per-label sum of np.outer(*grid.cell_volume_data)")
    # names of the per-cluster position and volume sequences
    vol_names = set()
    for c in vol:
        st_ = hsi.statement(c)
        if isinstance(st_, ast.Assign) and isinstance(st_.targets[0], ast.Name):
            vol_names |= aliases(hv, st_.targets[0].id)
    pos_names = set()
    for s_ in hv.statements():
        if isinstance(s_, ast.Assign) and isinstance(s_.targets[0], ast.Name) and isinstance(s_.value, ast.Call) and isinstance(s_.value.func, ast.Attribute) and s_.value.func.attr == "transform":
            pos_names |= aliases(hv, s_.targets[0].id)
    cons = [c for c in hv.calls(nested=True) if U(c.func).endswith("from_volume")]
    okk = False
    if len(cons) == 1 and len(cons[0].args) == 2:
        gen = None
        for n in ast.walk(h.node):
            if isinstance(n, (ast.GeneratorExp, ast.ListComp)) and any(x is cons[0] for x in ast.walk(n)):
                gen = n
        elem = {}  # text of "the k-th element of sequence S" -> S
        if gen is not None and len(gen.generators) == 1 and not gen.generators[0].ifs:
            g = gen.generators[0]
            if isinstance(g.target, ast.Tuple) and isinstance(g.iter, ast.Call) and dotted(g.iter.func) == "zip" and len(g.iter.args) == len(g.target.elts):
                for tv, seq in zip(g.target.elts, g.iter.args):
                    elem[U(tv)] = U(seq)
            elif isinstance(g.target, ast.Name) and isinstance(g.iter, ast.Call) and dotted(g.iter.func) == "range" and len(g.iter.args) == 1:
                bound = U(g.iter.args[0]).replace(" ", "")
                seqs = {n_.value.id for n_ in ast.walk(gen.elt) if isinstance(n_, ast.Subscript) and isinstance(n_.value, ast.Name) and U(n_.slice) == g.target.id}
                okb = bound in {f"len({a})" for a in seqs} | {f"min(len({a}),len({b}))" for a in seqs for b in seqs if a != b}
                if okb:
                    for a in seqs:
                        elem[f"{a}[{g.target.id}]"] = a
        ptxt, vtxt = U(cons[0].args[0]).replace(" ", ""), U(cons[0].args[1]).replace(" ", "")
        for e_txt, seq in elem.items():
            e_ = e_txt.replace(" ", "")
            # the z coordinates may be taken per row (p[2]) or as the column pos[:, 2] of the position array
            col = None
            try:
                sx_ = hv.expand(ast.parse(seq, mode="eval").body, cons[0], stop=tuple(pos_names))
                if isinstance(sx_, ast.Subscript) and isinstance(sx_.value, ast.Name) and sx_.value.id in pos_names and U(sx_.slice).replace(" ", "") in ("(:,2)", ":,2", "(:,-1)", ":,-1"):
                    col = sx_.value.id
            except SyntaxError:
                pass
            if (seq in pos_names and ptxt in (f"np.array([0,0,{e_}[2]])", f"np.array([0.0,0.0,{e_}[2]])")) or (col is not None and ptxt in (f"np.array([0,0,{e_}])", f"np.array([0.0,0.0,{e_}])")):
                for e2, seq2 in elem.items():
                    if seq2 in vol_names and vtxt == e2.replace(" ", ""):
                        okk = True
    ctx.decide(okk, "FLOW", CYL1 + ":construct", (h, cons[0]) if cons else h, "droplets sit on the axis at the cluster's z (cartesian) with the cluster's volume",
               "droplets are not built as from_volume([0, 0, z_cluster], volume_cluster) from the same cluster's position and volume")


def check_spherical(ctx):
    m = ctx.model
    fi = m.func(SPHR)
    fv = view(m, fi)
    si = stmt_index(fv)
    rad = [s for s in fv.statements() if isinstance(s, ast.Assign) and U(s.targets[0]) == "radius"]
    ok = False
    if len(rad) == 1:
        lpq = si.enclosing(rad[0], (ast.For,))
        slv = U(lpq[0].target) if lpq else "slices"
        val = U(fv.expand(rad[0].value, rad[0], stop=("grid", slv))).replace(" ", "")
        conds = set()
        for t, p in si.effective_guards(rad[0]):
            cp = compare_parts(t)
            if cp is not None:
                conds.add((U(fv.expand(cp[0], rad[0], stop=(slv,))), type(cp[1]).__name__, U(cp[2]), p))
        ok = val == f"float(grid.transform({slv}[0].stop,'cell','grid').flat[-1])" and any(c in ((f"{slv}[0].start", "Eq", "0", True), (f"{slv}[0].start", "NotEq", "0", False)) for c in conds)
    ctx.decide(ok, "FLOW", SPHR + ":radius", (fi, rad[0]) if rad else fi, "radius = radial coordinate of the outer boundary (slice stop, a cell-boundary coordinate) of the cluster touching the origin",
               "the radius on radially symmetric grids is not grid.transform(slices[0].stop, 'cell', 'grid') of the cluster that starts at the origin")
    cons = [c for c in fv.calls() if U(c.func) == "SphericalDroplet" and kwarg(c, "radius") is not None and U(kwarg(c, "radius")) == "radius"]
    okc = len(cons) == 1 and U(cons[0].args[0]) == "np.zeros(grid.dim)"
    ctx.decide(okc, "FLOW", SPHR + ":construct", (fi, cons[0]) if cons else fi, "the droplet is centred at the origin", "the located droplet is not centred at the origin of the symmetric grid")


def check_label_connectivity(ctx, rule="CONNECT"):
    """Clusters are the face-connected components of the image: every ndimage.label call of the locators uses the default
    structuring element (or generate_binary_structure(dim, 1)).  The periodic stitching joins only cells that face each other
    across a boundary, so a wider connectivity inside the image would make the number of clusters depend on where the
    periodic boundary cuts the pattern (translation changes the count)."""
    m = ctx.model
    n = 0
    for fi in m.all_functions():
        if fi.module.name != IMG:
            continue
        fv = view(m, fi)
        for c in fv.calls():
            name = fv.callee(c) or ""
            if not name.endswith("ndimage.label") and not name.endswith("measurements.label"):
                continue
            st = arg_or_kw(c, 1, "structure")
            ok = st is None or (isinstance(st, ast.Constant) and st.value is None)
            if not ok:
                sx = fv.expand(st, c)
                if isinstance(sx, ast.Call) and (fv.callee(sx) or U(sx.func)).endswith("generate_binary_structure") and len(sx.args) == 2 and U(sx.args[1]) == "1":
                    ok = True
            n += 1
            ctx.decide(ok, rule, f"{fi.qualname}:label", (fi, c), "clusters are face-connected components (default structuring element), like the stitching across periodic boundaries",
                       f"`{U(c)[:80]}` labels with a non-default structuring element: cells touching only at edges/corners join inside the image but not across a periodic boundary, "
                       "so the number of located droplets changes when the field is translated")
    return n


def check_dedup_metric(ctx, rule="METRIC"):
    """The Cartesian locator removes duplicates (pieces of one droplet whose equal-volume spheres overlap across a periodic
    boundary) with remove_overlapping: the overlap must be measured in the image's own periodic metric, i.e. the call passes
    grid=<the mask's grid>; with the Euclidean metric the number of droplets depends on where the boundary cuts the pattern."""
    m = ctx.model
    fi = m.func(CART)
    fv = view(m, fi)
    calls = [c for c in fv.calls() if isinstance(c.func, ast.Attribute) and c.func.attr == "remove_overlapping"]
    if len(calls) != 1:
        ctx.undecided(rule, CART + ":dedup", fi, f"{len(calls)} remove_overlapping calls")
        return
    c = calls[0]
    g = arg_or_kw(c, 1, "grid")
    ok = g is not None and U(fv.expand(g, c, stop=("mask",))) == "mask.grid"
    md = arg_or_kw(c, 0, "min_distance")
    if md is not None and not (isinstance(md, ast.Constant) and md.value == 0):
        ctx.violate(rule, CART + ":dedup:min-distance", (fi, c),
                    f"`{U(c)}` removes candidates closer than `{U(md)}`: remove_overlapping measures that distance in the grid's length unit, so on a grid whose spacing is not 1 well separated "
                    "droplets (many cells apart, but less than that length) are removed as duplicates")
    else:
        ctx.hold(rule, CART + ":dedup:min-distance", (fi, c), "only overlapping candidates (surface distance < 0) count as duplicates")
    ctx.decide(ok, rule, CART + ":dedup", (fi, c), "duplicates are removed under the grid's periodic metric",
               f"`{U(c)}` measures the overlap of the candidates without the grid: spheres that overlap only across a periodic boundary are both kept (or, for translated patterns, a different number "
               "of droplets survives), so the count depends on where the boundary lies")


# -------------------------------------------------------------------------------------------------- round 11
def check_origin_cluster_kept(ctx, rule="EXHAUST"):
    """on spherically symmetric grids the cluster that contains the origin *is* the droplet: inside the loop over the clusters its
    construction is guarded by nothing but "starts at the first radial cell" — a further condition (it reaches the outermost cell,
    it is too large …) or a `continue` in front of it returns an empty emulsion for a droplet that the image resolves"""
    m = ctx.model
    q = "droplets.image_analysis._locate_droplets_in_mask_spherical"
    if not m.has_func(q):
        return 0
    fi = m.func(q)
    fv = view(m, fi)
    si = stmt_index(fv)
    ctor = [c for c in fv.calls() if (fv.callee(c) or U(c.func)).split(".")[-1] in ("SphericalDroplet", "from_volume") and si.enclosing(c, (ast.For,)) is not None]
    if not ctor:
        ctx.undecided(rule, q + ":origin-cluster", fi, "construction of the origin droplet inside the cluster loop not found")
        return 0
    c = ctor[0]
    loop = si.enclosing(c, (ast.For,))[0]
    inner = [(t, p) for t, p in si.effective_guards(c) if any(y is t for y in ast.walk(loop))]
    def _is_start0(t, p):
        tx = U(t).replace(" ", "")
        return ".start" in tx and ((tx.endswith("==0") and p) or (tx.endswith("!=0") and not p) or (tx.endswith(">0") and not p))

    start0 = [(t, p) for t, p in inner if _is_start0(t, p)]
    extra = [(t, p) for t, p in inner if (t, p) not in start0]
    # skipping the clusters that do *not* start at the origin (`if start != 0: warn; continue`) is the same selection
    skips = [x for x in ast.walk(loop) if isinstance(x, (ast.Continue, ast.Break))
             and not all(_is_start0(t, not p) for t, p in si.effective_guards(x) if any(y is t for y in ast.walk(loop)))]
    bad = extra[0][0] if extra else (skips[0] if skips else None)
    ctx.decide(bool(start0) and not extra and not skips, rule, q + ":origin-cluster", (fi, bad) if bad is not None else (fi, c),
               "the cluster starting at the first radial cell becomes the droplet, whatever else holds for it",
               f"the origin cluster is turned into a droplet only under a further condition (`{U(bad)[:60] if bad is not None else ''}`): a centred droplet that the image resolves "
               "(e.g. one whose radius comes within half a cell of the grid radius) yields an empty emulsion")
    return 1
